"""C08 -- Seidel and first-order colour surface contributions (reference-model monitor).

`optic.aberrations.third_order()/seidels()/TSC()...TchC()` and `AberrationOperand.*` are called on
a generated lens; every returned number is compared with Welford's classical surface contributions
(vkit/oracles/seidel.py) evaluated on the lens's OWN curvatures, indices and paraxial marginal /
chief rays (that is what the statement says, and it isolates C08 from the C04 findings).  The
mapping Seidel coefficient -> library quantity is one fixed convention, frozen in the oracle's
docstring.  Identities between the returned families, stop-shift invariance of S_I / S_IV and the
small-aperture real-ray limit of the transverse spherical term are decided on the library's
outputs alone.
"""
import copy
import inspect
import itertools
import math

import numpy as np

from vkit import lens as L
from vkit.oracles import seidel as SE

ID = 'C08'
RULE = ('random axially symmetric prescriptions of spheres and planes only (2-9 interfaces; refracting, and with '
        'mirrors in ~25% of the cases; ideal and catalogue media, >= 40% of the cases with dispersive catalogue '
        'glasses and three wavelengths; stop first/interior/last; infinite or finite object (in air or immersed); EPD / imageFNO / '
        'objectNA; angle / object-height fields, ~4% with the axial field only; positive and negative power; image '
        'surface at or away from the paraxial focus, air or immersed) from the constraint-based generator, plus '
        'every bundled sample made of conic-free spheres and planes; a case is non-trivial when |sum S_I| (oracle) is '
        'above its float floor and the lens has >= 2 powered surfaces; ~25% of the cases carry an edit history applied to the '
        'live lens after the first evaluation; distinct = distinct case hash')
TIERS = {'quick': dict(shards=16, cases=15), 'thorough': dict(shards=16, cases=600)}
MIN_NONTRIVIAL = {'quick': 180, 'thorough': 2500}
_PER = ('TSC', 'CC', 'TAC', 'TPC', 'DC', 'TAchC', 'TchC')
# thorough minimums are what ~3000 cases give, so that a run cut short by the shard time budget on a loaded
# machine (recorded as `budget_stop` events) stays conclusive
MIN_EVALS = {c: {'quick': 200, 'thorough': 2500} for c in _PER + ('seidel-sums',)}
MIN_EVALS.update({
    'TCC=3CC': {'quick': 400, 'thorough': 5000},
    "longitudinal=-transverse/u'": {'quick': 1600, 'thorough': 20000},
    'sum-is-sum': {'quick': 3000, 'thorough': 40000},
    'accessor-vs-third_order': {'quick': 2500, 'thorough': 30000},
    'operand-vs-accessor': {'quick': 3000, 'thorough': 40000},
    'stop-shift-invariance': {'quick': 200, 'thorough': 3000},
    'real-ray-limit': {'quick': 60, 'thorough': 1000},
    'edited-equals-rebuilt': {'quick': 400, 'thorough': 8000},
})
ASSUMPTIONS = [
    'the oracle evaluates Welford\'s surface contributions on the library\'s own paraxial marginal/chief rays, radii and '
    'n(lambda) (the statement says so; C04 and C18 check those separately); a mirror reverses the sign of the index in the oracle',
    'the dispersion is n(0.4861 um) - n(0.6563 um) (F and C lines), the pair the library itself uses: the statement does not define it',
    'the proportionality between Seidel coefficients and the library\'s transverse/longitudinal quantities was calibrated once on a '
    'BK7 singlet and frozen (docstring of vkit/oracles/seidel.py)',
    'tolerance 1e-9 relative to the natural rounding scale of each term (the term with every subtraction replaced by a sum of '
    'magnitudes), widened to 1000x the float64/longdouble difference of the oracle where that is larger; identities between '
    'library outputs 1e-12',
    'operands index surfaces like the accessors\' arrays (X(optic, k) == X()[k]); the statement does not define the operand index base',
    'history clause: after glass/index/radius/thickness edits of the live Optic (public setters; a glass swap assigns '
    'material_post / material_pre like Optic.set_index does) the terms are compared with the oracle on the edited lens (same '
    'clause names, class `after-edit`) and with a freshly built Optic of the edited prescription (`edited-equals-rebuilt`, 1e-9 '
    'of the largest term of the family)',
    'real-ray clause: image surface moved to the paraxial focus with Optic.image_solve(); decided on the decay of '
    '(y_real - rho*y_paraxial - rho^3*sum TSC)/rho^3 over decades of rho',
]
ANCHORS = [('optiland.aberrations', 'Aberrations._precalculations'),
           ('optiland.aberrations', 'Aberrations._TSC_term'), ('optiland.aberrations', 'Aberrations._CC_term'),
           ('optiland.aberrations', 'Aberrations._TAC_term'), ('optiland.aberrations', 'Aberrations._TPC_term'),
           ('optiland.aberrations', 'Aberrations._DC_term'), ('optiland.aberrations', 'Aberrations._TAchC_term'),
           ('optiland.aberrations', 'Aberrations._TchC_term'), ('optiland.aberrations', 'Aberrations._sum_seidels'),
           ('optiland.aberrations', 'Aberrations._compute_seidel_terms'),
           ('optiland.aberrations', 'Aberrations.third_order'), ('optiland.aberrations', 'Aberrations.seidels'),
           ('optiland.aberrations', 'Aberrations.SC'), ('optiland.aberrations', 'Aberrations.TCC'),
           ('optiland.aberrations', 'Aberrations.LchC'),
           ('optiland.optimization.operand.aberration', 'AberrationOperand.seidels'),
           ('optiland.optimization.operand.aberration', 'AberrationOperand.TSC'),
           ('optiland.optimization.operand.aberration', 'AberrationOperand.TchC'),
           ('optiland.optimization.operand.aberration', 'AberrationOperand.TSC_sum'),
           ('optiland.optimization.operand.aberration', 'AberrationOperand.LchC_sum')]

NAMES = ('TSC', 'SC', 'CC', 'TCC', 'TAC', 'AC', 'TPC', 'PC', 'DC', 'TAchC', 'LchC', 'TchC')
# known-defect mechanism (finding key) -> switch of the oracle's as-built model
MECH = {'mirror-zero-seidel': 'unsigned-index',
        'chromatic-height-index-slip': 'colour-height-slip',
        'zero-field-invariant-guard': 'zero-H-guard'}
RHOS = (0.3, 0.1, 0.03, 0.01)


def fixed_cases(tier):
    from vkit import samples
    return [dict(kind='sample', name=n) for n in samples.names()]


def gen_case(rng, tier, i):
    r = rng.random()
    glass = rng.random() < 0.62
    kw = dict(conic_p=0.0, asphere_p=0.0, glass_p=(0.85 if glass else 0.0), nwl=(((3, 3) if rng.random() < 0.75 else (1, 1)) if glass else (1, 3)),
              immersed_p=0.1, neg_power_p=0.3, image=('paraxial' if rng.random() < 0.5 else 'any'))
    if r < 0.25:
        kw['mirrors_p'] = 0.35
    kw['stop'] = ['first', 'interior', 'last', 'any'][int(rng.integers(4))]
    if 'obj_medium_p' in inspect.signature(L.gen_axial).parameters:
        kw['obj_medium_p'] = 0.15                     # finite objects immersed in a medium (n_0 != 1)
    spec, info = L.gen_axial(rng, **kw)
    r2 = rng.random()
    if r2 < 0.04:
        spec['fields'] = [[0.0, 0.0, 0.0]]
    elif r2 < 0.10:
        # a tiny but non-zero field (the usual trick to get the field-independent terms of an on-axis design): the
        # Lagrange invariant is ~1e-9, not zero - every term is defined
        fm_ = max(abs(f[0]) for f in spec['fields']) or 1.0
        spec['fields'] = [[0.0, 0.0, 0.0], [float(fm_ * 10.0 ** rng.uniform(-8.5, -6.5)), 0.0, 0.0]]
    case = dict(kind='random', spec=spec, info=info)
    if glass and rng.random() < 0.4:
        edits = gen_edits(rng, spec)
        if edits:
            case['edits'] = edits
    if rng.random() < 0.25:
        # the system aperture is changed after the first evaluation (no radius, thickness or medium is touched): every
        # term and every operand is that of the lens as it is NOW
        case['edits'] = (case.get('edits') or []) + [dict(op='aperture', k=0, f=round(float(rng.uniform(0.55, 0.85)), 4))]
    return case


def gen_edits(rng, spec):
    """An edit history for the LIVE lens (applied after the aberrations were evaluated once): always one edit
    that changes the dispersion of a catalogue glass, optionally a radius and a thickness edit.
    k = surface number (1-based, = index in the lens's surface list)."""
    opt = spec['surfaces'][:-1]
    # a glass that is followed by a refracting surface: behind a mirror the same medium continues, and replacing
    # material_post / material_pre of one interface (what Optic.set_index does) would leave an inconsistent lens
    glassy = [k for k, sf in enumerate(opt, start=1) if isinstance(sf.get('medium'), dict) and 'glass' in sf['medium']
              and spec['surfaces'][k].get('medium') != 'mirror']
    if not glassy:
        return []
    k = int(glassy[int(rng.integers(len(glassy)))])
    edits = []
    if rng.random() < 0.5:
        edits.append(dict(op='index', k=k, n=round(float(rng.uniform(1.45, 1.9)), 6)))     # Optic.set_index: dn -> 0
    else:
        others = [g for g in L.GLASSES if g[0] != opt[k - 1]['medium']['glass']]
        g = others[int(rng.integers(len(others)))]
        edits.append(dict(op='glass', k=k, glass=g[0], ref=g[1]))
    if rng.random() < 0.5:
        curved = [j for j, sf in enumerate(opt, start=1) if not math.isinf(L.fnum(sf.get('radius', 'inf')))]
        if curved:
            j = int(curved[int(rng.integers(len(curved)))])
            edits.append(dict(op='radius', k=j, R=round(L.fnum(opt[j - 1]['radius']) * float(rng.uniform(1.05, 1.25)), 6)))
    if rng.random() < 0.5:
        j = int(rng.integers(1, len(opt) + 1))
        edits.append(dict(op='thickness', k=j, t=round(float(opt[j - 1]['t']) * float(rng.uniform(0.8, 1.2)), 6)))
    if rng.random() < 0.5:
        edits = edits[1:] + edits[:1]               # the glass edit first or last
    return edits


def apply_edits(lens, spec, edits):
    """Edit the live lens through the public API; returns the equally edited spec (for a fresh build)."""
    sp = copy.deepcopy(spec)
    for e in edits:
        k = int(e['k'])
        sf = sp['surfaces'][k - 1]
        if e['op'] == 'index':
            lens.set_index(float(e['n']), k)
            sf['medium'] = {'n': float(e['n'])}
        elif e['op'] == 'glass':
            sf['medium'] = {'glass': e['glass'], 'ref': e['ref']}
            mat = L.make_material(sf['medium'])
            lens.surface_group.surfaces[k].material_post = mat
            lens.surface_group.surfaces[k + 1].material_pre = mat
        elif e['op'] == 'radius':
            lens.set_radius(float(e['R']), k)
            sf['radius'] = float(e['R'])
        elif e['op'] == 'thickness':
            lens.set_thickness(float(e['t']), k)
            sf['t'] = float(e['t'])
        elif e['op'] == 'aperture':
            typ, val = sp['aperture']
            newv = float(val) / float(e['f']) if typ == 'imageFNO' else float(val) * float(e['f'])
            lens.set_aperture(typ, newv)
            sp['aperture'] = [typ, newv]
        else:
            raise ValueError(e)
    # the image-space medium of the spec follows the last optical surface
    return sp


# ---------------------------------------------------------------------------

def lib_inputs(lens):
    """The lens's curvatures, indices, dispersion and paraxial rays, through the public getters."""
    sg = lens.surface_group
    R = np.ravel(np.asarray(sg.radii, dtype=float))
    c = np.array([0.0 if not math.isfinite(r) else 1.0 / r for r in R])
    n = np.ravel(np.asarray(lens.n(), dtype=float))
    dn = (np.ravel(np.asarray(lens.n(0.4861), dtype=float)) -
          np.ravel(np.asarray(lens.n(0.6563), dtype=float)))       # the library's fixed F-C pair
    mirror = [bool(s.is_reflective) for s in sg.surfaces]
    ya, ua = lens.paraxial.marginal_ray()
    ya, ua = np.ravel(ya).astype(float), np.ravel(ua).astype(float)
    yb, ub = lens.paraxial.chief_ray()
    yb, ub = np.ravel(yb).astype(float), np.ravel(ub).astype(float)
    return dict(c=c, n=n, mirror=mirror, ya=ya, ua=ua, yb=yb, ub=ub, dn=dn)


def _arr(x):
    return np.ravel(np.asarray(x, dtype=float))


def in_domain(spec):
    return all(s.get('type', 'standard') == 'standard' and float(s.get('conic', 0.0) or 0.0) == 0.0
               for s in spec['surfaces'])


def _subsets(mechs):
    for r in range(1, len(mechs) + 1):
        for sub in itertools.combinations(mechs, r):
            yield sub


class Judge:
    """Oracle (float64 + longdouble), class flags and as-built models for ONE state of a lens, and the
    comparison of the library's per-surface terms / sums with them."""

    def __init__(self, rec, inp, axial_only, finite):
        self.rec, self.inp = rec, inp
        self.o = SE.surface_terms(**inp)
        self.ol = SE.surface_terms(**inp, dtype=np.longdouble)
        # class flags: which known-defect mechanisms could act on this lens
        has_mirror = any(inp['mirror'])
        self.dispersive = bool(np.any(inp['dn'] != 0))
        # a dispersive interface (Delta(dn/n) != 0) other than the first surface of an infinite-object lens:
        # only there can the height of the previous record differ from the height at the surface
        ddn = inp['dn'][1:-1] / inp['n'][1:-1] - inp['dn'][:-2] / inp['n'][:-2]
        slip = bool(np.any(ddn[1:] != 0) or (finite and ddn[0] != 0))
        self.mech_mono = [m for m, on in (('mirror-zero-seidel', has_mirror),
                                          ('zero-field-invariant-guard', axial_only)) if on]
        self.mech_col = [m for m, on in (('mirror-zero-seidel', has_mirror),
                                         ('chromatic-height-index-slip', slip)) if on]
        self._cache = {}

    def asbuilt(self, sub):
        key = tuple(sorted(sub))
        if key not in self._cache:
            self._cache[key] = SE.surface_terms(**self.inp, model=tuple(MECH[m] for m in key))
        return self._cache[key]

    def versus_oracle(self, clause, got, key, mechs, skey=None, what=''):
        """library value vs oracle; a mismatch is keyed by the smallest set of applicable known
        mechanisms whose as-built prediction reproduces the library's numbers."""
        rec, o, ol = self.rec, self.o, self.ol
        skey = skey or 'scale_' + key
        want = _arr(o[key])
        floor = max(1e-300, 1e-13 * float(np.max(o[skey])) if np.size(o[skey]) else 1e-300)
        scale = np.maximum(_arr(o[skey]), floor)
        cond = float(np.max(np.abs(_arr(o[key]) - _arr(ol[key])) / scale))
        tol = 1e-9 + 1e3 * cond
        got = _arr(got)
        r, same = rec.resid(got, want, scale)
        alt, flags = None, ()
        if not (same and r <= tol) and mechs:
            flags = tuple(mechs)
            alt = _arr(self.asbuilt(mechs)[key])
            for sub in _subsets(mechs):
                cand = _arr(self.asbuilt(sub)[key])
                ra, sa = rec.resid(got, cand, scale)
                if sa and ra <= tol:
                    alt, flags = cand, tuple(sub)
                    break
        rec.close(clause, got, want, tol, scale=scale, alt=alt, flags=flags,
                  msg=f'{clause}: {what}library value differs from the classical surface contributions (Welford) '
                      f'evaluated on the lens\'s own rays')

    def compare_all(self, got, suffix='', what=''):
        """got: dict name -> array for TSC, CC, TAC, TPC, DC, TAchC, TchC and 'S' (five sums)."""
        for nm in ('TSC', 'CC', 'TAC', 'DC'):
            self.versus_oracle(nm + suffix, got[nm], nm, self.mech_mono, what=what)
        self.versus_oracle('TPC' + suffix, got['TPC'], 'TPC',
                           [m for m in self.mech_mono if m == 'mirror-zero-seidel'], what=what)
        for nm in ('TAchC', 'TchC'):
            self.versus_oracle(nm + suffix, got[nm], nm, self.mech_col, what=what)
        self.versus_oracle('seidel-sums' + suffix, got['S'], 'S', self.mech_mono, skey='scale_S', what=what)


def check_case(case, rec):
    from optiland.optimization.operand.aberration import AberrationOperand as AO
    if case['kind'] == 'sample':
        from vkit import samples
        lens, spec = samples.load(case['name'])
        if spec is None:
            rec.cls('sample-not-axial-skipped')
            return
        if not in_domain(spec):
            rec.cls('sample-with-conic-or-asphere-skipped')      # outside the statement's quantifier
            return
        rec.cls('sample')
        remake = lambda: samples.make(case['name'])
    else:
        spec, info = case['spec'], case['info']
        lens = L.build(spec)
        rec.cls(*L.class_names(info))
        remake = lambda: L.build(spec)

    inp = lib_inputs(lens)
    N = len(inp['c'])
    K = N - 2                                   # optical surfaces
    axial_only = max(abs(float(f[0])) for f in spec['fields']) == 0.0
    finite = not math.isinf(L.fnum(spec['obj_t']))
    J = Judge(rec, inp, axial_only, finite)
    o, mech_mono, asbuilt = J.o, J.mech_mono, J.asbuilt
    rec.cls(*[f'mech-{m}' for m in sorted(set(J.mech_mono + J.mech_col))])
    rec.cls('dispersive' if J.dispersive else 'no-dispersion', 'axial-field-only' if axial_only else 'off-axis-field')
    if J.dispersive and len(spec['wavelengths']) >= 2:
        rec.cls('dispersive-and-polychromatic')
    if abs(inp['n'][0] - 1.0) > 1e-9:
        rec.cls('object-space-immersed')
    if abs(inp['n'][-1] - 1.0) > 1e-9 or abs(inp['n'][-2] - 1.0) > 1e-9:
        rec.cls('image-space-immersed')
    if abs(inp['ya'][-1]) > 1e-6 * np.max(np.abs(inp['ya'])):
        rec.cls('image-surface-defocused')
    powered = sum(1 for k in range(1, N - 1)
                  if inp['c'][k] != 0 and (inp['mirror'][k] or inp['n'][k] != inp['n'][k - 1]))
    s1_floor = 1e-12 * float(o['scale_S'][0])
    if abs(float(o['S'][0])) > s1_floor and powered >= 2:
        rec.nontrivial_case()

    ab = lens.aberrations

    # ---- the all-in-one call and every accessor ------------------------------------------------
    third = ab.third_order()
    T = {nm: _arr(v) for nm, v in zip(NAMES, third[:12])}
    T['S'] = _arr(third[12])
    acc = {nm: _arr(getattr(ab, nm)()) for nm in NAMES}
    acc['S'] = _arr(ab.seidels())

    J.compare_all(acc)
    rec.event('surface_terms_compared', 7 * K + 5)

    # oracle self-check: the three forms of S_V agree where |A| is not small (harness integrity)
    s5s = np.maximum(_arr(o['scale_DC']) * abs(2 * float(o['nK']) * float(o['uK'])), 1e-300)
    okA = np.abs(o['A']) > 1e-3 * np.max(np.abs(o['A']))
    d = np.abs(o['S5_smith'] - o['S5']) / s5s
    if okA.any() and np.all(np.isfinite(o['S5_ratio'][okA])):
        d = np.maximum(d, np.where(okA, np.abs(np.where(okA, o['S5_ratio'], 0.0) - o['S5']) / s5s, 0.0))
    if np.all(np.isfinite(o['S5'])) and float(np.max(d)) > 1e-9:
        rec.inconclusive.append(f'oracle self-check: forms of S_V disagree by {float(np.max(d)):.2e}')
    rec.event('oracle_SV_forms_crosschecked', int(okA.sum()))

    def relscale(a, b=None):
        m = np.abs(_arr(a)) if b is None else np.maximum(np.abs(_arr(a)), np.abs(_arr(b)))
        top = float(np.max(m)) if m.size and np.any(np.isfinite(m)) else 0.0
        return np.maximum(np.where(np.isfinite(m), m, 1.0), max(1e-300, 1e-6 * top))

    # ---- identities between the returned families ---------------------------------------------
    rec.close('TCC=3CC', acc['TCC'], 3.0 * acc['CC'], 1e-12, scale=relscale(acc['TCC']),
              msg='tangential coma is not three times sagittal coma')
    rec.close('TCC=3CC', T['TCC'], 3.0 * T['CC'], 1e-12, scale=relscale(T['TCC']),
              msg='third_order(): tangential coma is not three times sagittal coma')
    uK = float(inp['ua'][-1])
    for lo, tr in (('SC', 'TSC'), ('AC', 'TAC'), ('PC', 'TPC'), ('LchC', 'TAchC')):
        for src, tag in ((acc, ''), (T, 'third_order(): ')):
            rec.close("longitudinal=-transverse/u'", src[lo] * (-uK), src[tr], 1e-12, scale=relscale(src[tr]),
                      msg=f'{tag}{lo} is not -{tr}/u\'_K (final marginal slope)')
    nK = float(inp['n'][-1])
    # every call recomputes the paraxial rays (~10 ms): per case half of the twelve families are probed
    # through their per-surface operand and the other half through their *_sum operand (alternating with
    # the parity of the case), so that every operand is exercised in about half of the cases
    parity = (K + len(spec['wavelengths']) + len(spec['fields'])) % 2
    for j, nm in enumerate(NAMES):
        if j % 2 == parity:
            continue
        v = float(np.ravel(getattr(AO, nm + '_sum')(lens))[0])
        ssc = max(1e-300, float(np.sum(np.abs(acc[nm]))))
        rec.close('sum-is-sum', v, math.fsum(acc[nm]), 1e-12, scale=ssc,
                  msg=f'{nm}_sum is not the sum of the per-surface {nm} terms')
        rec.close('operand-vs-accessor', v, float(np.sum(acc[nm])), 1e-12, scale=ssc,
                  msg=f'AberrationOperand.{nm}_sum(optic) is not the sum of {nm}()')
    for j, nm in enumerate(SE.LONG):
        ssc = max(1e-300, 2 * abs(nK * uK) * float(np.sum(np.abs(acc[nm]))))
        for src, tag in ((acc, 'seidels()'), (T, 'third_order()')):
            rec.close('sum-is-sum', src['S'][j], -2 * nK * uK * math.fsum(src[nm]), 1e-12, scale=ssc,
                      msg=f'{tag}[{j}] is not -2 n\'u\' x the sum of the {nm} surface terms')
    for nm in NAMES + ('S',):
        rec.close('accessor-vs-third_order', acc[nm], T[nm], 1e-13, scale=relscale(acc[nm], T[nm]),
                  msg=f'{nm}() disagrees with the corresponding slice of third_order()')
    for j, nm in enumerate(NAMES):
        if j % 2 != parity:
            continue
        for k in sorted({(7 * j + K) % K, (K - 1) if j % 4 == 0 else (7 * j + K) % K}):
            v = float(np.ravel(getattr(AO, nm)(lens, k))[0])
            rec.close('operand-vs-accessor', v, acc[nm][k], 1e-13, scale=float(relscale(acc[nm])[k]),
                      msg=f'AberrationOperand.{nm}(optic, k) is not {nm}()[k]')
    for j in range(1, 6):
        v = float(np.ravel(AO.seidels(lens, j))[0])
        rec.close('operand-vs-accessor', v, acc['S'][j - 1], 1e-13, scale=float(relscale(acc['S'])[j - 1]),
                  msg='AberrationOperand.seidels(optic, j) is not seidels()[j-1]')

    # ---- the S_I and S_IV sums do not depend on where the stop is -----------------------------
    # decided where the marginal ray is the same for every stop position: infinite object, EPD aperture
    if not finite and spec['aperture'][0] == 'EPD' and spec['field_type'] == 'angle' and K >= 2:
        stop_now = [i for i, s in enumerate(spec['surfaces'][:-1]) if s.get('stop')]
        base = acc['S']
        for j in range(K):
            if j in stop_now:
                continue
            sp = copy.deepcopy(spec)
            for i, s in enumerate(sp['surfaces'][:-1]):
                s['stop'] = (i == j)
            l2 = L.build(sp)
            S2 = _arr(l2.aberrations.seidels())
            o2 = SE.surface_terms(**lib_inputs(l2))
            sc = np.array([max(float(o['scale_S'][q]), float(o2['scale_S'][q]), 1e-300) for q in (0, 3)])
            rec.close('stop-shift-invariance', S2[[0, 3]], base[[0, 3]], 1e-9, scale=sc,
                      msg='spherical / Petzval Seidel sum changed when only the stop was moved '
                          '(infinite object, EPD aperture: same marginal ray)',
                      detail=dict(stop_moved_to=j + 1))
        rec.cls('stop-shift-evaluated')

    # ---- third-order transverse spherical predicts the real marginal-ray error ----------------
    if not finite:
        real_ray_limit(rec, remake, o, inp, mech_mono, asbuilt)

    # ---- history: edit the SAME Optic, evaluate again ---------------------------------------------
    if case.get('edits'):
        after_edit(rec, lens, spec, case['edits'], axial_only, finite)

    rec.sample(dict(spec=spec if case['kind'] == 'random' else dict(sample=case['name']),
                    library=dict(TSC=acc['TSC'], TAchC=acc['TAchC'], seidels=acc['S']),
                    welford=dict(TSC=_arr(o['TSC']), TAchC=_arr(o['TAchC']), seidels=_arr(o['S']))))


def after_edit(rec, lens, spec, edits, axial_only, finite):
    """The aberrations of `lens` have been evaluated; now the live lens is edited (glass / index / radius /
    thickness) and every term is evaluated again on the same Optic: it must be the term of the EDITED lens
    (oracle on the edited lens's own rays and indices; and the same numbers as a freshly built Optic of the
    edited prescription)."""
    sp2 = apply_edits(lens, spec, edits)
    ops = '+'.join(e['op'] for e in edits)
    rec.cls('after-edit', *[f"edit-{e['op']}" for e in edits])
    what = f'after editing the live lens ({ops}) '
    ab = lens.aberrations
    third = ab.third_order()
    T2 = {nm: _arr(v) for nm, v in zip(NAMES, third[:12])}
    T2['S'] = _arr(third[12])
    acc2 = {nm: _arr(getattr(ab, nm)()) for nm in _PER}
    acc2['S'] = _arr(ab.seidels())
    J2 = Judge(rec, lib_inputs(lens), axial_only, finite)
    J2.compare_all(acc2, what=what)
    J2.compare_all(T2, what=what + 'third_order(): ')
    rec.event('surface_terms_compared_after_edit', 2 * (7 * (len(J2.inp['c']) - 2) + 5))
    # the *_sum operands on the edited lens: sums of the terms of the lens as it is now
    from optiland.optimization.operand.aberration import AberrationOperand as AO_
    for nm in NAMES:
        if nm in acc2 and hasattr(AO_, nm + '_sum'):
            v_ = float(np.ravel(getattr(AO_, nm + '_sum')(lens))[0])
            rec.close('operand-vs-accessor', v_, float(np.sum(acc2[nm])), 1e-12, scale=max(1e-300, float(np.sum(np.abs(acc2[nm])))),
                      key='operand-vs-accessor:after-edit',
                      msg=f'{what}AberrationOperand.{nm}_sum(optic) is not the sum of {nm}() of the lens as it is now')
    fresh = L.build(sp2)
    tf = fresh.aberrations.third_order()
    F = {nm: _arr(v) for nm, v in zip(NAMES, tf[:12])}
    F['S'] = _arr(tf[12])
    for src, tag in ((T2, 'third_order()'), (acc2, 'accessor')):
        for nm in src:
            m = np.maximum(np.abs(F[nm]), np.abs(src[nm])) if F[nm].shape == src[nm].shape else np.abs(F[nm])
            top = float(np.max(m)) if m.size and np.any(np.isfinite(m)) else 0.0
            rec.close('edited-equals-rebuilt', src[nm], F[nm], 1e-9, scale=max(1e-300, top),
                      msg=f'{nm} ({tag}) evaluated {what}differs from the same call on a freshly built Optic of the '
                          f'edited prescription (something stale survives the edit)')


def real_ray_limit(rec, remake, o, inp, mechs, asbuilt):
    """y_real(rho) - rho*y_paraxial -> rho^3 * sum(TSC) at the paraxial focus, sign included."""
    from optiland.optimization.operand.aberration import AberrationOperand as AO
    lens = remake()
    lens.image_solve()
    z = [float(np.ravel(p)[0]) for p in lens.surface_group.positions]
    if (z[-1] - z[-2]) * (-1 if sum(inp['mirror']) % 2 else 1) <= 0:
        rec.cls('real-ray-limit-skipped-virtual-paraxial-focus')     # real rays cannot be traced backwards to it
        return
    wl = float(lens.primary_wavelength)
    ya, _ = lens.paraxial.marginal_ray()
    y_par = float(np.ravel(ya)[-1])                    # residue of the solve, ~1e-15
    tsc_lib = float(np.ravel(AO.TSC_sum(lens))[0])
    tsc_ora = float(np.sum(o['TSC']))                  # image position does not enter the surface terms
    size = float(np.sum(o['scale_TSC']))               # sum of |terms| (natural scale)
    span = max(1.0, float(np.max(np.abs(inp['ya']))))
    ys = []
    for rho in RHOS:
        lens.trace_generic(0.0, 0.0, 0.0, float(rho), wl)
        ys.append(float(np.ravel(lens.surface_group.y[-1])[0]))
    ys = np.array(ys)
    if not np.all(np.isfinite(ys)) or not math.isfinite(tsc_lib) or size == 0.0:
        rec.cls('real-ray-limit-skipped-nonfinite')
        return
    rho = np.array(RHOS)
    # float64 noise of the traced height: direction cosines carry ~1e-16 absolute error, times the longest
    # free path (and ~1e-16 relative on the heights); 1e-13 * length leaves two orders of margin.  In y/rho^3:
    gaps = [abs(b - a) for a, b in zip(z[:-1], z[1:]) if math.isfinite(a) and math.isfinite(b)]
    floor = 1e-13 * max([span] + gaps) / rho ** 3

    def verdict(tsc):
        e = (ys - rho * y_par - rho ** 3 * tsc) / rho ** 3
        ok = True
        worst = 0.0
        # the remainder e(rho) = a5 rho^2 + a7 rho^4 + ... must fall by ~100 per decade; the coarse level is
        # taken from both coarse apertures (rho^2 law) so that a zero crossing of e at one of them cannot
        # fake a slow decay
        coarse = max(abs(e[0]), 9.0 * abs(e[1]))
        for b, shrink in ((2, 1.0), (3, 9.0)):          # rho = 0.03 vs 0.3, rho = 0.01 vs 0.1
            lim = max(0.05 * coarse / shrink, floor[b], 1e-7 * size)
            worst = max(worst, abs(e[b]) / lim)
            ok = ok and abs(e[b]) <= lim
        lim = 2e-3 * size + floor[-1]                   # O(rho^2) remainder at rho = 0.01
        worst = max(worst, abs(e[-1]) / lim)
        ok = ok and abs(e[-1]) <= lim
        return ok, worst, e

    ok, worst, e = verdict(tsc_lib)
    key = None
    if not ok:
        # explained only when Welford's sum (signed indices) does predict the real ray and the library's
        # sum is what a set of applicable known mechanisms makes of it
        ok_o, _, _ = verdict(tsc_ora)
        key = 'real-ray-limit:unexplained'
        if ok_o:
            for sub in _subsets(mechs):
                if abs(float(np.sum(asbuilt(sub)['TSC'])) - tsc_lib) <= 1e-9 * size:
                    key = 'real-ray-limit:' + '+'.join(sub)
                    break
    rec.check('real-ray-limit', ok, key=key, resid=worst, tol=1.0,
              msg='the real marginal ray\'s transverse error at the paraxial focus does not tend to rho^3 * sum(TSC) '
                  f'(library sum {tsc_lib:.6g}, Welford on signed indices {tsc_ora:.6g}, measured y/rho^3 at rho=0.01 '
                  f'{(ys[-1] - rho[-1] * y_par) / rho[-1] ** 3:.6g})',
              detail=dict(rho=rho, y_real=ys, y_paraxial_image=y_par, err_over_rho3=e, TSC_sum_library=tsc_lib,
                          TSC_sum_welford=tsc_ora))
