"""C18 -- catalogue materials: dispersion formulas / tabulated data, exact-name lookup, Abbe number, model glass.

Reference-model monitor.  Every data file referenced by database/catalog_nk.csv is read by the independent
oracle (vkit/oracles/dispersion.py: the nine refractiveindex.info formulas written from the database
documentation, tabulated n / nk / k as the piecewise-linear function through the table ordered by wavelength)
and compared with MaterialFile(path).n / .k at wavelengths across the file's own stated range.  The enumeration of
catalogue rows is exhaustive in both tiers (fixed cases of 40 rows each); the tiers differ in the number of
equally spaced wavelengths (9 / 41) and in how many rows are looked up by name (600 random / all).

Known-defect mechanisms are modelled ("as built") so that a mismatch is only attributed to one of them when the
library's output equals what that mechanism predicts:
  unsorted-table     : the table is handed to np.interp in file order; np.interp needs increasing abscissae
  f4-zero-term-pole  : formula 4 evaluates a zero-amplitude rational term 0*L^C/(L^2 - C^C) literally, 0/0 at L^2 = C^C
  regex-metachar     : catalogue queries are used as regular expressions (str.contains default regex=True)
"""
import math
import os
import re
import tempfile
import traceback

import numpy as np

from vkit.oracles import dispersion as D

ID = 'C18'
RULE = ('every row of database/catalog_nk.csv is enumerated (fixed cases of 40 rows, both tiers); per row the data file '
        'is evaluated at 9 (quick) / 41 (thorough) equally spaced wavelengths over the range stated in the file '
        '(wavelength_range of the formula / first..last node of the table) including both end points, plus the catalogue '
        'row\'s min/max, the landmark wavelengths 0.4861327, 0.5875618, 0.6328, 0.6562725, 1.0, 1.064, 1.55, 2.0, 10.6 um '
        'that lie inside the range, and for tabulated data every node and every mid-point between nodes; one synthetic data '
        'file per formula number 1..9 (formula 7 has no catalogue entry); exact-name lookups for 600 random rows (quick) / '
        'every row (thorough) by name, by category_name, and each with the row\'s reference; model glasses for every Schott '
        'catalogue glass and for random mixtures of neighbouring Schott glasses in the (n_d, V_d) map. A rows case is '
        'non-trivial when at least one of its files defines exactly one n relation; distinct = distinct case hash')
TIERS = {'quick': dict(shards=16, cases=50), 'thorough': dict(shards=16, cases=60)}
MIN_NONTRIVIAL = {'quick': 600, 'thorough': 1100}
MIN_EVALS = {'n-formula': 2500, 'scalar-vs-array': 2500, 'k-interp': 1900,
             'lookup-exact-name': {'quick': 1800, 'thorough': 10000},
             'abbe-definition': 1500, 'model-glass-nd': {'quick': 2000, 'thorough': 20000},
             'model-glass-dispersion': {'quick': 2000, 'thorough': 20000},
             'model-scalar-vs-array': {'quick': 2000, 'thorough': 20000},
             'n-formula-synthetic': 9}
ASSUMPTIONS = ['the dispersion formulas are those of database/doc/Dispersion formulas.pdf (RefractiveIndex.INFO 2014-06-29); a term whose '
               'amplitude coefficient is zero or absent contributes exactly zero',
               'tabulated data: piecewise-linear through the table ordered by wavelength; at a wavelength listed more than once any of '
               'the listed values is admissible',
               '"stated range" of an entry = wavelength_range of its formula block, or first..last node of its n table; k is compared '
               'inside the range of the k table only',
               '"an entry with exactly that name": the returned row\'s name or category_name equals the query case-insensitively (these are '
               'the two columns the library matches a query against); which of several same-named rows is returned is not judged',
               'model glass: "accuracy of its fit" = 2 x the 99.9th percentile of the error measured on the unchanged tree over the Schott '
               'catalogue glasses and 20000 neighbour mixtures (numbers hard-coded below); V_d is judged through the principal dispersion '
               'n_F - n_C = (n_d - 1)/V_d, which is what the fit controls']
_MF = 'optiland.materials.material_file'
ANCHORS = ([(_MF, 'MaterialFile.n')] + [(_MF, f'MaterialFile._formula_{i}') for i in range(1, 10)]
           + [(_MF, 'MaterialFile._tabulated_n'), (_MF, 'MaterialFile.k'), (_MF, 'MaterialFile._parse_file'),
              ('optiland.materials.material', 'Material._find_material_matches'),
              ('optiland.materials.material', 'Material._retrieve_file'),
              ('optiland.materials.base', 'BaseMaterial.abbe'),
              ('optiland.materials.abbe', 'AbbeMaterial._get_coefficients'),
              ('optiland.materials.abbe', 'AbbeMaterial.n')])

ROWS_PER_CASE = 40
LOOKUP_ROWS_PER_CASE = 10
NPTS = {'quick': 9, 'thorough': 41}
LANDMARKS = (D.LINE_F, D.LINE_d, 0.6328, D.LINE_C, 1.0, 1.064, 1.55, 2.0, 10.6)
TOL_N = 1e-9          # relative to max(1, |n|): formulas are a handful of float64 operations (observed <= 4e-16); the smallest
#                       realistic bug (a squared/unsquared pole, a dropped coefficient, nearest instead of linear) is > 1e-6
TOL_K = 1e-9          # relative to the larger |k| of the bracketing nodes
TOL_SV = 1e-15        # scalar vs array: same arithmetic, at most a few ulp from scalar/vector pow (observed <= 2.3e-16)
TOL_ABBE = 1e-9       # relative; V = (n_d-1)/(n_F-n_C) amplifies 1e-16 errors of n by ~1/(n_F-n_C) <= 1e4

# Model-glass thresholds.  Measured on the unchanged tree (2026-10-02) over the 163 Schott catalogue glasses
# (n_d, V_d from the oracle) plus 20000 random mixtures of a Schott glass with one of its 5 nearest neighbours in the
# standardised (n_d, V_d) map:   |n_model(d) - n_d|: 99.9th percentile 6.86e-4 (max 6.96e-4);
#                                |[n_model(F) - n_model(C)] - (n_d - 1)/V_d|: 99.9th percentile 4.34e-3 (max 4.63e-3).
# Threshold = 2 x the 99.9th percentile.
TOL_MODEL_ND = 2 * 6.86e-4
TOL_MODEL_DISP = 2 * 4.34e-3


# ------------------------------------------------------------------------------------------------
# case generation
# ------------------------------------------------------------------------------------------------

def _chunks(n, size):
    return [list(range(a, min(n, a + size))) for a in range(0, n, size)]


# one synthetic data file per formula number: coefficient counts as they occur in the catalogue (odd, short lists are
# padded by the formula), realistic magnitudes; formula 7 (Herzberger) has no catalogue entry at all.
SYNTHETIC = [
    dict(formula=1, range=[0.21, 6.7], coefficients=[0, 0.6961663, 0.0684043, 0.4079426, 0.1162414, 0.8974794, 9.896161]),
    dict(formula=1, range=[0.3, 2.0], coefficients=[0.1, 1.2, 0.09]),
    dict(formula=2, range=[0.3, 2.5], coefficients=[0, 1.03961212, 0.00600069867, 0.231792344, 0.0200179144, 1.01046945, 103.560653]),
    dict(formula=2, range=[0.4, 1.6], coefficients=[0.05, 1.3, 0.011, 0.2, 0.03, 0.9, 90.0, 0.01, 150.0, 0.002, 300.0]),
    dict(formula=3, range=[0.365, 2.3], coefficients=[2.2850299, -0.0086010725, 2, 0.011806783, -2, 0.00020765657, -4,
                                                     -2.1314913e-6, -6, 3.2131234e-7, -8]),
    dict(formula=3, range=[0.4, 1.0], coefficients=[2.25, 0.01, -2, -0.004, 1.5]),
    dict(formula=4, range=[0.25, 2.6], coefficients=[1.78522, 1.21202, 2, 0.01262, 1, 0.3, 1.5, 8.0, 2, -0.01681, 2]),
    dict(formula=4, range=[0.4, 5.0], coefficients=[2.3, 1.1, 2, 0.15, 2, 0.9, 2, 12.0, 2, -0.003, 2, 0.0002, -4, 1e-5, 3, -2e-6, 4]),
    dict(formula=5, range=[0.4, 1.6], coefficients=[1.5, 0.0045, -2, 0.00012, -4]),
    dict(formula=5, range=[0.4, 1.6], coefficients=[1.45, 0.003, -1.5]),
    dict(formula=6, range=[0.23, 1.69], coefficients=[0, 0.05792105, 238.0185, 0.00167917, 57.362]),
    dict(formula=6, range=[0.3, 2.0], coefficients=[1e-5, 0.03, 144.0, 0.002, 70.0, 0.0004, 40.0]),
    dict(formula=7, range=[2.4373, 25.0], coefficients=[3.41906, 0.123172, 0.0265456, -2.66511e-8, 5.45852e-11]),
    dict(formula=7, range=[0.5, 2.5], coefficients=[1.6, 0.012, 0.0004, -0.003, 0.0002, -1e-5]),
    dict(formula=8, range=[0.5, 12.0], coefficients=[0.25, 0.12, 0.09, -0.0004]),
    dict(formula=9, range=[0.6, 1.5], coefficients=[2.4, 0.03, 0.04, 0.02, 0.3, 0.01]),
]


def fixed_cases(tier):
    cat = D.catalogue()
    cases = []
    for rows in _chunks(len(cat), ROWS_PER_CASE):
        cases.append(dict(kind='rows', npts=NPTS[tier], rows=rows, files=[cat[i]['filename'] for i in rows]))
    for s in SYNTHETIC:
        cases.append(dict(kind='synthetic', npts=NPTS[tier], **s))
    sch = D.schott_glasses()
    for idx in _chunks(len(sch), 20):
        cases.append(dict(kind='model', source='schott', glasses=[sch[i][0] for i in idx],
                          points=[[sch[i][1], sch[i][2]] for i in idx]))
    if tier == 'thorough':
        for rows in _chunks(len(cat), LOOKUP_ROWS_PER_CASE):
            cases.append(dict(kind='lookup', rows=rows,
                              queries=[_row_queries(cat[i]) for i in rows]))
    return cases


def _row_queries(row):
    return dict(name=row['name'], category_name=row['category_name'], reference=row['reference'])


_NBR = {}


def _schott_neighbours():
    if 'x' not in _NBR:
        sch = D.schott_glasses()
        nd = np.array([s[1] for s in sch])
        vd = np.array([s[2] for s in sch])
        X = np.c_[(nd - nd.mean()) / nd.std(), (vd - vd.mean()) / vd.std()]
        d = np.hypot(X[:, None, 0] - X[None, :, 0], X[:, None, 1] - X[None, :, 1])
        _NBR['x'] = (nd, vd, np.argsort(d, axis=1)[:, 1:6])
    return _NBR['x']


def gen_case(rng, tier, i):
    if tier == 'quick' and rng.random() < 0.8:
        cat = D.catalogue()
        r = int(rng.integers(len(cat)))
        return dict(kind='lookup', rows=[r], queries=[_row_queries(cat[r])])
    nd, vd, nbr = _schott_neighbours()
    pts = []
    for _ in range(25 if tier == 'quick' else 50):
        a = int(rng.integers(len(nd)))
        b = int(nbr[a, int(rng.integers(nbr.shape[1]))])
        t = float(rng.random())
        pts.append([float(nd[a] + t * (nd[b] - nd[a])), float(vd[a] + t * (vd[b] - vd[a]))])
    return dict(kind='model', source='neighbour-mix', points=pts)


# ------------------------------------------------------------------------------------------------
# helpers
# ------------------------------------------------------------------------------------------------

def _sample_once(rec, kind, obj):
    """one written-out case of each kind (data file, lookup, model glass) per shard"""
    seen = rec.__dict__.setdefault('_c18_sampled', set())
    if kind not in seen:
        seen.add(kind)
        rec.sample(obj)


def _lib_exception(rec, ex, what):
    """An exception that came out of library code while evaluating `what`: record it as a violation keyed by
    type and place; one raised by harness code is re-raised (the run becomes INCONCLUSIVE)."""
    frames = traceback.extract_tb(ex.__traceback__)
    libs = [f for f in frames if '/optiland/' in os.path.abspath(f.filename)]
    if not libs:
        raise ex
    f = libs[-1]
    rec.check('no-unexpected-exception', False,
              key=f'exception:{type(ex).__name__}@{os.path.basename(f.filename)}:{f.name}',
              msg=f'library raised {type(ex).__name__}: {ex} ({what})',
              detail=dict(what=what, tb=traceback.format_exc()[-1200:]))


def _test_wavelengths(e, npts, csv_range=None):
    lo, hi = e.n_range
    pts = [np.linspace(lo, hi, npts)]
    extra = [w for w in LANDMARKS if lo <= w <= hi]
    if csv_range:
        extra += [w for w in csv_range if w == w and lo <= w <= hi]
    dead = e.dead_poles()
    extra += dead
    pts.append(np.asarray(extra, dtype=float))
    if e.n_table is not None:
        pts.append(e.n_table.nodes_and_midpoints())
    return np.unique(np.concatenate(pts)), dead


def _subset(n, k):
    if n <= k:
        return np.arange(n)
    return np.unique(np.round(np.linspace(0, n - 1, k)).astype(int))


def _flt(x):
    return float(np.ravel(np.asarray(x, dtype=float))[0])


def check_n(rec, m, e, w, dead, what, clause='n-formula', sv_clause='scalar-vs-array', sv_points=48):
    """library n(w) vs oracle, array form, then scalar form at a subset.  Returns the library's array values."""
    tab = e.n_table
    flags, alt = (), None
    got = np.asarray(m.n(w), dtype=float)
    if got.shape != w.shape:
        got = np.broadcast_to(got, w.shape).astype(float)
    want = e.n(w, got)
    isdead = np.isin(w, dead) if dead else np.zeros(len(w), bool)
    if tab is not None and tab.unsorted:
        flags = ('unsorted-table',)
        alt = np.interp(w, tab.raw_w, tab.raw_v)
    elif isdead.any():
        flags = ('f4-zero-term-pole',)
        alt = np.where(isdead, np.nan, want)
    rec.close(clause, got, want, TOL_N, scale=np.maximum(1.0, np.abs(np.where(np.isfinite(want), want, 1.0))),
              alt=alt, flags=flags, msg=f'{what}: n(array) differs from the {e.kind} oracle',
              detail=dict(file=what, kind=e.kind, wavelengths=w))
    rec.event('wavelength_points', len(w))

    # scalar argument at a subset of the same wavelengths (always both end points and any dead pole)
    idx = _subset(len(w), sv_points)
    if isdead.any():
        idx = np.unique(np.concatenate([idx, np.nonzero(isdead)[0]]))
    sc = np.empty(len(idx))
    keep = np.ones(len(idx), bool)
    for j, i in enumerate(idx):
        try:
            sc[j] = _flt(m.n(float(w[i])))
        except ZeroDivisionError as ex:
            keep[j] = False
            explained = bool(isdead[i])
            rec.check(sv_clause, False,
                      key=f'{sv_clause}:' + ('f4-zero-term-pole' if explained else 'unexplained'),
                      msg=f'{what}: n({float(w[i])!r}) with a scalar argument raised ZeroDivisionError '
                          f'(the array form returns {got[i]!r}; the formula value is {want[i]!r})',
                      detail=dict(file=what, wavelength=float(w[i])))
    idx, sc = idx[keep], sc[keep]
    alt_s, flags_s = None, ()
    if tab is not None and tab.unsorted:
        flags_s = ('unsorted-table',)
        alt_s = np.array([np.interp(float(x), tab.raw_w, tab.raw_v) for x in w[idx]])
    rec.close(sv_clause, sc, got[idx], TOL_SV, scale=np.maximum(1.0, np.abs(np.where(np.isfinite(got[idx]), got[idx], 1.0))),
              alt=alt_s, flags=flags_s, msg=f'{what}: n(scalar) differs from n(array)[i]',
              detail=dict(file=what, wavelengths=w[idx]))
    return got


def check_k(rec, m, e, npts, what):
    kt = e.k_table
    if kt is None:
        lo, hi = e.n_range
        try:
            v = m.k(0.5 * (lo + hi))
            rec.cls(f'k-absent:returns-{_flt(v):g}')
        except Exception as ex:                       # documented: ValueError('No extinction coefficient data found')
            rec.cls(f'k-absent:raises-{type(ex).__name__}')
        return
    w = np.unique(np.concatenate([np.linspace(kt.lo, kt.hi, npts), kt.nodes_and_midpoints()]))
    got = np.asarray(m.k(w), dtype=float)
    want = kt.want(w, got)
    scale = np.maximum(kt.local_scale(w), 1e-300)
    flags, alt = (), None
    if kt.unsorted:
        flags, alt = ('unsorted-table',), np.interp(w, kt.raw_w, kt.raw_v)
    rec.close('k-interp', got, want, TOL_K, scale=scale, alt=alt, flags=flags,
              msg=f'{what}: k(array) differs from linear interpolation of the k table',
              detail=dict(file=what, wavelengths=w))
    rec.event('k_wavelength_points', len(w))
    idx = _subset(len(w), 12)
    sc = np.array([_flt(m.k(float(x))) for x in w[idx]])
    alt_s = np.array([np.interp(float(x), kt.raw_w, kt.raw_v) for x in w[idx]]) if kt.unsorted else None
    rec.close('k-scalar-vs-array', sc, got[idx], TOL_SV, scale=scale[idx], alt=alt_s, flags=flags,
              msg=f'{what}: k(scalar) differs from k(array)[i]')


def check_abbe(rec, m, e, what):
    """abbe() against (n_d-1)/(n_F-n_C) from the material's own n() and from the oracle's n."""
    if not e.covers(D.LINE_F, D.LINE_C):
        rec.cls('abbe:F-C-outside-stated-range-not-judged')
        return
    got = _flt(m.abbe())
    nd, nF, nC = (_flt(m.n(x)) for x in (D.LINE_d, D.LINE_F, D.LINE_C))
    with np.errstate(all='ignore'):
        own = np.float64(nd - 1.0) / np.float64(nF - nC)
        oV = np.float64(e.abbe()[1])
    want = np.array([own, oV], dtype=float)
    flags, alt = (), None
    tab = e.n_table
    if tab is not None and tab.unsorted:
        a = [float(np.interp(x, tab.raw_w, tab.raw_v)) for x in (D.LINE_d, D.LINE_F, D.LINE_C)]
        flags, alt = ('unsorted-table',), np.array([own, np.float64(a[0] - 1.0) / np.float64(a[1] - a[2])])
    sc = np.maximum(1.0, np.abs(np.where(np.isfinite(want), want, 1.0)))
    rec.close('abbe-definition', np.array([got, got]), want, TOL_ABBE, scale=sc, alt=alt, flags=flags,
              msg=f'{what}: abbe() differs from (n_d-1)/(n_F-n_C) [own n(), oracle n]',
              detail=dict(file=what, n_d=nd, n_F=nF, n_C=nC))


# ------------------------------------------------------------------------------------------------
# the checks
# ------------------------------------------------------------------------------------------------

def check_case(case, rec):
    kind = case['kind']
    if kind == 'rows':
        return _check_rows(case, rec)
    if kind == 'synthetic':
        return _check_synthetic(case, rec)
    if kind == 'lookup':
        return _check_lookup(case, rec)
    if kind == 'model':
        return _check_model(case, rec)
    raise ValueError(f'unknown case kind {kind!r}')


def _check_rows(case, rec):
    from optiland.materials import MaterialFile
    cat = D.catalogue()
    nontrivial = False
    for ri, fname in zip(case['rows'], case['files']):
        rec.event('rows_checked')
        e = D.entry(fname)
        if not e.in_domain:
            # outside the statement's domain ("entry ... that defines a dispersion relation"): count, do not judge
            rec.cls(f'out-of-domain:{e.kind}-n-relation')
            continue
        nontrivial = True
        rec.cls(e.kind, 'has-k-table' if e.k_table is not None else 'no-k-table')
        if e.n_table is not None:
            rec.cls(*(['table:unsorted'] if e.n_table.unsorted else []),
                    *(['table:repeated-node'] if e.n_table.has_repeats else []))
        row = cat[ri] if ri < len(cat) and cat[ri]['filename'] == fname else None
        csv_range = None
        if row is not None:
            try:
                csv_range = (float(row['min_wavelength']), float(row['max_wavelength']))
            except ValueError:
                csv_range = None
        try:
            m = MaterialFile(e.path)
            w, dead = _test_wavelengths(e, case['npts'], csv_range)
            if dead:
                rec.cls('formula 4:zero-amplitude-term-pole-in-range')
            got = check_n(rec, m, e, w, dead, fname)
            check_k(rec, m, e, case['npts'], fname)
            check_abbe(rec, m, e, fname)
        except Exception as ex:
            _lib_exception(rec, ex, fname)
            continue
        lo, hi = e.n_range
        i5 = _subset(len(w), 5)
        _sample_once(rec, 'file', dict(file=fname, relation=e.kind, stated_range=[lo, hi], wavelengths=w[i5],
                                       library_n=got[i5], oracle_n=e.n(w[i5], got[i5])))
    if nontrivial:
        rec.nontrivial_case()


def _check_synthetic(case, rec):
    """A data file written by the harness (formula 7 has no catalogue entry; the others double-check padding)."""
    from optiland.materials import MaterialFile
    num = case['formula']
    lo, hi = case['range']
    text = ('DATA:\n  - type: formula %d\n    wavelength_range: %r %r\n    coefficients: %s\n'
            % (num, lo, hi, ' '.join(repr(float(c)) for c in case['coefficients'])))
    fd, path = tempfile.mkstemp(suffix='.yml', prefix='c18-synth-')
    try:
        with os.fdopen(fd, 'w') as f:
            f.write(text)
        e = D.Entry(path)
        m = MaterialFile(path)
        w, dead = _test_wavelengths(e, case['npts'])
        rec.cls(f'synthetic formula {num} ({len(case["coefficients"])} coefficients)')
        check_n(rec, m, e, w, dead, f'synthetic formula {num}', clause='n-formula-synthetic',
                sv_clause='scalar-vs-array-synthetic')
        rec.nontrivial_case()
    finally:
        os.unlink(path)


def _check_lookup(case, rec):
    from optiland.materials import Material
    cat = D.catalogue()
    for ri, q in zip(case['rows'], case['queries']):
        rec.event('rows_looked_up')
        for col in ('name', 'category_name'):
            for ref in (None, q['reference']):
                _one_lookup(rec, Material, cat, q[col], ref, col)
    rec.nontrivial_case()


def _one_lookup(rec, Material, cat, name, ref, col):
    clause = 'lookup-exact-name'
    meta = D.has_regex_meta(name) or D.has_regex_meta(ref)
    cand = D.exact_candidates(name, ref)
    qdesc = f'Material({name!r}' + (f', {ref!r})' if ref else ')')
    rec.cls(f'query:{col}' + ('+reference' if ref else ''),
            'query-has-regex-metachar' if meta else 'query-plain')
    if not cand:                                  # cannot happen for queries derived from a row; not an exact-name query
        rec.cls('query-not-an-exact-name')
        return

    def asbuilt():
        return D.regex_semantics_prediction(name, ref)

    try:
        m = Material(name, ref)
    except Exception as ex:
        msg = str(ex)
        if (isinstance(ex, ValueError) and msg.startswith('Multiple refractive index')
                and any(D.entry(cat[i]['filename']).kind == 'multiple' for i in cand)):
            rec.cls('lookup-hit-out-of-domain-file(multiple n relations)')
            return
        explained = False
        if meta:
            k, rows = asbuilt()
            explained = ((k == 'error' and isinstance(ex, re.error))
                         or (k == 'rows' and not rows and isinstance(ex, ValueError) and 'No matches found' in msg))
        if not explained and not isinstance(ex, (ValueError, re.error)):
            return _lib_exception(rec, ex, qdesc)
        rec.check(clause, False, key=f'{clause}:' + ('regex-metachar' if explained else 'unexplained'),
                  msg=f'{qdesc}: the query equals the name of {len(cand)} catalogue row(s) but the lookup raised '
                      f'{type(ex).__name__}: {msg}'
                      + (' [as predicted by known mechanism regex-metachar]' if explained else ''),
                  detail=dict(name=name, reference=ref, exact_rows=cand[:5]))
        return
    md = m.material_data
    got_names = (str(md.get('name', '')).lower(), str(md.get('category_name', '')).lower())
    ok = name.lower() in got_names
    if ok:
        rec.check(clause, True)
    else:
        explained = False
        if meta:
            k, rows = asbuilt()
            if k == 'rows':
                ret = [i for i in rows if cat[i]['filename'] == md.get('filename') and cat[i]['name'] == md.get('name')]
                explained = bool(ret) and not (set(rows) & set(cand))
        rec.check(clause, False, key=f'{clause}:' + ('regex-metachar' if explained else 'unexplained'),
                  msg=f'{qdesc}: an entry of exactly that name exists (row {cand[0]}) but the entry returned is '
                      f'name={md.get("name")!r} category_name={md.get("category_name")!r}',
                  detail=dict(name=name, reference=ref, exact_rows=cand[:5], returned=md))
        return
    # the returned object must behave like the data file it names (observe: Material(...).n, .abbe())
    fname = str(md.get('filename'))
    e = D.entry(fname)
    if not e.in_domain:
        rec.cls(f'lookup-returned-out-of-domain:{e.kind}-n-relation')
        return
    try:
        lo, hi = e.n_range
        w = np.unique(np.concatenate([np.linspace(lo, hi, 5), [x for x in (D.LINE_d,) if lo <= x <= hi]]))
        check_n(rec, m, e, w, e.dead_poles(), f'{qdesc} -> {fname}', clause='lookup-n', sv_clause='lookup-scalar-vs-array',
                sv_points=3)
        check_abbe(rec, m, e, f'{qdesc} -> {fname}')
    except Exception as ex:
        _lib_exception(rec, ex, qdesc)
    _sample_once(rec, 'lookup', dict(query=dict(name=name, reference=ref),
                                     returned=dict(name=md.get('name'), category_name=md.get('category_name'),
                                                   filename=fname)))


def _check_model(case, rec):
    from optiland.materials import AbbeMaterial
    w = np.array([0.4, D.LINE_F, 0.52, D.LINE_d, 0.62, D.LINE_C, 0.7])
    rec.cls(f'model-glass:{case["source"]}')
    for nd, vd in case['points']:
        try:
            m = AbbeMaterial(nd, vd)
            n_d, n_F, n_C = (_flt(m.n(x)) for x in (D.LINE_d, D.LINE_F, D.LINE_C))
            arr = np.asarray(m.n(w), dtype=float)
            sc = np.array([_flt(m.n(float(x))) for x in w])
            attr_ok = (m.abbe == vd and m.index == nd and _flt(m.k(0.55)) == 0.0)
        except Exception as ex:
            _lib_exception(rec, ex, f'AbbeMaterial({nd!r}, {vd!r})')
            continue
        rec.close('model-glass-nd', n_d, nd, TOL_MODEL_ND, scale=1.0,
                  msg=f'AbbeMaterial({nd!r}, {vd!r}).n(0.5875618) misses n_d by more than the fit accuracy')
        rec.close('model-glass-dispersion', n_F - n_C, (nd - 1.0) / vd, TOL_MODEL_DISP, scale=1.0,
                  msg=f'AbbeMaterial({nd!r}, {vd!r}): n_F - n_C misses (n_d-1)/V_d by more than the fit accuracy',
                  detail=dict(V_from_model=(n_d - 1.0) / (n_F - n_C) if n_F != n_C else math.inf))
        rec.close('model-scalar-vs-array', sc, arr, TOL_SV, scale=np.maximum(1.0, np.abs(arr)),
                  msg=f'AbbeMaterial({nd!r}, {vd!r}): n(scalar) differs from n(array)[i]')
        rec.check('model-glass-attributes', bool(attr_ok),
                  msg=f'AbbeMaterial({nd!r}, {vd!r}): .index/.abbe do not return the constructor values or k != 0')
        verr = abs((n_d - 1.0) / (n_F - n_C) - vd) / vd if n_F != n_C else math.inf
        rec.cls('model-V-rel-error:' + ('<1%' if verr < 0.01 else '<10%' if verr < 0.1 else '>=10%'))
        rec.event('model_glasses')
    rec.nontrivial_case()
    _sample_once(rec, 'model', dict(model_glass=dict(n_d=case['points'][-1][0], V_d=case['points'][-1][1]),
                                    source=case['source'], library_n_d=n_d, library_nF_minus_nC=n_F - n_C))


def evidence_extra(merged):
    n_rows = len(D.catalogue())
    done = int(merged['events'].get('rows_checked', 0))
    return dict(exhaustive=bool(done == n_rows),
                exhaustive_scope=f'n / k / abbe part: {done} of {n_rows} catalogue rows enumerated '
                                 f'({len(set(r["filename"] for r in D.catalogue()))} distinct data files); '
                                 'lookups and model glasses are sampled (lookups exhaustive in the thorough tier)')
