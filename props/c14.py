"""C14 -- merit function, variable handles and the state an optimiser leaves behind (runtime monitor).

Three families of cases:

* merit     problem.sum_squared() against sum_k (w_k (value_k - target_k))^2 with every operand value taken
            directly from the analysis API of the lens (paraxial / Seidel / real-ray / spot / OPD), on the lens
            as built and again after it was edited -- "evaluated on the current lens";
* vars      all nine variable kinds, scaled and unscaled: update(v) then .value == v; Variable.bounds against
            (g(min_val), g(max_val)) where g (raw -> units of .value) is measured by setting the raw quantity
            through the public Optic setters and reading .value;
* opt       every optimiser front end on small lenses; every objective evaluation is logged (wrapper on
            OptimizerGeneric._fun), and after optimize() returns the lens is compared with the returned
            solution; undo() against the snapshot taken before the run; sequences optimise/undo/optimise;
            NaN operand values injected with a Failpoint; DifferentialEvolution(workers=-1) in a subprocess
            (vkit.c14_workers), three repetitions against three with workers=1.

Mechanism keys are assigned only when the library's state equals what the mechanism predicts (otherwise `:unexplained`):
  lens-left-at-last-evaluation      result.(x, fun) is a logged evaluation and the variables == x of the LAST logged
                                    objective evaluation (1e-12); merit on the lens as left == last logged value
  de-multiprocess-lens-untouched    workers=-1, no evaluation in the parent, variables == start values
  bounds-scaled-when-unscaled       apply_scaling=False and bounds == scale(min_val), scale(max_val) (scale measured on a
                                    sibling variable with apply_scaling=True); consequences: feasible start clipped /
                                    rejected by scipy, raw value left outside (min_val, max_val), objective worse than start
  undo-skips-update-optics          after undo() every entry of the prescription is as before the run except the picked-up
                                    radius / solved image distance, which keep their values from just before undo()
  solve-nan-poisons-lens            a trial made the marginal-ray solve write a NaN vertex position; it stays NaN for every
                                    later evaluation and after return / undo
  nonfinite-thickness-poisons-positions  scipy set a thickness variable to a non-finite trial value (logged); every
                                    vertex position behind it is NaN from then on (thickness variables there read NaN,
                                    undo() cannot repair it)
  scipy-result-pair-inconsistent    (only once the lens is left at result.x) scipy returned x of one logged evaluation
                                    with the objective of another (L-BFGS-B 'ABNORMAL'); merit == value logged at result.x
  scipy-nan-iterate                 scipy itself produced NaN trial values / a NaN result.x (L-BFGS-B after the 1e10
                                    penalty cliff gave it a 1e18 gradient); the NaN entries are those of result.x / the last x
  index-variable-discards-dispersion  an index variable on a catalogue glass: the first evaluation (and undo) leave a
                                    constant-index medium; merit at the start point == merit of the lens with that glass flattened
  scipy-iterate-worse-than-start-returned  scipy.optimize.minimize evaluated the start and handed back a logged iterate
                                    with a larger objective (SLSQP at its iteration limit / on the flat 1e10 plateau, L-BFGS-B
                                    after an abnormal line search on the penalty cliff)
  trf-start-nudged-off-bound        least_squares moved a start within 1e-10 of a bound into the interior before its first
                                    evaluation; objective <= that first evaluation
"""
import json
import math
import os
import subprocess
import sys

import numpy as np

from vkit import lens as L
from vkit import c14_workers as W

ID = 'C14'
RULE = ('random axial lenses (2-6 interfaces, conics/even aspheres, infinite/finite object, EPD aperture, image at the '
        'paraxial focus; a third decorated with tilts/decentres/xy-polynomial/Chebyshev surfaces) x operand sets '
        '(paraxial, Seidel sums and per-surface terms, real-ray intercepts and direction cosines, rms spot, OPD '
        'difference; random weights/targets) x variable sets (1-4 variables of the nine kinds, scaled/unscaled, '
        'bounded/one-sided/unbounded); families: merit definition (25%), variable round trip + bounds units (20%), '
        'optimiser runs (55%) over OptimizerGeneric (default, L-BFGS-B, Nelder-Mead, SLSQP), LeastSquares, '
        'DualAnnealing, DifferentialEvolution workers=1 and workers=-1 (subprocess, 3 repetitions each), '
        'CompensatorOptimizer (generic, least_squares), with sequences optimise/undo/optimise/undo, radius pickups, '
        'image-surface marginal-ray solves and NaN faults; an optimiser case is non-trivial when >= 10 objective '
        'evaluations were made and the merit changed; distinct = distinct case hash')
TIERS = {'quick': dict(shards=8, cases=8, budget_s=240, watchdog_s=900),
         'thorough': dict(shards=16, cases=320, budget_s=570, watchdog_s=2400)}
MIN_NONTRIVIAL = {'quick': 40, 'thorough': 500}
_FE_MIN = {'quick': 1, 'thorough': 20}
MIN_EVALS = {'merit-definition': {'quick': 60, 'thorough': 1000},
             'objective-is-merit': {'quick': 30, 'thorough': 500},
             'variable-roundtrip': {'quick': 100, 'thorough': 3000},
             'bounds-units': {'quick': 100, 'thorough': 3000},
             'lens-at-returned-x': {'quick': 30, 'thorough': 500},
             'objective-reproduced': {'quick': 30, 'thorough': 500},
             'not-worse-than-start': {'quick': 30, 'thorough': 500},
             'bounds-respected': {'quick': 30, 'thorough': 500},
             'pickups-solves-satisfied': {'quick': 10, 'thorough': 150},
             'undo-restores': {'quick': 15, 'thorough': 300},
             'nan-fault': {'quick': 3, 'thorough': 40},
             'run[de-mp]': {'quick': 3, 'thorough': 9}}
ASSUMPTIONS = ['operand values are taken from the lens analysis API (paraxial, aberrations, trace_generic, trace); the '
               'OPD operand is evaluated by calling the registered metric function directly (its definition is not C14)',
               'a NaN merit is compared as the documented penalty 1e10',
               'scipy is trusted to return (x, fun) pairs that belong together; the objective log is kept by a wrapper '
               'around OptimizerGeneric._fun in the calling process (evaluations in worker processes are not seen)',
               'DifferentialEvolution(workers=-1) is observed in a subprocess; a timeout there records the event '
               'de_mp_timeout and no verdict',
               'interior solves in front of the stop (C01 finding) are not generated: only image-surface solves',
               'tolerances: 1e-12 (set/get, bounds, lens == result.x, undo) and 1e-9 (merit vs objective, solves) relative; '
               'widened only by stated floating-point conditioning: 16 eps max|z visited| for thickness read-back / vertex '
               'positions (positions are stored absolutely), 4x the measured change of the merit under the update(value) '
               'round trip of the variables, and sum 2 w^2 |v-t| |v| as the scale of a converged (cancelling) merit',
               'optimize() not returning is outside the statement: an exception raised by the analysis code under an operand, '
               'or scipy rejecting a start that lies exactly on a bound, is counted (events) and gives no verdict; after an '
               'undo() on a lens with pickups/solves the harness calls Optic.update() before continuing the sequence']
_OPT = 'optiland.optimization.optimization'
ANCHORS = [(_OPT, 'OptimizationProblem.sum_squared'), (_OPT, 'OptimizationProblem.update_optics'),
           (_OPT, 'OptimizerGeneric._fun'), (_OPT, 'OptimizerGeneric.optimize'), (_OPT, 'OptimizerGeneric.undo'),
           (_OPT, 'LeastSquares.optimize'), (_OPT, 'DualAnnealing.optimize'), (_OPT, 'DifferentialEvolution.optimize'),
           ('optiland.tolerancing.compensator', 'CompensatorOptimizer.run'),
           ('optiland.optimization.variable.variable', 'Variable.bounds'),
           ('optiland.optimization.variable.variable', 'Variable.update'),
           ('optiland.optimization.variable.variable', 'Variable.value'),
           ('optiland.optimization.operand.operand', 'Operand.value'),
           ('optiland.optimization.operand.operand', 'Operand.delta'),
           ('optiland.optimization.operand.operand', 'Operand.fun')]

FRONTENDS = ('generic:default', 'generic:L-BFGS-B', 'generic:Nelder-Mead', 'generic:SLSQP', 'least-squares',
             'dual-annealing', 'de-1', 'compensator:generic', 'compensator:least_squares')
NEED_BOUNDS = ('dual-annealing', 'de-1', 'de-mp')
for _fe in FRONTENDS:
    MIN_EVALS[f'run[{_fe}]'] = dict(_FE_MIN)
MECH_LAST, MECH_MP, MECH_BOUNDS, MECH_UNDO = ('lens-left-at-last-evaluation', 'de-multiprocess-lens-untouched',
                                              'bounds-scaled-when-unscaled', 'undo-skips-update-optics')
MECH_FAIL = 'scipy-iterate-worse-than-start-returned'
MECH_TRF = 'trf-start-nudged-off-bound'
MECH_NANSOLVE = 'solve-nan-poisons-lens'
MECH_NANTHK = 'nonfinite-thickness-poisons-positions'
MECH_PAIR = 'scipy-result-pair-inconsistent'
MECH_NANX = 'scipy-nan-iterate'
MECH_DISP = 'index-variable-discards-dispersion'
DE_MP_TIMEOUT_S = int(os.environ.get('C14_DE_MP_TIMEOUT_S', '300'))


# ---------------------------------------------------------------------------------------------------------
# generation

def sgn(rng):
    return -1.0 if rng.random() < 0.5 else 1.0


def gen_lens(rng, freeform=False):
    for _ in range(200):
        a = L.loguniform(rng, 1.0, 8.0)
        spec, info = L.gen_axial(rng, nsurf=(2, 7), semi=a, asphere_p=0.3, finite_p=0.3, ap_kinds=('EPD',),
                                 image='paraxial', neg_power_p=0.0, max_field_deg=8.0, glass_p=0.2)
        P = L.psys(spec)
        ya, _ = P.marginal(L.epd_of(spec, P))
        if not np.isfinite(ya[-1]) or abs(float(ya[-1])) > 1e-6 * a:
            continue            # the generator fell back to an arbitrary image position
        classes = []
        if freeform:
            classes = L.decorate(spec, rng, a, tilt_p=0.25, decenter_p=0.25, freeform_p=0.45, big_tilt_p=0.0)
        return spec, info, a, classes
    raise RuntimeError('no lens with a real paraxial image found')


def var_candidates(spec, a, no_radius=(), no_last_thickness=False, offaxis=False):
    K = len(spec['surfaces'])
    wl = L.primary_wavelength(spec)
    out = []
    for k in range(1, K):
        s = spec['surfaces'][k - 1]
        typ = s.get('type', 'standard')
        R = L.fnum(s.get('radius', 'inf'))
        if not math.isinf(R):
            if k not in no_radius:
                out.append(('radius', dict(surface_number=k), R))
            out.append(('conic', dict(surface_number=k), float(s.get('conic', 0.0))))
        if not (no_last_thickness and k == K - 1):
            out.append(('thickness', dict(surface_number=k), float(s['t'])))
        m = s.get('medium', 'air')
        if isinstance(m, dict) and 'n' in m:
            out.append(('index', dict(surface_number=k, wavelength=wl), float(m['n'])))
        elif isinstance(m, dict) and 'glass' in m:
            # index variable on a catalogue glass: set_index() replaces the medium by a constant-index model
            out.append(('index', dict(surface_number=k, wavelength=wl), float(L.medium_index(m, wl))))
        if typ == 'even_asphere':
            for i, cv in enumerate(s.get('coeffs', [])):
                out.append(('asphere_coeff', dict(surface_number=k, coeff_number=i), float(cv)))
        if typ in ('polynomial', 'chebyshev'):
            C = s['coeffs']
            for _ in range(2):
                out.append((typ + '_coeff', dict(surface_number=k, coeff_index=None), C))
        if offaxis:
            out.append(('tilt', dict(surface_number=k, axis=None), (float(s.get('rx', 0.0)), float(s.get('ry', 0.0)))))
            out.append(('decenter', dict(surface_number=k, axis=None), (float(s.get('dx', 0.0)), float(s.get('dy', 0.0)))))
    return out


def gen_varspec(rng, cand, a, scaled, bound_mode):
    """bound_mode: 'both' | 'min' | 'max' | 'none'.  Bounds are raw (lens-unit) intervals around the start value."""
    kind, kw, raw = cand
    kw = dict(kw)
    if kind in ('polynomial_coeff', 'chebyshev_coeff'):
        C = raw
        i, j = int(rng.integers(len(C))), int(rng.integers(len(C[0])))
        kw['coeff_index'] = [i, j]
        raw = float(C[i][j])
        typical = 0.01 * a / (2 * a) ** (i + j) if kind == 'polynomial_coeff' else 0.01 * a
        d = (abs(raw) + typical) * rng.uniform(0.5, 2.0)
    elif kind in ('tilt', 'decenter'):
        ax = 'x' if rng.random() < 0.5 else 'y'
        kw['axis'] = ax
        raw = raw[0] if ax == 'x' else raw[1]
        d = rng.uniform(0.005, 0.03) if kind == 'tilt' else rng.uniform(0.01, 0.1) * a
    elif kind == 'radius':
        d = abs(raw) * rng.uniform(0.1, 0.5)
    elif kind == 'conic':
        d = rng.uniform(0.2, 1.0)
    elif kind == 'thickness':
        d = abs(raw) * rng.uniform(0.1, 0.5)
    elif kind == 'index':
        d = rng.uniform(0.03, 0.15)
    else:   # asphere_coeff
        i = kw['coeff_number']
        d = (abs(raw) + 0.02 / a ** (2 * i + 1)) * rng.uniform(0.5, 2.0)
    lo, hi = raw - d * rng.uniform(0.3, 1.0), raw + d * rng.uniform(0.3, 1.0)
    if kind == 'index':
        lo = max(lo, 1.02)
    elif kind != 'radius' and raw != 0 and rng.random() < 0.15:
        # a bound of exactly zero (the most natural bound there is: thickness >= 0, conic <= 0, ...)
        if raw > 0:
            lo = 0.0
        else:
            hi = 0.0
    vs = dict(kind=kind, kw=kw, scaled=bool(scaled), raw0=float(raw),
              min_val=(float(lo) if bound_mode in ('both', 'min') else None),
              max_val=(float(hi) if bound_mode in ('both', 'max') else None))
    return vs


def gen_operand(rng, spec, cat, for_opt):
    K = len(spec['surfaces'])
    wl = L.primary_wavelength(spec)
    finite = spec['obj_t'] != 'inf'
    hy = float(rng.choice([0.0, 0.7, 1.0]))
    inp = {}
    if cat == 'paraxial':
        names = [n for n in W.PARAXIAL if finite or n != 'magnification']
        typ = str(rng.choice(names))
        if for_opt and typ in ('EPD',):
            typ = 'f2'
    elif cat == 'f2':
        typ = 'f2'
    elif cat == 'seidel':
        typ = 'seidel'
        inp = dict(seidel_number=int(rng.integers(1, 6)))
    elif cat == 'persurf':
        typ = str(rng.choice(W.PER_SURFACE))
        inp = dict(surface_number=int(rng.integers(0, K - 1)))
    elif cat == 'sum':
        typ = str(rng.choice(W.PER_SURFACE)) + '_sum'
    elif cat == 'ray':
        typ = str(rng.choice(sorted(W.REAL)))
        r, th = 0.9 * math.sqrt(rng.random()), rng.uniform(0, 2 * math.pi)
        inp = dict(surface_number=int(rng.choice([K, -1, int(rng.integers(1, K + 1))])), Hx=0.0, Hy=hy,
                   Px=round(r * math.cos(th), 6), Py=round(r * math.sin(th), 6), wavelength=wl)
    elif cat == 'spot':
        typ = 'rms_spot_size'
        inp = dict(surface_number=-1, Hx=0.0, Hy=hy, num_rays=int(rng.integers(2, 6)),
                   wavelength=('all' if rng.random() < 0.3 else wl), distribution='hexapolar')
    else:
        typ = 'OPD_difference'
        inp = dict(Hx=0.0, Hy=hy, num_rays=int(rng.integers(2, 6)), wavelength=wl, distribution='gaussian_quad')
    if for_opt:
        if cat in ('paraxial', 'f2'):
            tgt = ['rel', float(rng.uniform(0.85, 1.15)), 0.0]
        elif cat == 'ray':
            tgt = ['rel', float(rng.uniform(0.5, 1.2)), float(rng.normal() * 0.01)]
        else:
            tgt = ['rel', float(rng.uniform(0.0, 0.9)), 0.0]
        w = float(L.loguniform(rng, 0.1, 10.0))
    else:
        r = rng.random()
        if r < 0.5:
            tgt = ['rel', float(rng.uniform(-1.5, 2.5)), float(rng.normal())]
        else:
            tgt = ['abs', float(sgn(rng) * L.loguniform(rng, 1e-3, 1e3))]
        w = 0.0 if rng.random() < 0.05 else float(sgn(rng) * L.loguniform(rng, 1e-2, 1e2))
    return [typ, tgt, w, inp]


CATS_CHEAP = ('paraxial', 'seidel', 'persurf', 'sum', 'ray')
CATS_ALL = CATS_CHEAP + ('spot', 'opd')


def gen_merit_case(rng):
    freeform = rng.random() < 0.3
    spec, info, a, classes = gen_lens(rng, freeform)
    nops = int(rng.integers(2, 7))
    ops = [gen_operand(rng, spec, str(rng.choice(CATS_ALL)), False) for _ in range(nops)]
    cands = var_candidates(spec, a, offaxis=True)
    nv = int(rng.integers(1, 4))
    idx = rng.permutation(len(cands))[:nv]
    variables, edits = [], []
    for i in idx:
        vs = gen_varspec(rng, cands[int(i)], a, scaled=rng.random() < 0.5, bound_mode='both')
        variables.append(vs)
    # edits in raw units inside the generated intervals: [variable index, raw value, how ('var' | 'setter')]
    for _ in range(int(rng.integers(1, 4))):
        j = int(rng.integers(len(variables)))
        vs = variables[j]
        edits.append([j, float(rng.uniform(vs['min_val'], vs['max_val'])), 'var' if rng.random() < 0.5 else 'setter'])
    for vs in variables:
        if rng.random() < 0.5:
            vs['min_val'] = vs['max_val'] = None
    return dict(family='merit', spec=spec, info=info, classes=classes, operands=ops, variables=variables, edits=edits)


def gen_vars_case(rng):
    spec, info, a, classes = gen_lens(rng, True)
    cands = var_candidates(spec, a, offaxis=True)
    by_kind = {}
    for c in cands:
        by_kind.setdefault(c[0], []).append(c)
    variables = []
    for kind in W.KINDS:
        if kind not in by_kind:
            continue
        for scaled in (True, False):
            c = by_kind[kind][int(rng.integers(len(by_kind[kind])))]
            mode = str(rng.choice(['both', 'both', 'min', 'max', 'none']))
            vs = gen_varspec(rng, c, a, scaled, mode)
            if rng.random() < 0.3:
                # bounds anywhere (not only around the start): the units clause must hold for every interval
                lo = float(sgn(rng) * L.loguniform(rng, 1e-3, 1e3))
                hi = lo + float(L.loguniform(rng, 1e-3, 1e3))
                if kind == 'index':
                    lo, hi = 1.0 + abs(lo) % 1.0, 2.0 + abs(hi) % 2.0
                if kind == 'thickness':
                    lo, hi = abs(lo), abs(lo) + abs(hi)
                vs['min_val'] = lo if vs['min_val'] is not None else None
                vs['max_val'] = hi if vs['max_val'] is not None else None
            # values (in the units of .value) to set and read back
            vals = []
            for _ in range(3):
                if kind == 'index':
                    v = float(rng.uniform(1.0, 4.0)) - (1.5 if scaled else 0.0)
                elif kind == 'thickness':
                    t = L.loguniform(rng, 1e-2, 1e3)
                    v = t / 10.0 - 1.0 if scaled else t
                elif kind == 'radius':
                    r = sgn(rng) * L.loguniform(rng, 1e-1, 1e4)
                    v = r / 100.0 - 1.0 if scaled else r
                elif kind == 'conic':
                    v = float(rng.uniform(-5, 5))
                elif kind == 'tilt':
                    v = float(rng.normal() * 0.05)
                elif kind == 'decenter':
                    v = float(rng.normal() * 0.5 * a)
                else:
                    v = sgn(rng) * L.loguniform(rng, 1e-8, 1e2)
                vals.append(float(v))
            vs['values'] = vals
            variables.append(vs)
    return dict(family='vars', spec=spec, info=info, classes=classes, variables=variables)


def gen_opt_case(rng, fe=None, nanfault=False, tier='quick'):
    fe = fe or str(rng.choice(FRONTENDS))
    heavy = fe in ('dual-annealing', 'de-1', 'de-mp')
    freeform = rng.random() < 0.3
    spec, info, a, classes = gen_lens(rng, freeform)
    K = len(spec['surfaces'])
    # dependents
    pickup = solve = None
    finiteR = [k for k in range(1, K) if not math.isinf(L.fnum(spec['surfaces'][k - 1].get('radius', 'inf')))]
    r = rng.random()
    if r < 0.3 and len(finiteR) >= 1 and K >= 3:
        src = int(rng.choice(finiteR))
        tgts = [k for k in range(1, K) if k != src]
        tgt = int(rng.choice(tgts))
        pickup = [src, tgt, float(rng.choice([1.0, -1.0, round(float(rng.uniform(0.5, 2.0)) * sgn(rng), 3)])),
                  float(rng.choice([0.0, round(float(rng.normal()) * a, 3)]))]
        # keep the picked-up radius reasonable: |R_target| >= 2.5 a
        Rs = L.fnum(spec['surfaces'][src - 1]['radius'])
        if abs(pickup[2] * Rs + pickup[3]) < 2.5 * a:
            pickup = None
    if rng.random() < 0.3:
        solve = [K, 0.0 if rng.random() < 0.7 else float(round(rng.uniform(-0.2, 0.2) * a, 4))]
    # operands
    nops = int(rng.integers(1, 5))
    cats = CATS_CHEAP if heavy else CATS_ALL
    ops = [gen_operand(rng, spec, 'f2' if (i == 0 and (nanfault or rng.random() < 0.6)) else str(rng.choice(cats)), True)
           for i in range(nops)]
    rayops = any(o[0] in W.REAL or o[0] in ('rms_spot_size', 'OPD_difference') for o in ops)
    # variables
    cands = var_candidates(spec, a, no_radius=((pickup[1],) if pickup else ()), no_last_thickness=bool(solve),
                           offaxis=(freeform and rayops))
    nv = int(rng.integers(1, 3)) if heavy else int(rng.integers(1, 5))
    nv = min(nv, len(cands))
    idx = rng.permutation(len(cands))[:nv]
    variables = []
    seen = set()
    for i in idx:
        c = cands[int(i)]
        scaled = rng.random() < 0.6
        if fe in NEED_BOUNDS:
            mode = 'both'
            if c[0] in W.AFFINE_KINDS and (fe == 'de-mp' or rng.random() < 0.85):
                scaled = True          # unscaled + bounded is mostly an infeasible start here (bounds-units finding)
        else:
            mode = str(rng.choice(['both', 'both', 'none', 'none', 'min', 'max']))
            if not scaled and c[0] in W.AFFINE_KINDS and mode != 'none' and rng.random() < 0.6:
                mode = 'none'
        vs = gen_varspec(rng, c, a, scaled, mode)
        key = json.dumps([vs['kind'], vs['kw']], sort_keys=True)
        if key in seen:
            continue
        seen.add(key)
        variables.append(vs)
    # sequence and options
    if fe.startswith('compensator'):
        seq = ['o'] if rng.random() < 0.7 else ['o', 'o']
        opts = dict(tol=float(10 ** rng.uniform(-6, -3)))
    else:
        seq = [['o'], ['o', 'u'], ['o', 'o', 'u', 'u'], ['o', 'u', 'o', 'u'], ['o', 'o', 'u', 'u'], ['o', 'u', 'u', 'o', 'u'],
               ['u', 'o', 'o', 'u', 'u'], ['o', 'o', 'u', 'o', 'u', 'u']][int(rng.integers(8))]
        if heavy and len(seq) > 2:
            seq = ['o', 'u'] if rng.random() < 0.6 else ['o', 'o', 'u', 'u']
        opts = dict(tol=float(10 ** rng.uniform(-8, -3)))
        if fe.startswith('generic'):
            opts['maxiter'] = int(rng.integers(3, 16)) if 'Nelder' not in fe else int(rng.integers(10, 41))
        elif fe == 'least-squares':
            opts['maxiter'] = int(rng.integers(5, 21))
        elif fe == 'dual-annealing':
            opts['maxiter'] = int(rng.integers(3, 11))
        else:
            opts['maxiter'] = int(rng.integers(1, 4))
    case = dict(family='opt', frontend=fe, spec=spec, info=info, classes=classes, operands=ops, variables=variables,
                pickup=pickup, solve=solve, seq=seq, opts=opts, np_seed=int(rng.integers(1 << 30)))
    if nanfault:
        case['nan_at'] = sorted(set(int(x) for x in rng.integers(2, 40, size=int(rng.integers(1, 5)))))
    if fe == 'de-mp':
        case['seq'] = ['o', 'u']
        case['reps'] = 3
    return case


def fixed_cases(tier):
    rng = np.random.default_rng(140014)
    n_fe, n_mp, n_nan = (2, 2, 4) if tier == 'quick' else (3, 6, 16)   # two fixed runs per front end: one may end without a verdict (scipy rejects the start, ...)
    out = []
    for _ in range(n_mp):
        out.append(gen_opt_case(rng, 'de-mp', tier=tier))
    for r in range(n_fe):
        for fe in FRONTENDS:
            c = gen_opt_case(rng, fe, tier=tier)
            if not fe.startswith('compensator') and r == 0:
                c['seq'] = ['o', 'o', 'u', 'u']        # nested history in every tier, for every front end with undo()
            out.append(c)
    nan_fes = [fe for fe in FRONTENDS]
    for i in range(n_nan):
        out.append(gen_opt_case(rng, nan_fes[(2 * i + 1) % len(nan_fes)], nanfault=True, tier=tier))
    return out


def gen_two_lens_case(rng):
    """One problem whose variables belong to TWO lenses (a relay designed together with its objective); the second lens carries
    a radius pickup.  Both lenses are singlets described by four numbers each."""
    def singlet():
        return dict(R1=round(float(rng.uniform(20, 80)), 4), t=round(float(rng.uniform(2, 6)), 4),
                    n=round(float(rng.uniform(1.45, 1.8)), 5), bfl=round(float(rng.uniform(30, 90)), 3))
    return dict(family='two-lens', A=singlet(), B=singlet(), fA=round(float(rng.uniform(0.85, 1.2)), 4),
                fB=round(float(rng.uniform(0.85, 1.2)), 4), frontend=str(rng.choice(['least-squares', 'generic'])),
                maxiter=int(rng.integers(5, 25)))


def case_two_lens(case, rec):
    from optiland.optic import Optic
    from optiland.materials import IdealMaterial
    from optiland.optimization import OptimizationProblem, OptimizerGeneric, LeastSquares

    def make(p, pickup):
        lens = Optic()
        lens.add_surface(index=0, radius=np.inf, thickness=np.inf)
        lens.add_surface(index=1, radius=p['R1'], thickness=p['t'], material=IdealMaterial(n=p['n']), is_stop=True)
        lens.add_surface(index=2, radius=-p['R1'], thickness=p['bfl'])
        lens.add_surface(index=3)
        lens.set_aperture('EPD', 8.0)
        lens.set_field_type('angle')
        lens.add_field(y=0.0)
        lens.add_wavelength(0.55, is_primary=True)
        if pickup:
            lens.pickups.add(1, 'radius', 2, scale=-1.0, offset=0.0)
            lens.update()
        return lens
    A, B = make(case['A'], False), make(case['B'], True)
    rec.cls('family-two-lens', f"frontend-{case['frontend']}")
    prob = OptimizationProblem()
    fA, fB = float(np.ravel(A.paraxial.f2())[0]), float(np.ravel(B.paraxial.f2())[0])
    prob.add_operand(operand_type='f2', target=fA * case['fA'], weight=1, input_data={'optic': A})
    prob.add_operand(operand_type='f2', target=fB * case['fB'], weight=1, input_data={'optic': B})
    prob.add_variable(A, 'radius', surface_number=1)
    prob.add_variable(B, 'radius', surface_number=1)
    start = float(prob.sum_squared())
    opt = LeastSquares(prob) if case['frontend'] == 'least-squares' else OptimizerGeneric(prob)
    res = opt.optimize(maxiter=case['maxiter'], disp=False, tol=1e-9)
    rec.event('optimiser_runs')
    r1, r2 = float(B.surface_group.radii[1]), float(B.surface_group.radii[2])
    rec.check('pickups-solves-satisfied', abs(r2 + r1) <= 1e-9 * max(1.0, abs(r1)), key='pickups-solves-satisfied:unexplained',
              resid=abs(r2 + r1), tol=1e-9,
              msg=f'two-lens problem: on return the second lens has R2 = {r2!r} for the pickup R2 = -R1 = {-r1!r}')
    now = float(prob.sum_squared())
    fun = float(np.ravel(res.fun)[0])      # (the least-squares front end hands scipy the scalar merit as its one residual)
    rec.check('objective-reproduced', abs(now - fun) <= 1e-9 * max(1.0, abs(fun), abs(now)), key='objective-reproduced:unexplained',
              resid=abs(now - fun), tol=1e-9,
              msg=f'two-lens problem: merit on the lenses as left {now!r}, returned objective {fun!r}')
    rec.check('not-worse-than-start', now <= start * (1 + 1e-9) + 1e-300, key='not-worse-than-start:unexplained',
              resid=max(0.0, now - start), tol=1e-9,
              msg=f'two-lens problem: merit {start!r} at the start, {now!r} on return')
    rec.nontrivial_case()


def gen_case(rng, tier, i):
    r = rng.random()
    if r < 0.05:
        return gen_two_lens_case(rng)
    if r < 0.25:
        return gen_merit_case(rng)
    if r < 0.45:
        return gen_vars_case(rng)
    if tier == 'thorough' and rng.random() < 0.012:
        return gen_opt_case(rng, 'de-mp', tier=tier)
    return gen_opt_case(rng, None, nanfault=(rng.random() < 0.15), tier=tier)


# ---------------------------------------------------------------------------------------------------------
# checking

def vec_close(rec, got, want, tol, scale=None):
    r, same = rec.resid(got, want, scale)
    return bool(same and r <= tol), r


def pick(rec, got, cands, tol, scale):
    """First candidate (alt, flags) whose prediction `got` equals; the last one if none does (so that the witness shows
    an as-built prediction and is keyed `:unexplained`); (None, ()) without candidates."""
    for a_, f_ in cands:
        if vec_close(rec, got, a_, tol, scale)[0]:
            return a_, f_
    return cands[-1] if cands else (None, ())


def xscale(x):
    return np.maximum(1.0, np.abs(np.asarray(x, dtype=float)))


def check_bounds_units(rec, lens, vs):
    """-> 'ok' | 'mech' | 'unexplained' | 'unbounded'.  g is measured, never taken from the variable classes."""
    var = W.make_variable(lens, vs)
    sib = W.make_variable(lens, vs, scaled=True)
    lo, hi = vs.get('min_val'), vs.get('max_val')
    want = W.value_map(lens, vs, var, [lo, hi])
    asb = W.value_map(lens, vs, sib, [lo, hi])
    got = var.bounds
    status = 'unbounded' if lo is None and hi is None else 'ok'
    for side, (g, w, ab) in enumerate(zip(got, want, asb)):
        if w is None:
            rec.check('bounds-units', g is None, key='bounds-units:unexplained',
                      msg=f'{vs["kind"]} variable without a {"min" if side == 0 else "max"}_val reports bound {g!r}')
            continue
        if g is None:
            rec.check('bounds-units', False, key='bounds-units:unexplained', msg='a given bound is reported as None')
            status = 'unexplained'
            continue
        fl = (MECH_BOUNDS,) if not vs['scaled'] else ()
        ok = rec.close('bounds-units', W.fscalar(g), w, 1e-12, key='bounds-units:unexplained', scale=max(1.0, abs(w)), alt=(ab if fl else None), flags=fl,
                       msg=f'Variable({vs["kind"]}, apply_scaling={vs["scaled"]}).bounds[{side}] = {W.fscalar(g)!r} for '
                           f'{"min" if side == 0 else "max"}_val={[lo, hi][side]!r}; in the units of .value that bound is {w!r}')
        if not ok:
            explained = abs(W.fscalar(g) - ab) <= 1e-12 * max(1.0, abs(w)) and bool(fl)
            status = 'mech' if (explained and status != 'unexplained') else 'unexplained'
    return status


class OperandRaised(Exception):
    pass


def check_merit(rec, problem, lens, ops, what):
    try:
        want, terms = W.merit_oracle(lens, ops)
    except Exception as e:
        if W._error_kind(e) == 'operand':
            raise OperandRaised(f'{type(e).__name__}: {e}')      # the analysis code under an operand raised: not C14's subject
        raise
    got = W.fscalar(problem.sum_squared())
    rec.close('merit-definition', got, want, 1e-12, key='merit-definition:unexplained',
              scale=max(abs(want), 1e-30) if np.isfinite(want) else 1.0,
              msg=f'{what}: sum_squared() = {got!r}, sum of (w (value - target))^2 over {len(ops)} operands = {want!r}',
              detail=dict(terms=terms, operands=[o[0] for o in ops]))
    return want


def case_merit(case, rec):
    from optiland.optimization import OptimizerGeneric
    rec.cls('family-merit', *(case.get('classes') or ['axial']))
    c = W.build(case)
    for d in c.dropped:
        rec.cls('operand-dropped-' + d)
    for o in c.ops:
        rec.cls('operand-' + o[0])
    if not c.ops:
        rec.cls('merit-no-operands-skipped')
        return
    lens, problem = c.lens, c.problem
    m0 = check_merit(rec, problem, lens, c.ops, 'as built')
    states = [m0]
    for j, q, how in case['edits']:
        vs = c.vars[j]
        if how == 'setter':
            W.raw_set(lens, vs, q)
        else:
            v = problem.variables[j]
            # the variable is used as an opaque handle: g(q) measured on a twin lens
            twin = L.build(case['spec'])
            gq = W.value_map(twin, vs, W.make_variable(twin, vs), [q])[0]
            v.update(gq)
        states.append(check_merit(rec, problem, lens, c.ops, f'after {vs["kind"]} := {q!r} ({how})'))
    # the optimisers' objective at the current point is that merit (NaN -> 1e10)
    opt = OptimizerGeneric(problem)
    x = W.values(problem)
    f = W.fscalar(opt._fun(np.array(x, dtype=float)))
    want = W.penal(W.merit_oracle(lens, c.ops)[0])
    rec.close('objective-is-merit', f, want, 1e-9, key='objective-is-merit:unexplained', scale=max(abs(want), 1e-30),
              msg=f'OptimizerGeneric._fun at the current variable values = {f!r}, merit = {want!r}')
    fin = [s for s in states if np.isfinite(s)]
    if len(c.ops) >= 2 and fin and max(fin) > 0:
        rec.nontrivial_case()
    rec.event('merit_states', len(states))
    rec.sample(dict(family='merit', operands=[[o[0], o[1], o[2]] for o in c.ops], merit_states=states))


def case_vars(case, rec):
    rec.cls('family-vars')
    lens = L.build(case['spec'])
    kinds = set()
    for vs in case['variables']:
        kind = vs['kind']
        rec.cls(f'var-{kind}-{"scaled" if vs["scaled"] else "unscaled"}')
        kinds.add(kind)
        status = check_bounds_units(rec, lens, vs)
        rec.cls(f'bounds-units-{status}')
        var = W.make_variable(lens, vs)
        for v in vs['values']:
            var.update(v)
            rb = W.fscalar(var.value)
            rec.close('variable-roundtrip', rb, v, 1e-12, key='variable-roundtrip:unexplained', scale=max(1.0, abs(v)),
                      msg=f'Variable({kind}, apply_scaling={vs["scaled"]}, {vs["kw"]}).update({v!r}) then .value = {rb!r}')
            # a second handle on the same quantity reads the same value (the handle has no private state)
            rb2 = W.fscalar(W.make_variable(lens, vs).value)
            rec.close('variable-roundtrip', rb2, v, 1e-12, key='variable-roundtrip:unexplained', scale=max(1.0, abs(v)),
                      msg=f'a fresh Variable({kind}) handle reads {rb2!r} after update({v!r}) through another handle')
        rec.event('variables_checked')
    if len(kinds) >= 4:
        rec.nontrivial_case()


def poisoned_from(vs_list, o):
    """Smallest surface number of a thickness variable that scipy ever set to a non-finite trial value (None if none):
    Optic.set_thickness then leaves every later vertex position NaN for good."""
    ks = [vs_list[i]['kw']['surface_number'] for i in o.get('nonfinite_x_vars', []) if vs_list[i]['kind'] == 'thickness']
    return min(ks) if ks else None


def judge_run(rec, info, o, fe):
    """Decide the end-state clauses on one observed optimize() call.  info: variables, bounds status, flags."""
    vs_list, bstat = info['vars'], info['bstat']
    rec.check(f'run[{fe}]', True)
    rec.event('optimizer_runs')
    rec.event('objective_evaluations', o['n_eval'])
    x = np.asarray(o['x'], dtype=float)
    got = np.asarray(o['values_after'], dtype=float)
    x0 = np.asarray(o['x0'], dtype=float)
    last = o['log_last']
    # -- lens-at-returned-x ------------------------------------------------------------------------------
    # as-built models: scipy's result is one of the logged evaluations and the lens sits at the LAST logged one; with
    # workers=-1 nothing is evaluated in the parent and the lens keeps its start values
    kp = poisoned_from(vs_list, o)
    # which NaN-persistence mechanism can act here: a non-finite thickness trial, else a NaN written by the solve, else
    # (no thickness trial, no solve) only NaN iterates of scipy itself
    nan_mech = MECH_NANTHK if kp is not None else MECH_NANSOLVE if info.get('has_solve') else MECH_NANX
    nanz = set(o.get('nan_z_after', []))

    def with_nan_thickness(a):
        # NaN vertex positions persist (set_thickness / solves add to the stored positions): every thickness whose gap
        # touches one reads NaN, whatever x was last set
        a = np.array(a, dtype=float)
        for i, vs in enumerate(vs_list):
            k_ = vs['kw']['surface_number']
            if vs['kind'] == 'thickness' and (k_ in nanz or k_ + 1 in nanz):
                a[i] = np.nan
        return a
    # candidate as-built models, the smallest set of mechanisms first; a mechanism is named only when the lens equals
    # ITS prediction and no smaller set predicts the same state (a repaired mechanism is never claimed on ambiguity)
    cands = []
    if nanz:
        cands.append((with_nan_thickness(x), (nan_mech,)))
    # (after an abnormal L-BFGS-B line search scipy may hand back an x it never evaluated, with the fun of its last trial)
    if last is not None and (o['returned_x_evaluated'] or (not o['success'] and o['returned_fun_is_logged_value'])):
        cands.append((np.asarray(last[0], dtype=float), (MECH_LAST,)))
        if nanz:
            cands.append((with_nan_thickness(last[0]), (MECH_LAST, nan_mech)))
    elif last is None and fe == 'de-mp':
        cands.append((x0, (MECH_MP,)))
    # a thickness is read back as the difference of two absolutely stored vertex positions: rounding 16 eps max|z|
    xs = np.maximum(xscale(x), np.where(np.isfinite(got), np.abs(got), 0.0))      # relative comparison
    thk = np.array([vs['kind'] == 'thickness' for vs in vs_list])
    xs = xs + np.where(thk, 16 * np.finfo(float).eps * float(o.get('zmax_seen', 0.0)) / 1e-12, 0.0)
    xnan = np.isnan(x)
    gotm, xm = got, x
    if xnan.any():
        # scipy itself returned NaN entries: "the variables equal the returned vector" cannot be decided for them
        rec.cls('scipy-returned-nan-x')
        gotm, xm = np.where(xnan, 0.0, got), np.where(xnan, 0.0, x)
        cands = [(np.where(xnan, 0.0, a_), f_) for a_, f_ in cands]
        xs = np.where(xnan | ~np.isfinite(xs), 1.0, xs)        # (the scale of an undecidable entry must not poison the others)
    alt, flags = pick(rec, gotm, cands, 1e-12, xs)
    lens_ok = rec.close('lens-at-returned-x', gotm, xm, 1e-12, key='lens-at-returned-x:unexplained', scale=xs, alt=alt, flags=flags,
              msg=f'{fe}: after optimize() the variables are {got.tolist()} but result.x = {x.tolist()}'
                  + (f'; last objective evaluation was at {last[0]}' if last else '; start values ' + str(x0.tolist())))
    # -- objective-reproduced ----------------------------------------------------------------------------
    if o['returned_point_faulted'] or o['last_eval_faulted']:
        rec.cls('objective-reproduced-undecidable-under-fault')     # a transient fault cannot be re-evaluated
    else:
        # the lens state was decided above; the merit on it is predicted from THAT state only
        lens_flags = () if lens_ok else flags
        oscale = max(abs(o['fun']), o.get('cond_after', 0.0), 4 * o.get('round_sens', 0.0) / 1e-9,
                     o.get('pos_sens', 0.0) / 1e-9, 1e-30)
        cands = []
        if nanz and o['merit_after'] == W.PENALTY:
            # a NaN vertex position is in the lens for good: every evaluation on it is the 1e10 penalty
            cands.append((W.PENALTY, (nan_mech,)))
        if MECH_LAST in lens_flags and last is not None and (o['returned_point_evaluated'] or o['returned_fun_is_logged_value']):
            cands.append((last[1], (MECH_LAST,)))
        if MECH_MP in lens_flags:
            cands.append((o['m0'], (MECH_MP,)))
        if xnan.any() and o['fun'] == W.PENALTY:
            # scipy handed back a NaN vector together with the penalty it was given for it: no lens state corresponds to
            # that pair (the lens keeps its last finite values), the returned objective is not a merit of any lens
            cands.append((o['merit_after'], (MECH_NANX,)))
        vx = o.get('value_at_returned_x')
        if lens_ok and not o['returned_point_evaluated'] and vx is not None and (not o['success'] or o['returned_fun_is_logged_value']):
            # scipy (L-BFGS-B after an abnormal line search - also as the local search inside dual_annealing, whose
            # result then reports success) handed back x of one logged evaluation with the fun of another logged
            # evaluation; on a lens that IS at result.x the merit equals the value logged at result.x
            cands.append((vx, (MECH_PAIR,)))
        alt, flags2 = pick(rec, o['merit_after'], cands, 1e-9, oscale)
        rec.close('objective-reproduced', o['merit_after'], o['fun'], 1e-9, key='objective-reproduced:unexplained',
                  scale=oscale, alt=alt, flags=flags2,
                  msg=f'{fe}: merit re-evaluated on the lens as left = {o["merit_after"]!r}, returned objective = {o["fun"]!r}')
    # the merit accessor itself, on the lens as left and at the start
    for a_, b_, w_ in ((o['m0'], o['m0_oracle'], 'at start'), (o['merit_after'], o['merit_after_oracle'], 'after return')):
        rec.close('merit-definition', a_, b_, 1e-12, key='merit-definition:unexplained', scale=max(abs(b_), 1e-30),
                  msg=f'{w_}: sum_squared() = {a_!r}, operand-by-operand = {b_!r}')
    # objective at the start point is the merit at the start
    head = o['log_head']
    fault0 = bool(head) and head[0][2] > 0
    m0_flat = info.get('m0_flat') if info.get('first_run', True) else None
    # is the first logged evaluation AT the start point?  decided per variable (1e-12 relative to that variable)
    head_at_x0 = bool(head) and bool(np.all(np.abs(np.asarray(head[0][0], dtype=float) - x0) <= 1e-12 * xscale(x0)))
    head_near_x0 = bool(head) and bool(np.all(np.abs(np.asarray(head[0][0], dtype=float) - x0) <= 1e-9 * xscale(x0)))
    if head_at_x0 and not fault0:
        # the first evaluation re-sets the variables through update(): the lens may differ from the start by rounding
        rec.close('objective-is-merit', head[0][1], o['m0'], 1e-9, key='objective-is-merit:unexplained',
                  scale=max(abs(o['m0']), 4 * o.get('round_sens', 0.0) / 1e-9, 1e-30),
                  alt=m0_flat, flags=((MECH_DISP,) if m0_flat is not None else ()),
                  msg=f'{fe}: first objective evaluation at the start point = {head[0][1]!r}, merit at start = {o["m0"]!r}')
    # -- not-worse-than-start ----------------------------------------------------------------------------
    m_start = W.PENALTY if fault0 else o['m0']
    lo = np.array([-np.inf if b[0] is None else b[0] for b in o['bounds_given']])
    hi = np.array([np.inf if b[1] is None else b[1] for b in o['bounds_given']])
    slack = 1e-12 * xscale(x0)
    start_outside = [bool(x0[i] < lo[i] - slack[i] or x0[i] > hi[i] + slack[i]) for i in range(len(x0))]
    clipped_by_mech = any(start_outside[i] and bstat[i] == 'mech' for i in range(len(x0)))
    # + the measured rounding sensitivity of the merit (an optimiser that makes no progress returns the objective of
    # its own first evaluation, made on a lens re-set through update())
    ok = o['fun'] <= m_start * (1 + 1e-12) + 1e-300 + 4 * o.get('round_sens', 0.0)
    def near(a_, b_, rel):
        return a_ is not None and b_ is not None and abs(a_ - b_) <= rel * max(abs(a_), abs(b_), 1e-300)
    start_seen = head_at_x0 and (fault0 or near(head[0][1], o['m0'], 1e-9) or near(head[0][1], m0_flat, 1e-9)
                                 or abs(head[0][1] - o['m0']) <= 4 * o.get('round_sens', 0.0))
    mech = 'unexplained'
    if clipped_by_mech:
        mech = MECH_BOUNDS
    elif m0_flat is not None and o['fun'] <= m0_flat * (1 + 1e-12) + 1e-300:
        mech = MECH_DISP     # the first evaluation replaced a catalogue glass by a constant index: the start merit moved
    elif (fe.startswith('generic') or fe == 'compensator:generic') and start_seen \
            and (o['returned_point_evaluated'] or o['returned_fun_is_logged_value']):
        # scipy.optimize.minimize evaluated the start, later handed back an iterate with a larger objective (SLSQP at
        # its iteration limit or converged on the flat 1e10 penalty plateau, L-BFGS-B after an abnormal line search
        # on the penalty cliff); the library does not keep the best point it has seen
        mech = MECH_FAIL
    elif fe in ('least-squares', 'compensator:least_squares') and bool(head) and not head_at_x0 and head_near_x0 \
            and o['fun'] <= head[0][1] * (1 + 1e-12) + 1e-300:
        # scipy's TRF moves a start that lies within 1e-10 of a bound into the interior before its first evaluation;
        # relative to that first evaluation the objective did not get worse
        mech = MECH_TRF
    rec.check('not-worse-than-start', ok, resid=max(o['fun'] - m_start, 0.0),
              tol=max(1e-12 * abs(m_start), 1e-300) + 4 * o.get('round_sens', 0.0),
              key='not-worse-than-start:' + mech,
              msg=f'{fe}: returned objective {o["fun"]!r} is worse than the merit at the start {m_start!r}'
                  + (' (the feasible start lies outside the wrongly scaled bounds handed to scipy)' if clipped_by_mech else '')
                  + (f' (scipy: {o["message"]}; start and returned objective were both evaluated)' if mech == MECH_FAIL else ''))
    # -- bounds-respected --------------------------------------------------------------------------------
    for i, vs in enumerate(vs_list):
        if vs.get('min_val') is None and vs.get('max_val') is None:
            continue
        sl = 1e-12 * max(1.0, abs(x[i]), abs(lo[i]) if np.isfinite(lo[i]) else 0, abs(hi[i]) if np.isfinite(hi[i]) else 0)
        # a thickness is read back as the difference of two absolutely stored vertex positions (rounding 16 eps max|z|)
        zr = 16 * np.finfo(float).eps * float(o.get('zmax_seen', 0.0)) if vs['kind'] == 'thickness' else 0.0
        sl += zr
        inside_given = all(lo[i] - sl <= t <= hi[i] + sl for t in (x[i], got[i]))
        # as-built: a feasible start that lies outside the wrongly scaled bounds may be handed back unchanged
        kept_start = bstat[i] == 'mech' and start_outside[i] and all(
            (lo[i] - sl <= t <= hi[i] + sl) or t == x0[i] for t in (x[i], got[i]))
        k_ = vs['kw']['surface_number']
        nanz = set(o.get('nan_z_after', []))
        nan_thk = (vs['kind'] == 'thickness' and (k_ in nanz or k_ + 1 in nanz) and math.isnan(got[i])
                   and (lo[i] - sl <= x[i] <= hi[i] + sl or math.isnan(x[i])))
        nan_x = math.isnan(x[i]) or (math.isnan(got[i]) and last is not None and math.isnan(last[0][i]))
        nkey = nan_mech if nan_thk else MECH_NANX if nan_x else None
        rec.check('bounds-respected', inside_given,
                  key='bounds-respected:' + (MECH_BOUNDS if kept_start else nkey if nkey else 'unexplained'),
                  msg=f'{fe}: {vs["kind"]} variable: result.x[{i}] = {x[i]!r}, value left = {got[i]!r}, bounds handed to the '
                      f'optimiser = ({lo[i]!r}, {hi[i]!r})')
        raw = o['raw_after'][i]
        rlo = -np.inf if vs.get('min_val') is None else vs['min_val']
        rhi = np.inf if vs.get('max_val') is None else vs['max_val']
        sr = 1e-12 * max(1.0, abs(raw), abs(rlo) if np.isfinite(rlo) else 0, abs(rhi) if np.isfinite(rhi) else 0) + zr
        inside_raw = rlo - sr <= raw <= rhi + sr
        rec.check('bounds-respected', inside_raw,
                  key='bounds-respected:' + (MECH_BOUNDS if (bstat[i] == 'mech' and (inside_given or kept_start))
                                             else nkey if (nkey and math.isnan(raw)) else 'unexplained'),
                  msg=f'{fe}: {vs["kind"]} (apply_scaling={vs["scaled"]}) left at {raw!r} in lens units, outside '
                      f'(min_val, max_val) = ({vs.get("min_val")!r}, {vs.get("max_val")!r})')
    # -- pickups / solves --------------------------------------------------------------------------------
    judge_dependents(rec, o['dependents'], f'{fe}: after optimize()', nan_mech=nan_mech)
    # -- NaN faults --------------------------------------------------------------------------------------
    for i, v in o['fault_evals']:
        rec.check('nan-fault', v == W.PENALTY, key='nan-fault:unexplained',
                  msg=f'{fe}: an operand returned NaN at objective evaluation {i}; the objective there was {v!r}, not 1e10')
    rec.check('objective-never-nan', o['nan_objectives'] == 0, key='objective-never-nan:unexplained',
              msg=f'{fe}: {o["nan_objectives"]} objective evaluation(s) returned NaN')
    if o['nonfinite_objectives'] > o['nan_objectives']:
        rec.cls('objective-overflowed-to-inf')        # inf is not NaN: the statement's penalty clause does not apply
    rec.event('nan_faults_injected', len(o['fault_evals']))


def judge_dependents(rec, dep, what, nan_mech=None):
    if 'pickup' in dep:
        a, b = dep['pickup']
        rec.check('pickups-solves-satisfied', a == b or abs(a - b) <= 1e-9 * max(1.0, abs(b)), key='pickups-solves-satisfied:unexplained',
                  resid=abs(a - b), tol=1e-9 * max(1.0, abs(b)),
                  msg=f'{what}: radius pickup target = {a!r}, scale*source+offset = {b!r}')
    if 'solve' in dep:
        y, h, ymax, zK, zmax, umax = dep['solve']
        # 1e-9 relative, widened by the rounding of the vertex positions the solve itself writes (|u| eps |z|)
        tol = 1e-9 * max(1.0, abs(h), ymax) + 16 * np.finfo(float).eps * zmax * umax
        poisoned = not math.isfinite(y) and not math.isfinite(zK)
        rec.check('pickups-solves-satisfied', abs(y - h) <= tol,
                  key='pickups-solves-satisfied:' + ((nan_mech or MECH_NANSOLVE) if poisoned else 'unexplained'), resid=abs(y - h), tol=tol,
                  msg=f'{what}: marginal ray height at the solve surface = {y!r}, requested {h!r}'
                      + (f'; the vertex position of the solve surface is {zK!r}' if poisoned else ''))


def glass_index_vars(case):
    out = []
    for i, vs in enumerate(case['variables']):
        if vs['kind'] == 'index':
            m = case['spec']['surfaces'][vs['kw']['surface_number'] - 1].get('medium')
            if isinstance(m, dict) and 'glass' in m:
                out.append((i, vs['kw']['surface_number']))
    return out


def judge_undo(rec, case, before, labels, u, what, raw0=None, zmax_seen=0.0, nan_from=None):
    """undo() restores the snapshot taken before the run.  As-built model of `undo-skips-update-optics` (undo re-sets the
    variables and does not re-apply pickups / solves): every entry as before the run, except that the picked-up radius
    and the solved image distance keep the values they had immediately before undo()."""
    want = np.asarray(before, dtype=float)
    got = np.asarray(u['snap_after'], dtype=float)
    if got.shape != want.shape or list(labels) != list(u['snap_labels']):
        rec.check('undo-restores', False, key='undo-restores:unexplained', msg=f'{what}: prescription changed shape')
        return
    isz = np.array([lb.endswith('.z') for lb in labels])
    fin = np.isfinite(want)
    zmax = max(1.0, float(np.max(np.abs(want[fin & isz]))) if np.any(fin & isz) else 1.0)
    # vertex positions are stored absolutely: an excursion to |z| = Z during the run leaves rounding 8 eps Z in later gaps
    zmax = max(zmax, 8 * np.finfo(float).eps * float(zmax_seen) / 1e-12)
    scale = np.where(isz, zmax, np.maximum(1.0, np.where(fin, np.abs(want), 1.0)))
    ix = {lb: i for i, lb in enumerate(labels)}
    gv = glass_index_vars(case) if raw0 is not None else []

    def with_disp(a):
        # as-built model of `index-variable-discards-dispersion`: undo() re-sets the index through set_index(), i.e. a
        # constant-index medium with the value the variable had at ITS wavelength before the run
        a = a.copy()
        for i, k in gv:
            for j in range(3):
                a[ix[f'{k}.n_post{j}']] = raw0[i]
                a[ix[f'{k + 1}.n_pre{j}']] = raw0[i]
        return a

    def with_stale(a):
        a = a.copy()
        pre = np.asarray(u['snap_pre_undo'], dtype=float)
        if case.get('pickup'):
            i = ix[f"{case['pickup'][1]}.radius"]
            a[i] = pre[i]
        if case.get('solve'):
            K = case['solve'][0]
            a[ix[f'{K}.z']] = want[ix[f'{K - 1}.z']] + (pre[ix[f'{K}.z']] - pre[ix[f'{K - 1}.z']])
        return a
    cands = []
    dep = bool(case.get('pickup') or case.get('solve'))
    if nan_from is not None:
        a = want.copy()
        for lb, i in ix.items():
            k_, f_ = lb.split('.', 1)
            if f_ == 'z' and int(k_) > nan_from:
                a[i] = np.nan
        cands.append((a, (MECH_NANTHK,)))
    if gv:
        cands.append((with_disp(want), (MECH_DISP,)))
    stale = MECH_UNDO
    if case.get('solve'):
        pz = np.asarray(u['snap_pre_undo'], dtype=float)[ix[f"{case['solve'][0]}.z"]]
        if not np.isfinite(pz):
            stale = MECH_NANSOLVE       # the solved vertex is NaN: no re-application of the solve can repair it
    if dep:
        cands.append((with_stale(want), (stale,)))
    if gv and dep:
        cands.append((with_stale(with_disp(want)), (MECH_DISP, stale)))
    alt, flags = None, ()
    for a_, f_ in cands:           # the smallest set of mechanisms that predicts the lens as left
        alt, flags = a_, f_
        if vec_close(rec, got, a_, 1e-12, scale)[0]:
            break
    bad = np.nonzero(~(np.abs(got - want) <= 1e-12 * scale) & ~(~np.isfinite(got) & ~np.isfinite(want)))[0][:6]
    repaired = ''
    if 'snap_after_update' in u and len(bad):
        rep = np.asarray(u['snap_after_update'], dtype=float)
        if rep.shape == want.shape and vec_close(rec, rep, want, 1e-9, scale)[0]:
            repaired = '; Optic.update() on the lens as left restores it'
    rec.close('undo-restores', got, want, 1e-12, key='undo-restores:unexplained', scale=scale, alt=alt, flags=flags,
              msg=f'{what}: lens after undo() differs from the lens before the run at {[labels[i] for i in bad]} '
                  f'(got {got[bad].tolist()}, before {want[bad].tolist()}){repaired}')


def handled_error(rec, info, o, fe):
    """optimize() raised.  True when the exception is accounted for (recorded under a mechanism, or outside the statement)."""
    kind = o.get('error_kind')
    if kind == 'scipy' and infeasible_start_by_mech(info, o):
        rec.check('bounds-units', False, key='bounds-units:' + MECH_BOUNDS,
                  msg=f'{fe}: optimize() raised {o["error"]!r}: the start value lies inside (min_val, max_val) but '
                      f'outside the bounds handed to scipy {o["bounds_given"]}')
        rec.cls('run-aborted-infeasible-start')
        return True
    if kind == 'scipy' and 'x0' in o['error']:
        lo = np.array([-np.inf if b[0] is None else b[0] for b in o['bounds_given']])
        hi = np.array([np.inf if b[1] is None else b[1] for b in o['bounds_given']])
        x0 = np.asarray(o['x0'], dtype=float)
        sl = 1e-12 * np.maximum(1.0, np.abs(x0))
        if np.all(x0 >= lo - sl) and np.all(x0 <= hi + sl) and (np.any(np.abs(x0 - lo) <= sl) or np.any(np.abs(x0 - hi) <= sl)):
            # the previous run ended ON a bound; scipy's own rounding rejects such a start.  The statement says nothing
            # about optimize() accepting every feasible start: recorded, no verdict
            rec.cls('restart-on-bound-rejected-by-scipy')
            rec.event('scipy_rejected_start_on_bound')
            return True
    if kind == 'operand':
        # an operand's analysis code raised (e.g. rays outside the Chebyshev normalisation box): optimize() did not
        # return, which the statement does not cover; the operand's behaviour belongs to other properties
        rec.cls('optimize-aborted-by-operand-exception')
        rec.event('operand_exceptions_during_optimize')
        return True
    return False


def infeasible_start_by_mech(info, o):
    lo = [(-np.inf if b[0] is None else b[0]) for b in o['bounds_given']]
    hi = [(np.inf if b[1] is None else b[1]) for b in o['bounds_given']]
    for i, vs in enumerate(info['vars']):
        if info['bstat'][i] == 'mech' and not (lo[i] <= o['x0'][i] <= hi[i]):
            rlo = -np.inf if vs.get('min_val') is None else vs['min_val']
            rhi = np.inf if vs.get('max_val') is None else vs['max_val']
            if rlo <= o['raw0'][i] <= rhi:
                return True
    return False


def case_opt(case, rec):
    fe = case['frontend']
    kinds = sorted(set(vs['kind'] for vs in case['variables']))
    rec.cls('family-opt', 'fe-' + fe, *['optvar-' + k for k in kinds])
    rec.cls(*(case.get('classes') or ['axial']))
    if case.get('pickup'):
        rec.cls('with-pickup')
    if case.get('solve'):
        rec.cls('with-image-solve')
    if case.get('nan_at'):
        rec.cls('with-nan-fault')
    # bounds units of this problem's variables, on a twin lens (the live one is not touched before the run)
    twin = L.build(case['spec'])
    bstat = [check_bounds_units(rec, twin, vs) for vs in case['variables']]
    info = dict(vars=case['variables'], bstat=bstat, has_solve=bool(case.get('solve')))
    for vs, st in zip(case['variables'], bstat):
        rec.cls(f'optvar-{"scaled" if vs["scaled"] else "unscaled"}-{"bounded" if st != "unbounded" else "unbounded"}')
    c = W.build(case)
    gv = glass_index_vars(case)
    if gv and c.ops:
        rec.cls('index-variable-on-catalogue-glass')
        for i, k in gv:
            c.lens.set_index(W.raw_get(c.lens, case['variables'][i]), k)
        c.lens.update()
        info['m0_flat'] = W.penal(W.merit_oracle(c.lens, c.ops)[0])
        c = W.build(case)
    if fe == 'de-mp':
        return case_de_mp(case, rec, info)
    for d in c.dropped:
        rec.cls('operand-dropped-' + d)
    for o_ in c.ops:
        rec.cls('operand-' + o_[0])
    if not c.ops:
        rec.cls('opt-no-operands-skipped')
        return
    if case.get('nan_at') and not any(o_[0] == 'f2' for o_ in c.ops):
        rec.cls('nan-fault-without-f2-skipped')
        return
    has_dep = bool(case.get('pickup') or case.get('solve'))
    judge_dependents(rec, W.dependents(c), 'before the run')
    stack = []
    nontrivial = False
    nrun = 0
    zseen = 0.0
    nan_from = None
    for step in case['seq']:
        if step == 'o':
            o = W.observe_run(c, fe, case['opts'], nan_at=(case.get('nan_at') if nrun == 0 else None),
                              np_seed=case['np_seed'] + nrun)
            nrun += 1
            if 'error' in o:
                if handled_error(rec, info, o, fe):
                    return
                raise o['error_obj']
            zseen = max(zseen, o['zmax_seen'])
            kp_ = poisoned_from(case['variables'], o)
            nan_from = kp_ if nan_from is None else (nan_from if kp_ is None else min(nan_from, kp_))
            stack.append((o['snap_before'], o['snap_labels'], o['raw0']))
            info['first_run'] = (nrun == 1)
            judge_run(rec, info, o, fe)
            if o['n_eval'] >= 10 and o['log_values_minmax'][0] != o['log_values_minmax'][1] and o['fun'] != o['m0']:
                nontrivial = True
            if o['stack_len'] is not None:
                rec.check('undo-history', o['stack_len'] == len(stack), key='undo-history:unexplained',
                          msg=f'{fe}: {o["stack_len"]} undo entries after {len(stack)} outstanding optimize() calls')
            rec.sample(dict(family='opt', frontend=fe, variables=[[v['kind'], v['kw'], v['scaled'], v['min_val'], v['max_val']]
                                                                 for v in case['variables']],
                            operands=[[q[0], q[1], q[2]] for q in c.ops], start=o['x0'], merit_at_start=o['m0'],
                            evaluation_log_head=o['log_head'], last_evaluation=o['log_last'], n_evaluations=o['n_eval'],
                            result_x=o['x'], result_fun=o['fun'], lens_values_after_return=o['values_after'],
                            merit_after_return=o['merit_after']))
        else:
            if c.optimizer is None:
                if fe.startswith('compensator'):
                    continue
                from optiland.optimization import OptimizerGeneric, LeastSquares, DualAnnealing, DifferentialEvolution
                cls = (OptimizerGeneric if fe.startswith('generic') else LeastSquares if fe == 'least-squares'
                       else DualAnnealing if fe == 'dual-annealing' else DifferentialEvolution)
                c.optimizer = cls(c.problem)
            if stack:
                before, labels, raw0 = stack.pop()
                what = f'{fe}: undo() after {case["seq"]}'
            else:
                (before, labels), raw0 = W.flat_snapshot(c.lens), None
                what = f'{fe}: undo() with nothing to undo'
            u = W.observe_undo(c)
            judge_undo(rec, case, before, labels, u, what, raw0, zseen, nan_from)
            if has_dep:
                c.lens.update()      # later steps start from a consistent lens (the stale state is recorded above)
            rec.check('undo-history', u['stack_len'] == len(stack), key='undo-history:unexplained',
                      msg=f'{fe}: {u["stack_len"]} undo entries left, {len(stack)} runs outstanding')
            rec.event('undos')
    if nontrivial:
        rec.nontrivial_case()


def case_de_mp(case, rec, info):
    env = dict(os.environ)
    try:
        p = subprocess.run([sys.executable, '-m', 'vkit.c14_workers', json.dumps(case)], capture_output=True, text=True,
                           timeout=DE_MP_TIMEOUT_S, env=env, cwd=os.path.dirname(os.path.dirname(os.path.abspath(__file__))))
    except subprocess.TimeoutExpired:
        rec.event('de_mp_timeout')
        rec.cls('de-mp-timeout-no-verdict')
        return
    line = [ln for ln in p.stdout.splitlines() if ln.startswith('C14JSON:')]
    if p.returncode != 0 or not line:
        tail = (p.stderr or '')[-1500:]
        if '/optiland/' in tail and 'vkit/c14_workers.py' in tail:
            rec.check('no-unexpected-exception', False, key='exception:de-mp-subprocess',
                      msg='DifferentialEvolution subprocess failed: ' + tail[-600:])
            return
        raise RuntimeError('c14_workers subprocess failed: ' + tail)
    out = json.loads(line[-1][len('C14JSON:'):])
    has_dep = bool(case.get('pickup') or case.get('solve'))
    res = {'de-mp': [], 'de-1': []}
    nontrivial = False
    for r in out['runs']:
        fe, o, u = r['frontend'], r['run'], r['undo']
        if r['n_ops'] == 0:
            rec.cls('opt-no-operands-skipped')
            return
        if 'error' in o:
            if handled_error(rec, info, o, fe):
                return
            raise RuntimeError('c14_workers: ' + o['error'])
        rec.cls('fe-' + fe + '-rep')
        judge_run(rec, info, o, fe)
        judge_undo(rec, case, o['snap_before'], o['snap_labels'], u, f'{fe}: undo() after optimize()', o['raw0'], o['zmax_seen'])
        res[fe].append((o['x'], o['fun'], o['nfev']))
        if fe == 'de-mp':
            rec.event('de_mp_parent_side_evaluations', o['n_eval'])
            if o['nfev'] >= 10 and o['fun'] != o['m0']:
                nontrivial = True
    # the parent-side state cannot depend on the schedule of the children: same seed, same answer (informational)
    for fe, rr in res.items():
        same = all(r_ == rr[0] for r_ in rr[1:])
        rec.cls(f'{fe}-repeats-{"identical" if same else "differ"}')
    rec.sample(dict(family='opt', frontend='de-mp', runs=[dict(frontend=r['frontend'], start=r['run']['x0'],
                                                               result_x=r['run'].get('x'), result_fun=r['run'].get('fun'),
                                                               lens_values_after_return=r['run'].get('values_after'),
                                                               parent_side_evaluations=r['run']['n_eval'],
                                                               evaluation_log_head=r['run']['log_head'][:2],
                                                               nfev=r['run'].get('nfev')) for r in out['runs']]))
    if nontrivial:
        rec.nontrivial_case()


def check_case(case, rec):
    fam = case['family']
    if fam == 'merit':
        try:
            return case_merit(case, rec)
        except OperandRaised:
            rec.cls('merit-operand-raises-skipped')
            return
    if fam == 'vars':
        return case_vars(case, rec)
    if fam == 'two-lens':
        return case_two_lens(case, rec)
    return case_opt(case, rec)
