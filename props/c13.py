"""C13 -- tracing and analysis are repeatable and free of side effects (history monitor).

Random interleavings of tracing / paraxial / aberration / wavefront / PSF / MTF / analysis /
operand calls are run on one live lens.  After EVERY call a deep structural snapshot of
the lens (walk of __dict__ of optic, surfaces, geometries, coordinate systems, materials,
coatings, apertures, fields, wavelengths, aperture, pickups, solves -- excluding only the
documented last-trace records) is compared with the snapshot before the history; every
caller-owned array argument is hashed before and after; every call kind that occurs
twice in the history must return bit-identical results; and single rays are re-traced
alone / permuted / with lost companions / after unrelated traces (batch independence).
"""
import hashlib
import math

import numpy as np

from vkit import lens as L

ID = 'C13'
RULE = ('random lenses (all shapes, mirrors, tilts; with and without vignetting factors, simple and Fresnel coatings, '
        'polarization states) x random interleavings of 12 calls drawn from 25 call kinds (trace with every distribution, '
        'trace_generic with scalar / list / array arguments, paraxial and aberration queries, Wavefront/OPD/OPDFan, FFTPSF, '
        'FFTMTF, GeometricMTF, every analysis class, ray operands), each kind placed at least twice where chosen; '
        'non-trivial = history with >= 4 distinct call kinds; distinct = distinct case hash')
TIERS = {'quick': dict(shards=8, cases=18), 'thorough': dict(shards=16, cases=600)}
MIN_NONTRIVIAL = {'quick': 80, 'thorough': 1500}
MIN_EVALS = {'lens-unchanged': 500, 'arguments-unchanged': 60, 'repeatable': 150, 'batch-independence': 60,
             'arguments-unchanged-with-vignetting': 15}
ASSUMPTIONS = ['the last-trace records of surfaces (x,y,z,L,M,N,u,opd,intensity,aoi) are documented per-trace state and excluded',
               'unseeded random pupil sampling is excluded from the repeatability clause (the statement excepts it)',
               'batch independence at 1e-12 (closed-form surfaces) or 10 x the surface intersection tolerance (iterated shapes)']
ANCHORS = [('optiland.surfaces.surface_group', 'SurfaceGroup.trace'), ('optiland.surfaces.surface_group', 'SurfaceGroup.reset'),
           ('optiland.surfaces.standard_surface', 'Surface.reset'), ('optiland.optic', 'Optic.trace'),
           ('optiland.optic', 'Optic.trace_generic'), ('optiland.surfaces.surface_group', 'SurfaceGroup.inverted'),
           ('optiland.geometries.newton_raphson', 'NewtonRaphsonGeometry.distance'),
           ('optiland.rays.base', 'BaseRays._process_input'), ('optiland.fields', 'FieldGroup.get_vig_factor')]
RECORD_ATTRS = {'x', 'y', 'z', 'L', 'M', 'N', 'u', 'opd', 'intensity', 'aoi'}

# (besides these call kinds, every case ends with: caller-owned argument arrays, batch independence, and a hand-made
#  RealRays bundle through SurfaceGroup.trace)
KINDS = ['trace-hexapolar', 'trace-uniform', 'trace-cross', 'trace-ring', 'trace-line_y', 'trace-instance', 'generic-array',
         'generic-scalar',
         'generic-mixed', 'paraxial-scalars', 'paraxial-rays', 'seidels', 'third-order', 'wavefront', 'opd-fan', 'fftpsf',
         'fftmtf', 'geometric-mtf', 'spot', 'encircled', 'ray-fan', 'rms-spot-vs-field', 'rms-wave-vs-field', 'distortion',
         'grid-distortion', 'field-curvature', 'pupil-aberration', 'operand-ray', 'operand-rms']


def gen_case(rng, tier, i):
    a = L.loguniform(rng, 1.0, 10.0)
    spec, info = L.gen_axial(rng, semi=a, nsurf=(2, 7), asphere_p=0.2, glass_p=0.25, image='paraxial',
                             mirrors_p=(0.25 if rng.random() < 0.15 else 0.0), neg_power_p=0.05, max_field_deg=8.0)
    classes = []
    if rng.random() < 0.3:
        classes += L.decorate(spec, rng, a, freeform_p=0.2, big_tilt_p=0.0)
    if rng.random() < 0.4 and len(spec['fields']) > 1:
        for f in spec['fields'][1:]:
            f[1], f[2] = round(float(rng.uniform(0.05, 0.4)), 4), round(float(rng.uniform(0.05, 0.4)), 4)
        classes.append('vignetting-factors')
    s0 = spec['surfaces'][0]
    if rng.random() < 0.12 and s0.get('type', 'standard') == 'standard' and s0.get('radius', 'inf') != 'inf':
        # an exact paraboloid in front: rays parallel to its axis make the intersection equation linear (degenerate rays
        # and ordinary ones then share batches)
        s0['conic'] = -1.0
        classes.append('front-paraboloid-exact')
    stale = bool(rng.random() < 0.2)
    if len(spec['fields']) >= 3 and rng.random() < 0.4:
        # fields added in non-ascending order (the order of the lens's field list is part of its state)
        f = spec['fields']
        spec['fields'] = [f[0], f[-1]] + f[1:-1]
        classes.append('fields-not-ascending')
    r = rng.random()
    if r < 0.15:
        for s in spec['surfaces'][:-1]:
            if s.get('medium') != 'mirror' and rng.random() < 0.6:
                s['coating'] = {'T': round(float(rng.uniform(0.5, 1)), 4), 'R': 0.0}
        classes.append('simple-coatings')
    elif r < 0.3:
        for s in spec['surfaces'][:-1]:
            if s.get('medium') != 'mirror':
                s['coating'] = 'fresnel'
        spec['polarization'] = dict(is_polarized=False) if rng.random() < 0.5 else \
            dict(is_polarized=True, Ex=1.0, Ey=0.5, phase_x=0.0, phase_y=0.3)
        classes.append('fresnel+polarization')
    elif r < 0.36:
        # polarization-dependent coatings on a lens whose polarization is still 'ignore': every trace is REJECTED
        # (ValueError) - and a rejected call must leave the lens as it was
        for s in spec['surfaces'][:-1]:
            if s.get('medium') != 'mirror':
                s['coating'] = 'fresnel'
        spec['polarization'] = 'ignore'
        classes.append('fresnel-without-polarization-state')
    axial = L.is_axial(spec)
    pool = list(KINDS)
    if not axial:
        pool = [k for k in pool if k not in ('seidels', 'third-order', 'field-curvature', 'distortion', 'grid-distortion')]
    nk = int(rng.integers(4, 8))
    chosen = [pool[j] for j in rng.choice(len(pool), size=nk, replace=False)]
    hist = chosen + chosen[: 12 - nk] if nk < 12 else chosen
    while len(hist) < 12:
        hist.append(chosen[int(rng.integers(len(chosen)))])
    order = rng.permutation(len(hist))
    hist = [hist[j] for j in order]
    n = 8
    rr = np.sqrt(rng.uniform(0, 1, n)); th = rng.uniform(0, 2 * np.pi, n)
    return dict(spec=spec, info=info, classes=classes, hist=hist, Px=(rr * np.cos(th)).tolist(), Py=(rr * np.sin(th)).tolist(),
                Hy=float(rng.choice([0.0, 1.0, rng.uniform(0, 1)])), perm=rng.permutation(n).tolist(),
                nr=int(rng.integers(2, 5)), seed=int(rng.integers(1 << 30)), stale_solve=stale)


# ---------------------------------------------------------------------------
def deep_snapshot(obj, seen=None, depth=0, path=''):
    """Canonical nested structure of everything reachable from the lens, without the per-trace records."""
    if seen is None:
        seen = {}
    if obj is None or isinstance(obj, (bool, int, str)):
        return obj
    if isinstance(obj, float):
        return 'nan' if math.isnan(obj) else obj
    if isinstance(obj, (np.floating, np.integer, np.bool_)):
        return deep_snapshot(obj.item())
    if isinstance(obj, np.ndarray):
        return ('ndarray', obj.shape, str(obj.dtype), hashlib.sha1(np.ascontiguousarray(obj).tobytes()).hexdigest())
    if isinstance(obj, (list, tuple)):
        return [deep_snapshot(v, seen, depth + 1, path) for v in obj]
    if isinstance(obj, dict):
        return {str(k): deep_snapshot(v, seen, depth + 1, path) for k, v in sorted(obj.items(), key=lambda kv: str(kv[0]))}
    oid = id(obj)
    if oid in seen:
        return ('ref', seen[oid])
    mod = type(obj).__module__ or ''
    if not mod.startswith('optiland'):
        return ('opaque', type(obj).__name__)
    seen[oid] = len(seen)
    d = {}
    for k, v in sorted(vars(obj).items()):
        if k in RECORD_ATTRS and type(obj).__name__ in ('Surface', 'ObjectSurface', 'ImageSurface'):
            continue
        if k in ('optic', '_surface_group', 'surface_factory') and depth > 0:
            continue     # back references
        if k in ('paraxial', 'aberrations', 'ray_generator') and type(obj).__name__ not in ('Surface',):
            continue     # stateless helpers holding only a back reference and private scratch values, not prescription
        d[k] = deep_snapshot(v, seen, depth + 1, path + '.' + k)
    return (type(obj).__name__, d)


def snap_diff(a, b, path='lens'):
    if type(a) != type(b):
        return f'{path}: {str(a)[:60]} -> {str(b)[:60]}'
    if isinstance(a, (list, tuple)):
        if len(a) != len(b):
            return f'{path}: length {len(a)} -> {len(b)}'
        for i, (x, y) in enumerate(zip(a, b)):
            r = snap_diff(x, y, f'{path}[{i}]')
            if r:
                return r
        return None
    if isinstance(a, dict):
        if a.keys() != b.keys():
            return f'{path}: keys {sorted(set(a) ^ set(b))}'
        for k in a:
            r = snap_diff(a[k], b[k], f'{path}.{k}')
            if r:
                return r
        return None
    return None if a == b else f'{path}: {str(a)[:60]} -> {str(b)[:60]}'


def flat(x):
    """Flatten a result into a list of float arrays (for bitwise comparison)."""
    out = []
    if x is None:
        return out
    if isinstance(x, np.ndarray):
        out.append(np.asarray(x, dtype=float) if x.dtype != object else np.array([], float))
    elif isinstance(x, (float, int, np.floating, np.integer)):
        out.append(np.array([float(x)]))
    elif isinstance(x, (list, tuple)):
        for v in x:
            out.extend(flat(v))
    elif isinstance(x, dict):
        for k in sorted(x, key=str):
            out.extend(flat(x[k]))
    return out


def same(a, b):
    fa, fb = flat(a), flat(b)
    if len(fa) != len(fb):
        return False
    return all(u.shape == v.shape and np.array_equal(u, v, equal_nan=True) for u, v in zip(fa, fb))


def do_call(kind, lens, case, args_log):
    """Run one call; returns its result. Caller-owned arrays are registered in args_log for hashing."""
    spec = case['spec']
    wl = L.primary_wavelength(spec)
    wls = [w[0] for w in spec['wavelengths']]
    Hy = case['Hy']
    nr = case['nr']

    def own(arr):
        args_log.append(arr)
        return arr
    if kind == 'trace-instance':
        # a Distribution object made and filled by the caller (num_rays left at its default, or given): the caller's points
        # are the ones traced and stay what they were
        from optiland.distribution import create_distribution
        d = create_distribution('hexapolar')
        d.generate_points(nr + 1)
        x0, y0 = np.array(d.x, float).copy(), np.array(d.y, float).copy()
        rays = lens.trace(0.0, Hy, wl, distribution=d) if case['seed'] % 2 else lens.trace(0.0, Hy, wl, len(x0), d)
        args_log.instance_ok = bool(np.array_equal(np.asarray(d.x, float), x0) and np.array_equal(np.asarray(d.y, float), y0)
                                    and np.size(rays.x) == x0.size)
        sg = lens.surface_group
        return [rays.x, rays.y, rays.z, rays.L, rays.M, rays.N, rays.opd, rays.i, sg.x, sg.opd, sg.intensity]
    if kind.startswith('trace-'):
        rays = lens.trace(0.0, Hy, wl, nr + 2, kind.split('-', 1)[1])
        sg = lens.surface_group
        return [rays.x, rays.y, rays.z, rays.L, rays.M, rays.N, rays.opd, rays.i, sg.x, sg.opd, sg.intensity]
    if kind.startswith('generic-'):
        Px, Py = np.array(case['Px']), np.array(case['Py'])
        n = len(Px)
        if kind == 'generic-array':
            a = [own(np.zeros(n)), own(np.full(n, Hy)), own(Px.copy()), own(Py.copy())]
        elif kind == 'generic-scalar':
            a = [0.0, Hy, float(Px[0]), float(Py[0])]
        else:
            a = [0.0, Hy, own(Px.copy()), own(Py.copy())]
        rays = lens.trace_generic(a[0], a[1], a[2], a[3], wl)
        sg = lens.surface_group
        return [rays.x, rays.y, rays.z, rays.L, rays.M, rays.N, rays.opd, rays.i, sg.y, sg.M, sg.opd]
    par = lens.paraxial
    if kind == 'paraxial-scalars':
        return [par.f1(), par.f2(), par.F1(), par.F2(), par.P1(), par.P2(), par.N1(), par.N2(), par.EPL(), par.EPD(),
                par.XPL(), par.XPD(), par.FNO(), par.magnification(), par.invariant()]
    if kind == 'paraxial-rays':
        return [par.marginal_ray(), par.chief_ray()]
    if kind == 'seidels':
        return lens.aberrations.seidels()
    if kind == 'third-order':
        return list(lens.aberrations.third_order())
    if kind == 'wavefront':
        from optiland.wavefront import Wavefront
        return Wavefront(lens, fields=[(0.0, Hy)], wavelengths=own(list(wls)), num_rays=nr, distribution='hexapolar').data
    if kind == 'opd-fan':
        from optiland.wavefront import OPDFan
        return OPDFan(lens, fields=[(0.0, Hy)], wavelengths=[wl], num_rays=9).data
    if kind == 'fftpsf':
        from optiland.psf import FFTPSF
        p = FFTPSF(lens, (0.0, Hy), wl, num_rays=32, grid_size=64)
        return [p.psf, p.strehl_ratio()]
    if kind == 'fftmtf':
        from optiland.mtf import FFTMTF
        m = FFTMTF(lens, fields=[(0.0, Hy)], wavelength=wl, num_rays=32, grid_size=64)
        return [m.mtf, m.max_freq]
    if kind == 'geometric-mtf':
        from optiland.mtf import GeometricMTF
        m = GeometricMTF(lens, fields='all', wavelength='primary', num_rays=12, num_points=32)
        return [m.mtf, m.freq]
    if kind == 'spot':
        from optiland.analysis import SpotDiagram
        s = SpotDiagram(lens, fields='all', wavelengths='all', num_rings=nr)
        import copy as _copy
        first = [_copy.deepcopy(s.data), s.centroid(), s.rms_spot_radius(), s.geometric_spot_radius()]
        # the same object queried again: a query must not change what the object holds or what it answers next
        again = [s.data, s.centroid(), s.rms_spot_radius(), s.geometric_spot_radius()]
        args_log.same_object = same(first, again)
        return [first[0], first[2], first[3], first[1]]
    if kind == 'encircled':
        from optiland.analysis import EncircledEnergy
        from optiland.distribution import RandomDistribution
        e = EncircledEnergy(lens, fields='all', wavelength='primary', num_rays=nr + 3, distribution='hexapolar', num_points=16)
        import copy as _copy
        first = [_copy.deepcopy(e.data), e.centroid()]
        again = [e.data, e.centroid()]
        args_log.same_object = same(first, again)
        return first
    if kind == 'ray-fan':
        from optiland.analysis import RayFan
        return RayFan(lens, fields='all', wavelengths='all', num_points=9).data
    if kind == 'rms-spot-vs-field':
        from optiland.analysis import RmsSpotSizeVsField
        o = RmsSpotSizeVsField(lens, num_fields=4, wavelengths='all', num_rings=nr)
        return [o._spot_size]
    if kind == 'rms-wave-vs-field':
        from optiland.analysis import RmsWavefrontErrorVsField
        o = RmsWavefrontErrorVsField(lens, num_fields=4, wavelengths=[wl], num_rays=nr)
        return [o._wavefront_error]
    if kind == 'distortion':
        from optiland.analysis import Distortion
        return Distortion(lens, wavelengths=[wl], num_points=8).data
    if kind == 'grid-distortion':
        from optiland.analysis import GridDistortion
        return GridDistortion(lens, wavelength=wl, num_points=4).data
    if kind == 'field-curvature':
        from optiland.analysis import FieldCurvature
        return FieldCurvature(lens, wavelengths=[wl], num_points=6).data
    if kind == 'pupil-aberration':
        from optiland.analysis import PupilAberration
        return PupilAberration(lens, fields=[(0.0, Hy)], wavelengths=[wl], num_points=9).data
    if kind == 'operand-ray':
        from optiland.optimization.operand.ray import RayOperand
        k = len(spec['surfaces'])
        a = (lens, k, 0.0, Hy, float(case['Px'][0]), float(case['Py'][0]), wl)
        return [RayOperand.x_intercept(*a), RayOperand.y_intercept(*a), RayOperand.z_intercept(*a), RayOperand.L(*a),
                RayOperand.M(*a), RayOperand.N(*a)]
    if kind == 'operand-rms':
        from optiland.optimization.operand.ray import RayOperand
        k = len(spec['surfaces'])
        return [RayOperand.rms_spot_size(lens, k, 0.0, Hy, nr, wl, 'hexapolar'),
                RayOperand.OPD_difference(lens, 0.0, Hy, 3, wl)]
    raise ValueError(kind)


EXPECTED_ERRORS = ('Chebyshev input coordinates',)


def check_case(case, rec):
    spec = case['spec']
    lens = L.build(spec)
    classes = case['classes']
    rec.cls(*(classes or ['plain']))
    if case.get('stale_solve'):
        # a lens carrying an image-surface solve (and a radius pickup) whose source was edited WITHOUT update(): the solve
        # and the pickup are out of date on purpose - only update() / image_solve() may bring them up to date, no
        # tracing or analysis call
        rec.cls('stale-solve-and-pickup')
        K_ = len(lens.surface_group.surfaces) - 1
        ya_, ua_ = lens.paraxial.marginal_ray()
        if np.all(np.isfinite(ya_)) and abs(float(np.ravel(ua_)[K_ - 1])) > 1e-9:
            lens.solves.add('marginal_ray_height', K_, 0.0)
            curved = [k_ for k_ in range(1, K_) if np.isfinite(lens.surface_group.radii[k_])]
            if len(curved) >= 2:
                lens.pickups.add(curved[0], 'radius', curved[1], scale=-1.0, offset=0.0)
                lens.update()
            lens.set_radius(float(lens.surface_group.radii[curved[0]]) * 1.07, curved[0]) if curved else None
    vig = 'vignetting-factors' in classes
    base = deep_snapshot(lens)
    seen_results = {}
    kinds_done = set()
    for step, kind in enumerate(case['hist']):
        args = []
        try:
            hashes_before = None
            res = None

            class _Log(list):
                pass
            log = _Log()
            res = do_call(kind, lens, case, log)
        except ValueError as e:
            if any(m in str(e) for m in EXPECTED_ERRORS):
                rec.cls('chebyshev-domain-error-skipped')
                return
            if 'Polarization must be set' in str(e) and 'fresnel-without-polarization-state' in classes:
                # the documented rejection: the call must not have touched the lens
                rec.cls('call-rejected-polarization-not-set')
                d = snap_diff(base, deep_snapshot(lens))
                rec.check('lens-unchanged', d is None, key='lens-unchanged:rejected-call',
                          msg=f'call {kind} (step {step}) was rejected with ValueError but changed the lens: {d}')
                rec.event('calls')
                kinds_done.add(kind)
                continue
            raise
        except ZeroDivisionError:
            rec.cls(f'{kind}-raised-ZeroDivisionError-not-judged')
            continue
        rec.event('calls')
        rec.cls(f'call-{kind}')
        if getattr(log, 'instance_ok', None) is not None:
            rec.check('arguments-unchanged', bool(log.instance_ok), key='arguments-unchanged:distribution-instance',
                      msg='Optic.trace(distribution=<Distribution object>) changed the caller\'s pupil points or traced another number of rays')
        if getattr(log, 'same_object', None) is not None:
            rec.check('repeatable', bool(log.same_object), key='repeatable:same-analysis-object-queried-twice',
                      msg=f'{kind}: querying one analysis object a second time returned different results / changed its stored data')
        kinds_done.add(kind)
        # the lens itself: nothing but the documented per-trace records may change
        now = deep_snapshot(lens)
        d = snap_diff(base, now)
        rec.check('lens-unchanged', d is None, key=f'lens-unchanged:{kind.split("-")[0]}',
                  msg=f'call {kind} (step {step}) changed the lens: {d}')
        if d is not None:
            base = now
        # repeatability: the same call kind earlier in this history returned the same bits
        if kind in seen_results:
            ok = same(seen_results[kind], res)
            rec.check('repeatable', ok, key=f'repeatable:{kind}',
                      msg=f'call {kind} repeated on the unchanged lens (steps {seen_results[kind + "@"]} and {step}) returned different results')
        else:
            seen_results[kind] = [np.copy(a) if isinstance(a, np.ndarray) else a for a in (res if isinstance(res, list) else [res])]
            seen_results[kind] = res
            seen_results[kind + '@'] = step
    if len(kinds_done) >= 4:
        rec.nontrivial_case()
    try:
        tail_checks(case, rec, lens, spec, vig)
    except ValueError as e:
        if any(m in str(e) for m in EXPECTED_ERRORS):
            rec.cls('chebyshev-domain-error-skipped')
            return
        if 'Polarization must be set' in str(e) and 'fresnel-without-polarization-state' in classes:
            d = snap_diff(base, deep_snapshot(lens))
            rec.check('lens-unchanged', d is None, key='lens-unchanged:rejected-call',
                      msg=f'a rejected trace_generic changed the lens: {d}')
            return
        raise
    rec.sample(dict(case={k: v for k, v in case.items() if k != 'info'}))


def tail_checks(case, rec, lens, spec, vig):
    # caller-owned arrays
    wl = L.primary_wavelength(spec)
    Px, Py = np.array(case['Px']), np.array(case['Py'])
    n = len(Px)
    for Hy in ([case['Hy']] + ([1.0] if vig else [])):
        a = [np.zeros(n), np.full(n, Hy), Px.copy(), Py.copy()]
        before = [x.copy() for x in a]
        lens.trace_generic(a[0], a[1], a[2], a[3], wl)
        ok = all(np.array_equal(x, y) for x, y in zip(a, before))
        vig_active = vig and Hy != 0
        rec.check('arguments-unchanged-with-vignetting' if vig_active else 'arguments-unchanged', ok,
                  msg=f'trace_generic modified a caller-owned array (Hy={Hy}, vignetting factors {"set" if vig else "not set"}): '
                      f'Px {before[2][:2]} -> {a[2][:2]}')
    # batch independence
    iter_tol = max([float(s.get('tol', 1e-6)) for s in spec['surfaces'] if s.get('type', 'standard') != 'standard'] + [0.0])
    tol = 1e-12 + 10 * iter_tol
    Hy = case['Hy']
    lens.trace_generic(np.zeros(n), np.full(n, Hy), Px.copy(), Py.copy(), wl)
    sg = lens.surface_group
    full = np.stack([sg.x, sg.y, sg.z, sg.L, sg.M, sg.N, sg.opd, sg.intensity]).copy()      # (8, K+1, n): the intensities too
    # (under a polarization state they depend on the s/p frames built per surface - per ray, not per batch)
    scale = max(1.0, float(np.nanmax(np.abs(np.where(np.isfinite(full[:3]), full[:3], 0)))))

    def cmp_batch(what, got, want):
        g = np.where(np.isfinite(got), got, np.nan); w = np.where(np.isfinite(want), want, np.nan)
        samefin = np.array_equal(np.isfinite(g), np.isfinite(w))
        fin = np.isfinite(g) & np.isfinite(w)
        r = float(np.max(np.abs(g[fin] - w[fin]))) / scale if fin.any() else 0.0
        rec.check('batch-independence', samefin and r <= tol, resid=r, tol=tol, key=f'batch-independence:{what}',
                  msg=f'a ray traced {what} differs from its value in the batch by {r:.3e} (relative to system scale)')
    # alone
    j = 0
    lens.trace_generic(0.0, Hy, float(Px[j]), float(Py[j]), wl)
    one = np.stack([sg.x, sg.y, sg.z, sg.L, sg.M, sg.N, sg.opd, sg.intensity])[:, :, 0]
    cmp_batch('alone', one, full[:, :, j])
    # permuted
    perm = np.array(case['perm'])
    lens.trace_generic(np.zeros(n), np.full(n, Hy), Px[perm].copy(), Py[perm].copy(), wl)
    pm = np.stack([sg.x, sg.y, sg.z, sg.L, sg.M, sg.N, sg.opd, sg.intensity])
    cmp_batch('in a permuted batch', pm, full[:, :, perm])
    # with companions that are lost (far outside the pupil: they miss surfaces / are totally reflected)
    Pxx, Pyy = np.concatenate([Px, [7.0, -9.0, 3.0]]), np.concatenate([Py, [6.0, 8.0, -11.0]])
    lens.trace_generic(np.zeros(n + 3), np.full(n + 3, Hy), Pxx, Pyy, wl)
    comp = np.stack([sg.x, sg.y, sg.z, sg.L, sg.M, sg.N, sg.opd, sg.intensity])[:, :, :n]
    cmp_batch('with lost companions', comp, full)
    # in a crowd: the same rays together with 3000 easy near-axis rays (batch-wide convergence tests must not
    # abandon the slow ones)
    crowd = 3000
    cx = np.concatenate([Px, 1e-3 * np.cos(np.linspace(0, 6.28, crowd))])
    cy = np.concatenate([Py, 1e-3 * np.sin(np.linspace(0, 6.28, crowd))])
    cx[-1] = cy[-1] = 0.0             # ... one of them the ray along the axis itself
    lens.trace_generic(np.zeros(n + crowd), np.concatenate([np.full(n, Hy), np.zeros(crowd)]), cx, cy, wl)
    cr = np.stack([sg.x, sg.y, sg.z, sg.L, sg.M, sg.N, sg.opd, sg.intensity])[:, :, :n]
    cmp_batch('in a crowd of 3000 near-axis rays', cr, full)
    # after an unrelated trace
    lens.trace(0.0, 0.0, wl, 3, 'hexapolar')
    lens.paraxial.marginal_ray()
    lens.trace_generic(np.zeros(n), np.full(n, Hy), Px.copy(), Py.copy(), wl)
    again = np.stack([sg.x, sg.y, sg.z, sg.L, sg.M, sg.N, sg.opd, sg.intensity])
    rec.check('repeatable', np.array_equal(again, full, equal_nan=True), key='repeatable:after-unrelated-calls',
              msg='the same batch traced after unrelated trace/paraxial calls is not bit-identical')
    # a Distribution object made and filled by the caller: its points are the ones traced and stay what they were, with
    # num_rays left at its default and with num_rays given (every case: the history above only meets this call by chance)
    from optiland.distribution import create_distribution as _cd
    for variant in ('default-num_rays', 'explicit-num_rays'):
        dd = _cd('hexapolar')
        dd.generate_points(case['nr'] + 1)
        x0_, y0_ = np.array(dd.x, float).copy(), np.array(dd.y, float).copy()
        rr_ = lens.trace(0.0, Hy, wl, distribution=dd) if variant == 'default-num_rays' else lens.trace(0.0, Hy, wl, len(x0_) + 3, dd)
        ok_ = bool(np.array_equal(np.asarray(dd.x, float), x0_) and np.array_equal(np.asarray(dd.y, float), y0_)
                   and np.size(rr_.x) == x0_.size)
        rec.check('arguments-unchanged', ok_, key='arguments-unchanged:distribution-instance',
                  msg=f'Optic.trace(distribution=<Distribution object>, {variant}) changed the caller\'s pupil points or traced '
                      f'{np.size(rr_.x)} rays for {x0_.size} points')
    # under a polarization state the returned intensities come from s/p frames built ray by ray: a ray's intensity is the
    # same in a bundle (which contains the undeviated axial ray) and alone
    if spec.get('polarization', 'ignore') != 'ignore':
        from optiland.distribution import create_distribution
        for Hq in (0.0, Hy):
            db = create_distribution('hexapolar')
            db.generate_points(2)
            rb = lens.trace(0.0, Hq, wl, 2, db)         # (num_rays is given although a ready-made object ignores it)
            ib = np.array(rb.i, float).copy()
            alone = []
            for q in range(len(db.x)):
                d1 = create_distribution('hexapolar')
                d1.x, d1.y = np.array([float(db.x[q])]), np.array([float(db.y[q])])
                alone.append(float(np.ravel(lens.trace(0.0, Hq, wl, 1, d1).i)[0]))
            alone = np.array(alone)
            samef = np.array_equal(np.isfinite(ib), np.isfinite(alone))
            fin_ = np.isfinite(ib) & np.isfinite(alone)
            r_ = float(np.max(np.abs(ib[fin_] - alone[fin_]))) if fin_.any() else 0.0
            rec.check('batch-independence', samef and r_ <= 1e-12, resid=r_, tol=1e-12, key='batch-independence:polarized-intensity',
                      msg=f'polarized trace (Hy={Hq}): the intensity of a ray in a hexapolar bundle differs from the same ray traced alone by {r_:.3e}')
    # what the surface records hold when an analysis starts must not matter: a lone ray, a bundle, nothing
    from optiland.wavefront import Wavefront
    outs = []
    for prep in ('single', 'bundle', 'single-other'):
        if prep == 'single':
            lens.trace_generic(0.0, 1.0, 0.0, 0.0, wl)
        elif prep == 'bundle':
            lens.trace(0.0, 0.0, wl, 3, 'hexapolar')
        else:
            lens.trace_generic(0.0, -0.6, 0.3, 0.2, wl)
        wf_ = Wavefront(lens, fields=[(0.0, Hy)], wavelengths=[wl], num_rays=case['nr'], distribution='hexapolar')
        outs.append([np.array(wf_.data[0][0][0], float), np.array(wf_.data[0][0][1], float)])
    rec.check('repeatable', all(same(outs[0], o_) for o_ in outs[1:]), key='repeatable:wavefront-after-lone-ray-or-bundle',
              msg='Wavefront of the same field depends on what was traced just before it (a lone ray / a bundle / another lone ray)')
    # a hand-made bundle handed to SurfaceGroup.trace: the caller's arrays (one of them serving several attributes, as a
    # caller naturally writes it) stay what they were, and the result is the one obtained from private copies
    from optiland.rays import RealRays
    h = 0.4 * float(np.ravel(lens.paraxial.EPD())[0]) / 2.0
    z0 = -1.0 if spec['obj_t'] == 'inf' else -0.5 * float(spec['obj_t'])
    xs, ys = h * Px, h * Py
    zeros, ones = np.zeros(n), np.ones(n)
    zarr, warr = np.full(n, z0), np.full(n, wl)
    caller = [xs, ys, zarr, zeros, zeros, ones, ones, warr]            # `zeros` is L and M, `ones` is N and intensity
    before = [c_.copy() for c_ in caller]
    r1 = RealRays(*caller)
    lens.surface_group.trace(r1)
    got = np.stack([sg.x, sg.y, sg.z, sg.L, sg.M, sg.N, sg.opd, sg.intensity]).copy()
    ok = all(np.array_equal(c_, b_) for c_, b_ in zip(caller, before))
    rec.check('arguments-unchanged', ok, key='arguments-unchanged:realrays-bundle',
              msg='SurfaceGroup.trace(RealRays(...)) modified an array owned by the caller of RealRays')
    r2 = RealRays(*[b_.copy() for b_ in before])
    lens.surface_group.trace(r2)
    want = np.stack([sg.x, sg.y, sg.z, sg.L, sg.M, sg.N, sg.opd, sg.intensity])
    rec.check('repeatable', np.array_equal(got, want, equal_nan=True), key='repeatable:realrays-bundle-from-shared-arrays',
              msg='a bundle built from arrays shared between attributes traces differently from one built from private copies')
