"""C06 -- analytically stigmatic systems are imaged perfectly (closed-form oracle).

Each family is built by a small constructor that derives the prescription from its
defining parameters (written from analytic geometry, nothing taken from the library);
the oracle is the closed-form statement itself: every ray meets the image point, all
optical paths are equal, W = 0, Strehl = 1.
"""
import math

import numpy as np

from vkit import lens as L

ID = 'C06'
RULE = ('closed-form stigmatic systems drawn over radii of either sign, indices in [1.3,4], conjugates and apertures up '
        'to ~f/0.6: paraboloid mirror (inf object; +R variant behind a fold mirror), ellipsoid mirror between its foci, '
        'classical Cassegrain (paraboloid + hyperboloid) and Gregorian (paraboloid + ellipsoid), plano-hyperbolic singlet '
        'k=-n^2, ellipsoidal refracting surface k=-1/n^2 with immersed image, spherical mirror at its centre of curvature, '
        'spherical refracting surface at its centre / at its aplanatic points (virtual image: decided by back-extension); '
        'hexapolar + rim pupil points; non-trivial = f-number <= 4; distinct = distinct case hash')
TIERS = {'quick': dict(shards=8, cases=110), 'thorough': dict(shards=16, cases=1500)}
MIN_NONTRIVIAL = {'quick': 150, 'thorough': 1500}
MIN_EVALS = {'rays-exist': 60, 'rays-meet-image-point': 60, 'equal-optical-paths': 60, 'wavefront-zero': 30, 'strehl-one': 15,
             'virtual-image-back-extension': 10, 'virtual-image-equal-paths': 10}
ASSUMPTIONS = ['tolerances: 1e-9 x focal scale for positions and paths, 1e-6 waves, |Strehl-1| <= 1e-6',
               'PSF samplings/grids of both parities (64/256, 64/255, 33/128, 32/129, 65/256)',
               'virtual-image families are decided on the surface record by back-extension; wavefront/Strehl clauses are not evaluated for them']
ANCHORS = [('optiland.geometries.standard', 'StandardGeometry.distance'),
           ('optiland.geometries.standard', 'StandardGeometry.surface_normal'),
           ('optiland.surfaces.standard_surface', 'Surface._trace_real'),
           ('optiland.rays.real_rays', 'RealRays.refract'), ('optiland.rays.real_rays', 'RealRays.reflect'),
           ('optiland.wavefront', 'Wavefront._get_path_length'), ('optiland.wavefront', 'Wavefront._opd_image_to_xp'),
           ('optiland.wavefront', 'Wavefront._get_reference_sphere'), ('optiland.wavefront', 'Wavefront._correct_tilt'),
           ('optiland.psf', 'FFTPSF.strehl_ratio'), ('optiland.psf', 'FFTPSF._get_normalization')]
FAMILIES = ['paraboloid', 'paraboloid-convex', 'paraboloid-folded', 'ellipsoid-foci', 'cassegrain', 'gregorian', 'plano-hyperbolic',
            'ellipsoid-refracting-immersed', 'sphere-mirror-centre', 'sphere-refract-centre', 'aplanatic',
            'paraboloid-aplanatic', 'aplanatic-after-mirror']


def base(wl=0.55):
    return dict(obj_n='air', wavelengths=[[wl, True]], telecentric=False, polarization='ignore')


def gen_case(rng, tier, i):
    fam = FAMILIES[int(rng.integers(len(FAMILIES)))]
    wl = round(float(rng.uniform(0.45, 0.7)), 4)
    spec = base(wl)
    speed = float(L.loguniform(rng, 0.6, 8.0))        # f-number
    info = dict(family=fam)
    if fam in ('paraboloid', 'paraboloid-folded'):
        f = L.loguniform(rng, 10, 1000)
        epd = f / speed
        epd = min(epd, 3.9 * f * 0.95)
        if fam == 'paraboloid':
            R = -2 * f
            spec.update(obj_t='inf', surfaces=[dict(type='standard', radius=R, conic=-1.0, medium='mirror', t=-f, stop=True),
                                               dict(type='standard', radius='inf', t=0.0, medium='air')])
            img = [0.0, 0.0, -f]
        else:
            d = float(rng.uniform(0.2, 2.0) * f)
            R = 2 * f         # concave towards -z travelling light: centre on the +z side of the mirror located at z = -d
            spec.update(obj_t='inf', surfaces=[dict(type='standard', radius='inf', medium='mirror', t=-d, stop=True),
                                               dict(type='standard', radius=R, conic=-1.0, medium='mirror', t=f),
                                               dict(type='standard', radius='inf', t=0.0, medium='air')])
            img = [0.0, 0.0, -d + f]
        spec.update(aperture=['EPD', epd], field_type='angle', fields=[[0.0, 0, 0]])
        info.update(fno=f / epd, scale=f, image=img, real=True)
        r_ = rng.random()
        if r_ < 0.25:
            # the whole system immersed (a mirror in water / in a glass block): same geometry, paths scale with n
            nim = round(float(rng.uniform(1.3, 4.0)), 6)
            spec['obj_n'] = {'n': nim}
            spec['surfaces'][-1]['medium'] = {'n': nim}
            info['immersed'] = nim
        elif r_ < 0.45 and fam == 'paraboloid':
            # built as a SPHERE, used once, then made a paraboloid through set_conic
            spec['surfaces'][0]['conic'] = 0.0
            info['edit_conic'] = [1, -1.0]
    elif fam == 'paraboloid-convex':
        # convex paraboloid mirror, collimated light: the reflected rays appear to come from the (virtual) focus behind
        # the mirror; distance to the focus = distance to the directrix, so path - |surface -> focus| is constant
        f = L.loguniform(rng, 10, 1000)
        epd = min(f / speed, 3.9 * f * 0.95)
        spec.update(obj_t='inf', surfaces=[dict(type='standard', radius=2 * f, conic=-1.0, medium='mirror', t=-f, stop=True),
                                           dict(type='standard', radius='inf', t=0.0, medium='air')],
                    aperture=['EPD', epd], field_type='angle', fields=[[0.0, 0, 0]])
        info.update(fno=f / epd, scale=f, image=[0.0, 0.0, f], real=False, n1=1.0, n2=1.0)
    elif fam == 'ellipsoid-foci':
        a = L.loguniform(rng, 20, 500)
        e = float(rng.uniform(0.1, 0.85))
        near, far = a * (1 - e), a * (1 + e)
        swap = rng.random() < 0.5
        d_obj, d_img = (near, far) if swap else (far, near)
        R = -a * (1 - e * e)
        na = min(0.85, 1.0 / (2 * speed))
        if d_obj > a:
            # from the far focus, rays steeper than atan(b / (a e)) meet the ellipsoid beyond its equator, i.e. not on
            # the vertex sheet that the prescription describes: geometric limit of this configuration
            na = min(na, 0.9 * math.sin(math.atan(math.sqrt(1 - e * e) / e)))
        spec.update(obj_t=d_obj, surfaces=[dict(type='standard', radius=R, conic=-e * e, medium='mirror', t=-d_img, stop=True),
                                           dict(type='standard', radius='inf', t=0.0, medium='air')],
                    aperture=['objectNA', na], field_type='object_height', fields=[[0.0, 0, 0]])
        info.update(fno=1 / (2 * na), scale=a, image=[0.0, 0.0, -d_img], real=True)
    elif fam in ('cassegrain', 'gregorian'):
        f1 = L.loguniform(rng, 50, 1000)
        if fam == 'cassegrain':
            d = float(rng.uniform(0.55, 0.85) * f1)
            p = f1 - d
            q = float(rng.uniform(1.5, 6.0) * p)
            q = max(q, d * 1.05)
            e = (q + p) / (q - p)
            R2 = -2 * p * q / (q - p)
        else:
            d = float(rng.uniform(1.15, 1.5) * f1)
            p = d - f1
            q = float(rng.uniform(2.0, 8.0) * p)
            q = max(q, d * 1.05)
            e = (q - p) / (q + p)
            R2 = 2 * p * q / (p + q)
        epd = f1 / max(speed, 1.0)
        spec.update(obj_t='inf', surfaces=[dict(type='standard', radius=-2 * f1, conic=-1.0, medium='mirror', t=-d, stop=True),
                                           dict(type='standard', radius=R2, conic=-e * e, medium='mirror', t=q),
                                           dict(type='standard', radius='inf', t=0.0, medium='air')],
                    aperture=['EPD', epd], field_type='angle', fields=[[0.0, 0, 0]])
        info.update(fno=f1 * (q / p) / epd, scale=f1, image=[0.0, 0.0, -d + q], real=True)
    elif fam == 'plano-hyperbolic':
        n = float(rng.uniform(1.3, 4.0))
        glass = None
        if rng.random() < 0.4:
            # a catalogue (dispersive) glass, the lens designed for and evaluated at a wavelength that is NOT the
            # primary one: everything the analyses take from the medium must be taken at the evaluated wavelength
            g_ = L.GLASSES[int(rng.integers(len(L.GLASSES)))]
            glass = {'glass': g_[0], 'ref': g_[1]}
            n = float(L.medium_index(glass, wl))
            spec['wavelengths'] = [[round(float(wl + (0.08 if wl < 0.58 else -0.08)), 4), True], [wl, False]]
            info['dispersive_nonprimary'] = True
        R = -L.loguniform(rng, 5, 500)
        f = abs(R) / (n - 1)
        t = float(rng.uniform(0.05, 0.5) * abs(R))
        # aperture limited by the hyperbola's asymptote: tan(theta) < 1/sqrt(n^2-1) in glass
        epd = min(f / speed, 1.6 * abs(R) / math.sqrt(n * n - 1) * 0.6)
        c_, r_ = 1.0 / abs(R), epd / 2
        sag_rim = c_ * r_ * r_ / (1 + math.sqrt(1 + (n * n - 1) * c_ * c_ * r_ * r_))
        t = max(t, 1.1 * sag_rim + 0.01 * abs(R))       # positive edge thickness
        first_medium = glass or {'n': n}
        if glass is None and rng.random() < 0.35:
            # built with ANOTHER index, used once, then given the index that makes it stigmatic through set_index: what the
            # tracer remembers from the first use (media, paths) must not survive the edit
            first_medium = {'n': round(n * float(rng.uniform(0.85, 0.95)), 6)}
            info['edit_index'] = [1, n]
        spec.update(obj_t='inf', surfaces=[dict(type='standard', radius='inf', medium=first_medium, t=t, stop=True),
                                           dict(type='standard', radius=R, conic=-n * n, medium='air', t=f),
                                           dict(type='standard', radius='inf', t=0.0, medium='air')],
                    aperture=['EPD', epd], field_type='angle', fields=[[0.0, 0, 0]])
        info.update(fno=f / epd, scale=f, image=[0.0, 0.0, t + f], real=True, n=n)
    elif fam == 'ellipsoid-refracting-immersed':
        n = float(rng.uniform(1.3, 4.0))
        medium_ = None
        if rng.random() < 0.4:
            # the image lies INSIDE a catalogue (dispersive) glass and the system is designed for and evaluated at a
            # wavelength that is not the primary one: paths of chief and pupil rays to the reference sphere use the same index
            g_ = L.GLASSES[int(rng.integers(len(L.GLASSES)))]
            medium_ = {'glass': g_[0], 'ref': g_[1]}
            n = float(L.medium_index(medium_, wl))
            spec['wavelengths'] = [[round(float(wl + (0.08 if wl < 0.58 else -0.08)), 4), True], [wl, False]]
            info['dispersive_nonprimary'] = True
            info['image_in_dispersive_medium'] = True
        R = L.loguniform(rng, 5, 500)
        f = n * R / (n - 1)
        # semi-minor axis of the ellipse limits the aperture: b = R / sqrt(1 - 1/n^2) * ... use a safe fraction
        b = R / math.sqrt(1 - 1 / (n * n))
        epd = min(f / n / speed * 2, 1.6 * b * 0.6)
        spec.update(obj_t='inf', surfaces=[dict(type='standard', radius=R, conic=-1 / (n * n), medium=(medium_ or {'n': n}), t=f, stop=True),
                                           dict(type='standard', radius='inf', t=0.0, medium=(medium_ or {'n': n}))],
                    aperture=['EPD', epd], field_type='angle', fields=[[0.0, 0, 0]])
        info.update(fno=(f / n) / epd, scale=f, image=[0.0, 0.0, f], real=True, n=n)
    elif fam == 'sphere-mirror-centre':
        R = -L.loguniform(rng, 10, 1000)
        na = min(0.9, 1.0 / (2 * speed))
        spec.update(obj_t=abs(R), surfaces=[dict(type='standard', radius=R, medium='mirror', t=R, stop=True),
                                            dict(type='standard', radius='inf', t=0.0, medium='air')],
                    aperture=['objectNA', na], field_type='object_height', fields=[[0.0, 0, 0]])
        info.update(fno=1 / (2 * na), scale=abs(R), image=[0.0, 0.0, R], real=True)
    elif fam == 'sphere-refract-centre':
        n = float(rng.uniform(1.3, 4.0))
        R = -L.loguniform(rng, 10, 1000)
        na = min(0.9, 1.0 / (2 * speed))
        spec.update(obj_t=abs(R), surfaces=[dict(type='standard', radius=R, medium={'n': n}, t=abs(R) * 0.3, stop=True),
                                            dict(type='standard', radius='inf', t=0.0, medium={'n': n})],
                    aperture=['objectNA', na], field_type='object_height', fields=[[0.0, 0, 0]])
        info.update(fno=1 / (2 * na), scale=abs(R), image=[0.0, 0.0, R], real=False, n1=1.0, n2=n)
    elif fam == 'paraboloid-aplanatic':
        # catadioptric: a paraboloid brings collimated light to its focus; on the way (light now travelling towards -z) a
        # spherical refracting surface whose aplanatic point is that focus takes the beam into a medium n2 - stigmatic at
        # any aperture with sin U <= 1/n2, the image is real and lies inside the medium
        f = L.loguniform(rng, 10, 1000)
        n2 = float(rng.uniform(1.3, 3.0))
        d = float(rng.uniform(0.2, 0.8) * f)
        Ra = (f - d) / (1 + n2)                 # |R| of the sphere: focus at |R| (1 + n2) behind its vertex
        s2 = Ra * (1 + 1 / n2)
        # geometric limits: sin U <= 1/n2 (the ray reaches the sphere at all), and the point of incidence, at polar angle
        # I + U = asin(n2 sin U) + U from the vertex, must stay on the vertex hemisphere the prescription describes
        Umax = math.asin(0.85 / n2)
        lo_, hi_ = 0.0, Umax
        if math.asin(n2 * math.sin(Umax)) + Umax > math.radians(80):
            for _ in range(60):
                mid = 0.5 * (lo_ + hi_)
                if math.asin(n2 * math.sin(mid)) + mid > math.radians(80):
                    hi_ = mid
                else:
                    lo_ = mid
            Umax = lo_
        hmax = 2 * f * math.tan(0.5 * Umax)
        epd = min(f / speed, 2 * hmax)
        spec.update(obj_t='inf', surfaces=[dict(type='standard', radius=-2 * f, conic=-1.0, medium='mirror', t=-d, stop=True),
                                           dict(type='standard', radius=-Ra, medium={'n': n2}, t=-s2),
                                           dict(type='standard', radius='inf', t=0.0, medium={'n': n2})],
                    aperture=['EPD', epd], field_type='angle', fields=[[0.0, 0, 0]])
        info.update(fno=f / epd, scale=f, image=[0.0, 0.0, -d - s2], real=True, n=n2)
    elif fam == 'aplanatic-after-mirror':
        # the aplanatic pair of a refracting sphere seen through a flat folding mirror: the light meets the sphere while
        # travelling towards -z (virtual image, decided on the record of the sphere)
        n1 = float(rng.uniform(1.0, 3.0))
        n2 = float(rng.uniform(1.0, 4.0))
        if abs(n1 - n2) < 0.05:
            n2 = n1 + 0.3
        Ra = L.loguniform(rng, 10, 1000)
        s = Ra * (1 + n2 / n1)
        s2 = Ra * (1 + n1 / n2)
        d0 = float(rng.uniform(0.2, 0.8) * s)
        d1 = s - d0
        na_max = 0.85 * n1 * min(1.0, n2 / n1) * (Ra / s) * 0.9
        na = min(na_max, n1 / (2 * speed))
        spec.update(obj_t=d0, obj_n=({'n': n1} if n1 != 1.0 else 'air'),
                    surfaces=[dict(type='standard', radius='inf', medium='mirror', t=-d1, stop=True),
                              dict(type='standard', radius=Ra, medium={'n': n2}, t=-Ra * 0.2),
                              dict(type='standard', radius='inf', t=0.0, medium={'n': n2})],
                    aperture=['objectNA', na], field_type='object_height', fields=[[0.0, 0, 0]])
        info.update(fno=n1 / (2 * na), scale=Ra, image=[0.0, 0.0, -d1 + s2], real=False, n1=n1, n2=n2, vsurf=2)
    else:  # aplanatic points of a spherical refracting surface; object inside medium n1, real object in front (R < 0)
        n1 = float(rng.uniform(1.3, 4.0))
        n2 = float(rng.uniform(1.0, 4.0))
        if abs(n1 - n2) < 0.05:
            n2 = n1 + 0.3
        R = -L.loguniform(rng, 10, 1000)
        s = abs(R) * (1 + n2 / n1)          # object distance in front of the vertex
        s2 = abs(R) * (1 + n1 / n2)         # (virtual) image distance in front of the vertex
        # object-space NA limited by total internal reflection when n1 > n2 (sin U <= n2/n1) and by the sphere itself
        na_max = 0.85 * n1 * min(1.0, n2 / n1) * (abs(R) / s) * 0.9
        na = min(na_max, n1 / (2 * speed))
        spec.update(obj_t=s, obj_n={'n': n1},
                    surfaces=[dict(type='standard', radius=R, medium={'n': n2}, t=abs(R) * 0.2, stop=True),
                              dict(type='standard', radius='inf', t=0.0, medium={'n': n2})],
                    aperture=['objectNA', na], field_type='object_height', fields=[[0.0, 0, 0]])
        info.update(fno=n1 / (2 * na), scale=abs(R), image=[0.0, 0.0, -s2], real=False, n1=n1, n2=n2)
    nr = int(rng.integers(3, 9))
    psf = [[64, 256], [64, 255], [33, 128], [32, 129], [65, 256]][int(rng.integers(5))]
    return dict(spec=spec, info=info, rings=nr, wl=wl, psf=psf)


def check_case(case, rec):
    spec, info = case['spec'], case['info']
    fam = info['family']
    rec.cls(f'family-{fam}', 'fast(f/<=1.5)' if info['fno'] <= 1.5 else 'moderate' if info['fno'] <= 4 else 'slow')
    lens = L.build(spec)
    wl = case['wl']
    if info.get('immersed'):
        rec.cls('mirror-system-immersed')
    if info.get('edit_conic'):
        rec.cls('made-stigmatic-by-set_conic-after-first-use')
        lens.trace(0.0, 0.0, wl, 3, 'hexapolar')
        lens.set_conic(float(info['edit_conic'][1]), int(info['edit_conic'][0]))
    if info.get('edit_index'):
        rec.cls('made-stigmatic-by-set_index-after-first-use')
        lens.trace(0.0, 0.0, wl, 3, 'hexapolar')
        from optiland.wavefront import Wavefront as _WF
        _WF(lens, fields=[(0.0, 0.0)], wavelengths=[wl], num_rays=3, distribution='hexapolar')
        lens.set_index(float(info['edit_index'][1]), int(info['edit_index'][0]))
    f = info['scale']
    img = np.array(info['image'], dtype=float)
    if info['fno'] <= 4:
        rec.nontrivial_case()
    rays = lens.trace(0.0, 0.0, wl, case['rings'], 'hexapolar')
    sg = lens.surface_group
    n_rays = sg.x.shape[1]
    rec.event('rays_traced', n_rays)
    if info['real']:
        x, y, z, opd = sg.x[-1], sg.y[-1], sg.z[-1], sg.opd[-1]
        ok = np.isfinite(x) & np.isfinite(y) & np.isfinite(opd)
        # the apertures generated here stay inside the geometric limit of each configuration: every launched ray exists
        rec.check('rays-exist', bool(ok.all()), msg=f'{fam}: {int((~ok).sum())} of {len(ok)} rays of a stigmatic system inside '
                                                    f'its geometric aperture limit were lost (f/{info["fno"]:.2f})')
        if ok.sum() < 2:
            rec.cls('too-few-rays-exist')
            return
        rec.event('rays_reaching_image', int(ok.sum()))
        d = np.sqrt((x[ok] - img[0]) ** 2 + (y[ok] - img[1]) ** 2 + (z[ok] - img[2]) ** 2)
        rec.check('rays-meet-image-point', bool(np.all(d <= 1e-9 * f)), resid=float(np.max(d)), tol=1e-9 * f,
                  msg=f'{fam}: a traced ray misses the image point by {np.max(d):.3e} (scale {f:.3g}, f/{info["fno"]:.2f})',
                  detail=dict(worst=float(np.max(d))))
        # equal optical paths from the incoming plane wavefront / object point to the image
        spread = float(np.max(opd[ok]) - np.min(opd[ok]))
        rec.check('equal-optical-paths', spread <= 1e-9 * max(f, float(np.max(np.abs(opd[ok])))), resid=spread, tol=1e-9 * f,
                  msg=f'{fam}: optical paths to the image differ by {spread:.3e}')
        # the same bundle written by hand (RealRays through SurfaceGroup.trace), with the arrays a caller would naturally
        # share: one zeros array for both transverse direction cosines of a collimated bundle, or for both transverse
        # coordinates of an axial point source
        from optiland.rays import RealRays
        n0 = sg.x.shape[1]
        zer = np.zeros(n0)
        x0, y0, z0 = sg.x[0].copy(), sg.y[0].copy(), sg.z[0].copy()
        L0, M0, N0 = sg.L[0].copy(), sg.M[0].copy(), sg.N[0].copy()
        if not (np.any(L0) or np.any(M0)):
            L0 = M0 = zer
            rec.cls('hand-made-bundle-shared-direction-zeros')
        if not (np.any(x0) or np.any(y0)):
            x0 = y0 = zer
            rec.cls('hand-made-bundle-shared-position-zeros')
        hb = RealRays(x0, y0, z0, L0, M0, N0, np.ones(n0), np.full(n0, wl))
        lens.surface_group.trace(hb)
        xh, yh, zh, oh = sg.x[-1], sg.y[-1], sg.z[-1], sg.opd[-1]
        okh = np.isfinite(xh) & np.isfinite(yh) & np.isfinite(oh)
        dh = np.sqrt((xh[okh] - img[0]) ** 2 + (yh[okh] - img[1]) ** 2 + (zh[okh] - img[2]) ** 2) if okh.any() else np.array([np.inf])
        rec.check('rays-meet-image-point', bool(okh.sum() == ok.sum() and np.all(dh <= 1e-9 * f)), resid=float(np.max(dh)), tol=1e-9 * f,
                  key='rays-meet-image-point:hand-made-bundle',
                  msg=f'{fam}: a ray of the hand-made RealRays bundle misses the image point by {np.max(dh):.3e} '
                      f'({int(okh.sum())} of {int(ok.sum())} rays arrive)')
        if okh.any():
            sph = float(np.max(oh[okh]) - np.min(oh[okh]))
            rec.check('equal-optical-paths', sph <= 1e-9 * max(f, float(np.max(np.abs(oh[okh])))), resid=sph, tol=1e-9 * f,
                      key='equal-optical-paths:hand-made-bundle',
                      msg=f'{fam}: optical paths of the hand-made RealRays bundle differ by {sph:.3e}')
        if ok.all():
            from optiland.wavefront import Wavefront
            lens.trace_generic(0.0, 0.0, 0.21, -0.45, wl)       # an unrelated single-ray trace in the records: must not matter
            wf = Wavefront(lens, fields=[(0.0, 0.0)], wavelengths=[wl], num_rays=case['rings'], distribution='hexapolar')
            W = np.asarray(wf.data[0][0][0], dtype=float)
            fin = np.isfinite(W)
            w = float(np.max(np.abs(W[fin]))) if fin.any() else float('inf')
            # 'to numerical precision': 1e-6 waves, or 3e-12 of the optical path expressed in waves for long systems
            tol_w = max(1e-6, 3e-12 * float(np.max(np.abs(opd[ok]))) / (wl * 1e-3))
            rec.check('wavefront-zero', bool(fin.all()) and w <= tol_w, resid=w, tol=tol_w,
                      msg=f'{fam}: reported wavefront error {w:.3e} waves for a stigmatic system')
            if case['rings'] >= 6:
                from optiland.psf import FFTPSF
                ns, gs = case.get('psf', [64, 256])
                rec.cls(f'psf-{ns}/{gs}')
                psf = FFTPSF(lens, (0.0, 0.0), wl, num_rays=ns, grid_size=gs)
                st = float(psf.strehl_ratio())
                rec.check('strehl-one', abs(st - 1) <= 1e-6, resid=abs(st - 1), tol=1e-6,
                          msg=f'{fam}: Strehl ratio {st!r} for a stigmatic system')
    else:
        # virtual image: decide on the surface record by back-extension of the refracted rays
        vs = int(info.get('vsurf', 1))
        x, y, z = sg.x[vs], sg.y[vs], sg.z[vs]
        Ld, Md, Nd, opd = sg.L[vs], sg.M[vs], sg.N[vs], sg.opd[vs]
        ok = np.isfinite(x) & np.isfinite(Ld)
        rec.check('rays-exist', bool(ok.all()), msg=f'{fam}: {int((~ok).sum())} of {len(ok)} rays inside the geometric aperture '
                                                    f'limit were lost at the surface')
        if ok.sum() < 2:
            rec.cls('too-few-rays-exist')
            return
        P = np.stack([x[ok], y[ok], z[ok]], -1)
        D = np.stack([Ld[ok], Md[ok], Nd[ok]], -1)
        v = img[None, :] - P
        dist = np.linalg.norm(v - np.sum(v * D, axis=1)[:, None] * D, axis=1)
        rec.check('virtual-image-back-extension', bool(np.all(dist <= 1e-9 * f)), resid=float(np.max(dist)), tol=1e-9 * f,
                  msg=f'{fam}: back-extended refracted rays miss the (virtual) image point by {np.max(dist):.3e}')
        path = opd[ok] - info['n2'] * np.linalg.norm(v, axis=1)
        spread = float(np.max(path) - np.min(path))
        rec.check('virtual-image-equal-paths', spread <= 1e-9 * f, resid=spread, tol=1e-9 * f,
                  msg=f'{fam}: OPL(object->surface) - n\'|surface->image| varies by {spread:.3e}')
    rec.sample(dict(case=case, image_record=dict(x=sg.x[-1][:3], y=sg.y[-1][:3], opd=sg.opd[-1][:3])))
