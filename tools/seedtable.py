#!/usr/bin/env python3
"""Regenerate the table of seeded breaks (DESIGN.md section 5) from seeded/*/meta.json."""
import json, glob, os, sys

rows = []
for d in sorted(glob.glob(os.path.join(os.path.dirname(__file__), '..', 'seeded', '*'))):
    mp = os.path.join(d, 'meta.json')
    if not os.path.exists(mp):
        continue
    m = json.load(open(mp))
    if m.get('retired'):
        continue
    c = m.get('confirmed_by_verif', {})

    def cut(s, n):
        s = ' '.join(str(s).split()).replace('|', '/')
        return s if len(s) <= n else s[:n - 1] + '…'
    rows.append((os.path.basename(d), m.get('property', '?'), cut(m.get('summary', ''), 150), cut(m.get('needs', ''), 110),
                 ','.join(c.get('caught_by') or ([c['check']] if c.get('caught') and c.get('check') else [])) or '—', 'yes' if c.get('missed_by_first_version') else ''))
print('| seeded break | breaks | change (one sentence) | needs, to manifest | caught by | missed by the first version of the check |')
print('|---|---|---|---|---|---|')
for r in rows:
    print('| ' + ' | '.join(r) + ' |')
print(f'\n{len(rows)} seeded breaks; {sum(1 for r in rows if r[5])} of them were missed by the first version of a check.', file=sys.stderr)
