"""C02 -- every traced ray obeys Snell / reflection on the prescribed surface.

Law monitor over the recorded event log (surface_group.x/y/z/L/M/N/opd after a trace)
plus a closed-form reference tracer for plane/conic lenses.  Shapes, frames and the
laws are written independently in vkit/oracles/shapes.py.
"""
import math

import numpy as np

from vkit import lens as L
from vkit import monitors, suite_monitor
from vkit.oracles import shapes as S

ID = 'C02'
RULE = ('random lenses of 1-9 interfaces (plane, sphere, conic, even asphere, xy-polynomial, Chebyshev; refracting '
        'and reflecting; tilted and decentred; ideal and catalogue media) x fields along y x pupil points on the '
        'disk incl. the rim, with over-sized apertures so that some rays miss or are totally reflected; plus the '
        'bundled samples; each (ray, surface) record is one event checked against the laws; a case is non-trivial '
        'when it has >= 1 powered surface and >= 1 ray reached the image; distinct = distinct spec+rays hash')
TIERS = {'quick': dict(shards=8, cases=60), 'thorough': dict(shards=16, cases=2500)}
MIN_NONTRIVIAL = {'quick': 200, 'thorough': 2000}
MIN_EVALS = {'on-surface': 300, 'snell': 300, 'unit-direction': 300, 'half-space': 300, 'optical-path': 300,
             'on-incoming-ray': 300, 'reference-agreement': 30, 'nonfinite-stays-nonfinite': 30}
ASSUMPTIONS = ['indices of catalogue media are taken from the library material objects (C18 checks those)',
               'sag, analytic gradient, frame transforms and the conic reference tracer are written independently '
               '(numpy.polynomial.chebyshev for Chebyshev terms)',
               'on-surface tolerance for iterated shapes is 2x the surface\'s own intersection tolerance; every '
               'other law is checked at 1e-9 because both sides evaluate the normal at the recorded point']
ANCHORS = [('optiland.surfaces.standard_surface', 'Surface._trace_real'),
           ('optiland.rays.real_rays', 'RealRays.refract'), ('optiland.rays.real_rays', 'RealRays.reflect'),
           ('optiland.rays.real_rays', 'RealRays._align_surface_normal'),
           ('optiland.geometries.standard', 'StandardGeometry.distance'),
           ('optiland.geometries.standard', 'StandardGeometry.surface_normal'),
           ('optiland.geometries.plane', 'Plane.distance'),
           ('optiland.geometries.newton_raphson', 'NewtonRaphsonGeometry.distance'),
           ('optiland.geometries.even_asphere', 'EvenAsphere._surface_normal'),
           ('optiland.geometries.polynomial', 'PolynomialGeometry._surface_normal'),
           ('optiland.geometries.chebyshev', 'ChebyshevPolynomialGeometry._surface_normal'),
           ('optiland.coordinate_system', 'CoordinateSystem.localize'),
           ('optiland.coordinate_system', 'CoordinateSystem.globalize')]


def fixed_cases(tier):
    from vkit import samples
    suite = dict(kind='repo-suite', tests=(['tests'] if tier == 'thorough' else ['tests/test_rays.py', 'tests/test_optic.py', 'tests/test_standard_surface.py', 'tests/test_wavelength.py', 'tests/test_coatings.py']))
    return [suite] + [dict(kind='sample', name=n) for n in samples.names()]


def shard_setup(rec):
    log = monitors.MonitorLog()
    rec._mlog = log
    return monitors.install_contracts(log, which=('unitdir',))


def shard_finish(rec):
    log = rec._mlog
    for name, n in log.evals.items():
        bad = [b for b in log.bad if b[0] == name]
        rec.check(name, not bad, n=n, msg=f'{name} broken (non-unit direction out of RealRays.refract/reflect): {bad[:2]}')


def gen_case(rng, tier, i):
    r = rng.random()
    cheb1 = r < 0.12
    a = L.loguniform(rng, 0.3, 0.55) if cheb1 else L.loguniform(rng, 1.0, 15.0)
    kw = dict(semi=a, asphere_p=0.2, glass_p=0.25, immersed_p=0.05, neg_power_p=0.2, image='any',
              nsurf=(1, 9), conic_p=0.35)
    if rng.random() < 0.25:
        kw['mirrors_p'] = 0.3
    spec, info = L.gen_axial(rng, **kw)
    classes = []
    mode = rng.random()
    if cheb1:
        classes = L.decorate(spec, rng, a, tilt_p=0.2, decenter_p=0.2, freeform_p=0.5, cheb_norm1=True)
    elif mode < 0.55:
        classes = L.decorate(spec, rng, a)
    # hostile class: near-paraboloid surface x near-axial rays (conic intersection cancellation)
    hostile = False
    if not cheb1 and rng.random() < 0.1:
        for s in spec['surfaces'][:-1]:
            if s.get('type', 'standard') == 'standard' and s.get('radius') != 'inf':
                s['conic'] = -1.0 if rng.random() < 0.7 else -1.0 + float(rng.normal() * 1e-9)
                hostile = True
                break
    # rays
    n = 24
    rr = np.sqrt(rng.uniform(0, 1, n))
    th = rng.uniform(0, 2 * np.pi, n)
    rr[:4] = 1.0                       # rim
    Px, Py = rr * np.cos(th), rr * np.sin(th)
    Hy = np.full(n, float(rng.choice([0.0, 1.0, -1.0, rng.uniform(-1, 1)])))
    if hostile:
        Hy[:] = 0.0
        if spec['field_type'] == 'angle' and rng.random() < 0.5:
            spec['fields'] = [[0.0, 0, 0], [float(10 ** rng.uniform(-7, -4)), 0, 0]]
            Hy[:] = 1.0
        Px[:12] *= 1e-6
        Py[:12] *= 1e-6
    over = 1.0
    if rng.random() < 0.2:
        over = float(rng.uniform(1.5, 4.0))   # over-sized aperture: misses and TIR
        spec['aperture'][1] = spec['aperture'][1] * over if spec['aperture'][0] != 'imageFNO' \
            else spec['aperture'][1] / over
        if spec['aperture'][0] == 'objectNA':
            spec['aperture'][1] = min(spec['aperture'][1], 0.95)
    wl = float(spec['wavelengths'][int(rng.integers(len(spec['wavelengths'])))][0])
    case = dict(kind='random', spec=spec, info=info, classes=classes + (['over-aperture'] if over > 1 else []) +
                (['hostile-paraboloid-axial'] if hostile else []) + (['cheb-norm-1'] if cheb1 else []),
                Hy=Hy.tolist(), Px=Px.tolist(), Py=Py.tolist(), wl=wl)
    if not hostile and not cheb1 and rng.random() < 0.2:
        # the lens is traced once, THEN edited through the public setters, then judged against the edited prescription
        K = len(spec['surfaces'])
        edits = []
        for _ in range(int(rng.integers(1, 3))):
            k = int(rng.integers(1, K))
            su = spec['surfaces'][k - 1]
            kind = str(rng.choice(['index', 'radius', 'thickness', 'conic']))
            curved = su.get('radius', 'inf') != 'inf'
            if kind == 'index' and su.get('medium') != 'mirror' and spec['surfaces'][k].get('medium') != 'mirror':
                edits.append(['index', k, round(float(rng.uniform(1.3, 1.95)), 6)])
            elif kind == 'radius' and su.get('type', 'standard') in ('standard', 'even_asphere') and curved:
                edits.append(['radius', k, round(float(su['radius']) * float(rng.uniform(0.7, 1.5)), 6)])
            elif kind == 'conic' and su.get('type', 'standard') in ('standard', 'even_asphere') and curved:
                edits.append(['conic', k, round(float(rng.uniform(-1.5, 0.5)), 6)])
            elif kind == 'thickness':
                edits.append(['thickness', k, round(float(su['t']) * float(rng.uniform(0.5, 1.5)), 6)])
        if edits:
            case['edits'] = edits
            case['classes'] = case['classes'] + ['edited-after-first-use']
    return case


def lib_media(lens, wl):
    out = []
    for s in lens.surface_group.surfaces:
        out.append(float(np.ravel(s.material_post.n(wl))[0]))
    return out


def shape_from_lib(surf):
    """Spec-style dict for a sample lens surface, read through public attributes."""
    from optiland.geometries import Plane, StandardGeometry, EvenAsphere, PolynomialGeometry, \
        ChebyshevPolynomialGeometry
    g = surf.geometry
    d = dict(dx=float(g.cs.x), dy=float(g.cs.y), rx=float(g.cs.rx), ry=float(g.cs.ry), rz=float(g.cs.rz))
    if isinstance(g, Plane):
        d.update(type='standard', radius='inf')
    elif type(g) is StandardGeometry:
        d.update(type='standard', radius=float(g.radius), conic=float(g.k))
    elif type(g) is EvenAsphere:
        d.update(type='even_asphere', radius=float(g.radius), conic=float(g.k), coeffs=[float(c) for c in g.c],
                 tol=g.tol)
    elif type(g) is PolynomialGeometry:
        d.update(type='polynomial', radius=float(g.radius), conic=float(g.k), coeffs=np.asarray(g.c).tolist(),
                 tol=g.tol)
    elif type(g) is ChebyshevPolynomialGeometry:
        d.update(type='chebyshev', radius=float(g.radius), conic=float(g.k), coeffs=np.asarray(g.c).tolist(),
                 norm=[g.norm_x, g.norm_y], tol=g.tol)
    d['medium'] = 'mirror' if surf.is_reflective else 'x'
    return d


def asbuilt_localize(P, D, s, z):
    """As-built replica of CoordinateSystem.localize (same operations, same expression order as the library), so that
    the textbook-quadratic replica below sees bit-identical inputs also on tilted surfaces. NOT an oracle."""
    x, y, zz = P[:, 0] - s.get('dx', 0.0), P[:, 1] - s.get('dy', 0.0), P[:, 2] - z
    Lc, Mc, Nc = D[:, 0].copy(), D[:, 1].copy(), D[:, 2].copy()
    rx, ry, rz = s.get('rx', 0.0), s.get('ry', 0.0), s.get('rz', 0.0)
    if rx:
        a = -rx
        y, zz = y * np.cos(a) - zz * np.sin(a), y * np.sin(a) + zz * np.cos(a)
        Mc, Nc = Mc * np.cos(a) - Nc * np.sin(a), Mc * np.sin(a) + Nc * np.cos(a)
    if ry:
        a = -ry
        x, zz = x * np.cos(a) + zz * np.sin(a), -x * np.sin(a) + zz * np.cos(a)
        Lc, Nc = Lc * np.cos(a) + Nc * np.sin(a), -Lc * np.sin(a) + Nc * np.cos(a)
    if rz:
        a = -rz
        x, y = x * np.cos(a) - y * np.sin(a), x * np.sin(a) + y * np.cos(a)
        Lc, Mc = Lc * np.cos(a) - Mc * np.sin(a), Lc * np.sin(a) + Mc * np.cos(a)
    return np.stack([x, y, zz], -1), np.stack([Lc, Mc, Nc], -1)


def textbook_conic_distance(P, D, R, k):
    """As-built replica of the known mechanism `conic-intersection-cancellation` (NOT an oracle)."""
    x, y, z = P[:, 0], P[:, 1], P[:, 2]
    Lc, Mc, Nc = D[:, 0], D[:, 1], D[:, 2]
    with np.errstate(all='ignore'):
        a = k * Nc ** 2 + Lc ** 2 + Mc ** 2 + Nc ** 2
        b = (2 * k * Nc * z + 2 * Lc * x + 2 * Mc * y - 2 * Nc * R + 2 * Nc * z)
        c = (k * z ** 2 - 2 * R * z + x ** 2 + y ** 2 + z ** 2)
        d = b ** 2 - 4 * a * c
        t1 = (-b + np.sqrt(d)) / (2 * a)
        t2 = (-b - np.sqrt(d)) / (2 * a)
        t1[t1 < 0] = np.inf
        t2[t2 < 0] = np.inf
        z1 = z + t1 * Nc
        z2 = z + t2 * Nc
        t = np.where(np.abs(z1) <= np.abs(z2), t1, t2)
        t[a == 0] = -c[a == 0] / b[a == 0]
    return t


def classify_off_surface(sh, s, fr, P0, D0, pl_rec, near_par, tol_s):
    """Mechanism key for recorded points that are not on the prescribed sheet (class + explanation)."""
    p0l, d0l = fr.to_local_p(P0), fr.to_local_d(D0)
    if sh.is_conic():
        if near_par:
            a_coef = np.abs((1 + sh.k) * d0l[:, 2] ** 2 + d0l[:, 0] ** 2 + d0l[:, 1] ** 2)
            # (the leading coefficient only has to be small, not tiny: with a = 2e-5 the textbook formula still loses
            #  eight digits; the explanation itself is verified bit for bit just below)
            if np.all(a_coef < 1e-3):
                # as-built model of the known mechanism: the textbook quadratic evaluated exactly as the
                # library does (same expression order, same inputs: untilted frame = plain subtraction)
                Pl_, Dl_ = asbuilt_localize(P0, D0, s, float(fr.o[2]))
                t_ab = textbook_conic_distance(Pl_, Dl_, S.fnum(s['radius']), sh.k)
                pred = Pl_ + t_ab[:, None] * Dl_
                tilted_ = any(s.get(q) for q in ('rx', 'ry', 'rz'))
                if np.all(np.linalg.norm(pred - pl_rec, axis=1) <= (1e-9 if tilted_ else 1e-12) * (1 + np.abs(t_ab))):
                    return 'on-surface:conic-intersection-cancellation'
                return 'on-surface:unexplained'
        # full quadric c(x^2+y^2+(1+k)z^2) - 2z = 0 satisfied, but not the vertex sheet -> far-sheet root
        x, y, z = pl_rec[:, 0], pl_rec[:, 1], pl_rec[:, 2]
        F = sh.c * (x * x + y * y + (1 + sh.k) * z * z) - 2 * z
        # (the vertex-sheet root is behind the ray, absent, or farther from the vertex plane than the other one)
        if np.all(np.abs(F) <= 1e-7 * (1 + np.abs(z))):
            return 'on-surface:conic-far-sheet-root'
        return 'on-surface:unexplained'
    # iterated shapes: no open known mechanism (the unchecked-iteration defect was repaired, see known_findings.json)
    return 'on-surface:unexplained'


def check_case(case, rec):
    if case['kind'] == 'repo-suite':
        # the repository's own tests as one more workload for the contract monitor (unit direction after refract/reflect)
        suite_monitor.record(rec, suite_monitor.run(('unitdir',), case['tests']), ['C02.unit-direction'])
        return
    if case['kind'] == 'sample':
        from vkit import samples
        lens = samples.make(case['name'])
        sg = lens.surface_group
        zs = [float(np.ravel(p)[0]) for p in sg.positions]
        surfs = [shape_from_lib(s) for s in sg.surfaces[1:]]
        wl = float(lens.primary_wavelength)
        rng = np.random.default_rng(abs(hash(case['name'])) % (2 ** 32))
        n = 24
        rr = np.sqrt(rng.uniform(0, 1, n)); th = rng.uniform(0, 2 * np.pi, n)
        rr[:4] = 1.0
        Px, Py = rr * np.cos(th), rr * np.sin(th)
        Hy = np.full(n, 1.0); Hy[: n // 2] = 0.0
        rec.cls('sample')
        classes = []
    else:
        spec = case['spec']
        lens = L.build(spec)
        wl = case['wl']
        Px, Py, Hy = np.array(case['Px']), np.array(case['Py']), np.array(case['Hy'])
        if case.get('edits'):
            import copy
            try:
                lens.trace_generic(np.zeros_like(Hy), Hy.copy(), Px.copy(), Py.copy(), wl)
            except ValueError as e:
                if 'Chebyshev input coordinates' in str(e):
                    rec.cls('chebyshev-domain-error-skipped')
                    return
                raise
            spec = copy.deepcopy(spec)
            for kind_, k_, v_ in case['edits']:
                su_ = spec['surfaces'][k_ - 1]
                if kind_ == 'index':
                    lens.set_index(v_, k_); su_['medium'] = {'n': v_}
                elif kind_ == 'radius':
                    lens.set_radius(v_, k_); su_['radius'] = v_
                elif kind_ == 'conic':
                    lens.set_conic(v_, k_); su_['conic'] = v_
                else:
                    lens.set_thickness(v_, k_); su_['t'] = v_
                rec.event('edits_applied')
        zs = L.vertex_positions(spec)
        surfs = spec['surfaces']
        classes = case.get('classes', [])
        rec.cls(*(classes or ['axial-plain']))
        rec.cls(*L.class_names(case['info']))
    nmed = lib_media(lens, wl)
    try:
        lens.trace_generic(np.zeros_like(Hy), Hy.copy(), Px.copy(), Py.copy(), wl)
    except ValueError as e:
        if 'Chebyshev input coordinates' in str(e):
            rec.cls('chebyshev-domain-error-skipped')   # documented input restriction of that surface type
            return
        raise
    sg = lens.surface_group
    X, Y, Z, Ld, Md, Nd, OPD = sg.x, sg.y, sg.z, sg.L, sg.M, sg.N, sg.opd
    K = len(surfs)
    if X.shape[0] != K + 1:
        rec.check('record-per-surface', False, msg=f'{X.shape[0]} records for {K + 1} surfaces')
        return
    Pall = np.stack([X, Y, Z], axis=-1)     # (K+1, N, 3)
    Dall = np.stack([Ld, Md, Nd], axis=-1)
    posfin = np.all(np.isfinite(Pall), axis=-1)      # "reported as non-finite" = the recorded point is non-finite
    fin = posfin & np.all(np.isfinite(Dall), axis=-1) & np.isfinite(OPD)
    scale_len = max(1.0, float(np.nanmax(np.abs(np.where(np.isfinite(Pall), Pall, 0)))))
    conic_only = all(s.get('type', 'standard') == 'standard' for s in surfs)
    n_img = int(np.sum(fin[-1]))
    powered = sum(1 for s in surfs[:-1] if s.get('radius', 'inf') != 'inf')
    if powered >= 1 and n_img >= 1:
        rec.nontrivial_case(extra='rays')
    hostile = 'hostile-paraboloid-axial' in classes

    # --- reference tracer (planes / conics), started from the library's own launch record ---
    ref_ok = conic_only and bool(np.all(fin[0]))
    if ref_ok:
        P = Pall[0].copy(); D = Dall[0].copy(); opd = np.zeros(P.shape[0])
        refP, refD, refO = [P.copy()], [D.copy()], [opd.copy()]
        flagged = np.zeros(P.shape[0], dtype=bool)   # rays whose divergence from the reference was already reported
        cancel_rays = np.zeros(P.shape[0], dtype=bool)   # rays whose deviation the as-built cancellation replica reproduces exactly
    cancel_explained = False
    for k in range(1, K + 1):
        s = surfs[k - 1]
        sh = S.Shape(s)
        fr = S.Frame(s.get('dx', 0.0), s.get('dy', 0.0), zs[k], s.get('rx', 0.0), s.get('ry', 0.0), s.get('rz', 0.0))
        n1, n2 = nmed[k - 1], nmed[k]
        is_mirror = s.get('medium') == 'mirror'
        v = fin[k] & fin[k - 1]
        # a ray that was non-finite must stay non-finite
        lost = ~posfin[k - 1]
        if lost.any():
            bad = lost & posfin[k]
            rec.check('nonfinite-stays-nonfinite', not bad.any(), n=int(lost.sum()),
                      msg=f'surface {k}: a ray without a path at surface {k - 1} has finite data again')
        shape_cls = s.get('type', 'standard') if s.get('radius', 'inf') != 'inf' or s.get('type', 'standard') != 'standard' else 'plane'
        tilted = any(s.get(q) for q in ('rx', 'ry', 'dx', 'dy'))
        if v.any():
            P0, D0, P1, D1 = Pall[k - 1][v], Dall[k - 1][v], Pall[k][v], Dall[k][v]
            nv = int(v.sum())
            rec.event('ray_surface_events', nv)
            rec.event(f'events-{shape_cls}{"-mirror" if is_mirror else ""}{"-tilted" if tilted else ""}', nv)
            pl = fr.to_local_p(P1)
            d0l, d1l = fr.to_local_d(D0), fr.to_local_d(D1)
            z, zx, zy = sh.sag_grad(pl[:, 0], pl[:, 1])
            tol_s = 1e-9 * scale_len if sh.is_conic() else 2.0 * float(s.get('tol', 1e-6))
            res = np.abs(pl[:, 2] - z)
            res = np.where(np.isfinite(res), res, np.inf)
            near_par = sh.is_conic() and sh.c != 0 and abs(1 + sh.k) < 1e-6
            key = None
            badm = res > tol_s
            if badm.any():
                key = classify_off_surface(sh, s, fr, P0[badm], D0[badm], pl[badm], near_par, tol_s)
            rec.check('on-surface', not badm.any(), key=key, resid=float(np.max(res)), tol=tol_s, n=nv,
                      msg=f'surface {k} ({shape_cls}): recorded point off the prescribed shape by {np.max(res):.3e}',
                      detail=dict(surface=k, shape=s, worst=float(np.max(res))))
            offkey = key.split(':', 1)[1] if key else None
            # unit direction
            nrm = np.abs(np.sum(D1 * D1, axis=1) - 1)
            rec.check('unit-direction', bool(np.all(nrm <= 1e-9)), resid=float(np.max(nrm)), tol=1e-9, n=nv,
                      msg=f'surface {k}: outgoing direction not unit ({np.max(nrm):.2e})')
            # on the incoming ray, forwards
            dP = P1 - P0
            t = np.sum(dP * D0, axis=1)
            cross = np.linalg.norm(dP - t[:, None] * D0, axis=1)
            tolr = (1e-9 if sh.is_conic() else 2.0 * float(s.get('tol', 1e-6))) * (1 + np.abs(t))
            okr = bool(np.all(cross <= tolr) and np.all(t >= -1e-9 * scale_len))
            rec.check('on-incoming-ray', okr, resid=float(np.max(cross / (1 + np.abs(t)))), tol=1e-9, n=nv,
                      key='on-incoming-ray' + (f':{offkey}' if offkey else ''),
                      msg=f'surface {k}: point not on the incoming ray (cross-track {np.max(cross):.2e}, min t {np.min(t):.2e})')
            # Snell / reflection with my own normal at the recorded point
            Nl = np.stack([zx, zy, -np.ones_like(zx)], axis=-1)
            Nl /= np.linalg.norm(Nl, axis=-1, keepdims=True)

            def law_resid(Nloc):
                if is_mirror:
                    want = d0l - 2 * np.sum(d0l * Nloc, axis=1)[:, None] * Nloc
                    return np.linalg.norm(d1l - want, axis=1)
                return np.linalg.norm(n1 * np.cross(d0l, Nloc) - n2 * np.cross(d1l, Nloc), axis=1) / max(n1, n2)
            good = np.all(np.isfinite(Nl), axis=1) | badm
            r = np.where(badm, 0.0, np.where(good, law_resid(Nl), np.inf))   # off-surface rays are judged by on-surface
            okl = bool(np.all(r <= 1e-9))
            keyl = None
            if not okl and sh.typ == 'chebyshev' and (sh.norm[0] != 1 or sh.norm[1] != 1):
                # as-built model of known mechanism: derivative terms lack the 1/norm chain-rule factor
                sh2 = S.Shape(dict(s, norm=[1.0, 1.0]))
                xn, yn = pl[:, 0] / sh.norm[0], pl[:, 1] / sh.norm[1]
                from numpy.polynomial import chebyshev as Ch
                _, bx, by = sh.base(pl[:, 0], pl[:, 1])
                C = sh.C
                zx2 = bx + (Ch.chebval2d(xn, yn, Ch.chebder(C, axis=0)) if C.shape[0] > 1 else 0)
                zy2 = by + (Ch.chebval2d(xn, yn, Ch.chebder(C, axis=1)) if C.shape[1] > 1 else 0)
                N2 = np.stack([zx2, zy2, -np.ones_like(bx)], axis=-1)
                N2 /= np.linalg.norm(N2, axis=-1, keepdims=True)
                r2 = law_resid(N2)
                keyl = 'snell:chebyshev-normal-norm-factor' if np.all(r2 <= 1e-9) else 'snell:unexplained'
            rec.check('snell', okl, key=keyl, resid=float(np.max(r)), tol=1e-9, n=nv,
                      msg=f'surface {k} ({shape_cls}{", mirror" if is_mirror else ""}): '
                          f'{"reflection" if is_mirror else "Snell"} residual {np.max(r):.3e}',
                      detail=dict(surface=k, shape=s, n1=n1, n2=n2))
            # half-space
            c0, c1 = np.sum(d0l * Nl, axis=1), np.sum(d1l * Nl, axis=1)
            okh = bool(np.all((c0 * c1 < 0) | badm)) if is_mirror else bool(np.all((c0 * c1 > 0) | badm))
            keyh = None
            if not okh and keyl == 'snell:chebyshev-normal-norm-factor':
                # same known mechanism: the direction was computed with the as-built normal N2
                a0, a1 = np.sum(d0l * N2, axis=1), np.sum(d1l * N2, axis=1)
                ok2 = bool(np.all((a0 * a1 < 0) | badm)) if is_mirror else bool(np.all((a0 * a1 > 0) | badm))
                keyh = 'half-space:chebyshev-normal-norm-factor' if ok2 else 'half-space:unexplained'
            rec.check('half-space', okh, key=keyh, n=nv, msg=f'surface {k}: outgoing direction in the wrong half-space')
            # optical path
            seg = np.linalg.norm(dP, axis=1)
            dopd = OPD[k][v] - OPD[k - 1][v]
            ro = np.abs(dopd - n1 * seg)
            tolo = 1e-9 * (1 + n1 * seg) if sh.is_conic() else 2.0 * float(s.get('tol', 1e-6)) * n1 + 1e-9 * (1 + n1 * seg)
            rec.check('optical-path', bool(np.all(ro <= tolo)), resid=float(np.max(ro / (1 + n1 * seg))), tol=1e-9, n=nv,
                      key='optical-path' + (f':{offkey}' if offkey else ''),
                      msg=f'surface {k}: recorded path differs from n x length by {np.max(ro):.3e}')
        if k == 1:
            rec.check('launch-path-zero', bool(np.all(OPD[0][fin[0]] == 0)), msg='accumulated path at launch not zero')
        # reference tracer step
        if ref_ok:
            pl0, dl0 = fr.to_local_p(P), fr.to_local_d(D)
            t = sh.intersect_conic(pl0, dl0)
            pl1 = pl0 + t[:, None] * dl0
            Nn = sh.normal(pl1[:, 0], pl1[:, 1])
            if is_mirror:
                d1 = S.reflect(dl0, Nn)
            else:
                d1 = S.refract(dl0, Nn, np.full(len(t), n1), np.full(len(t), n2))
            d1 = np.where(np.isfinite(t)[:, None], d1, np.nan)
            opd = opd + n1 * np.abs(t)
            P = fr.to_global_p(pl1); D = fr.to_global_d(d1)
            refP.append(P.copy()); refD.append(D.copy()); refO.append(opd.copy())
            reff = np.all(np.isfinite(P), axis=1) & np.all(np.isfinite(D), axis=1)
            libf = fin[k]
            both = reff & libf & ~flagged
            if both.any():
                e = max(float(np.max(np.abs(P[both] - Pall[k][both]))) / scale_len,
                        float(np.max(np.abs(D[both] - Dall[k][both]))),
                        float(np.max(np.abs(opd[both] - OPD[k][both]))) / scale_len)
                idx = np.where(both)[0]
                dev = np.maximum(np.maximum(np.max(np.abs(P[idx] - Pall[k][idx]), axis=1) / scale_len,
                                            np.max(np.abs(D[idx] - Dall[k][idx]), axis=1)),
                                 np.abs(opd[idx] - OPD[k][idx]) / scale_len)
                if hostile and sh.is_conic() and sh.c != 0 and abs(1 + sh.k) < 1e-6 and e > 1e-11:
                    # is the library's point what the textbook quadratic (known mechanism) gives from ITS OWN previous
                    # record, for exactly the rays that disagree with the reference?  (the replica is bit-exact, so the
                    # match is demanded at rounding level; rays explained here stay attributed to the mechanism further
                    # down the lens, where the lever arm may lift a sub-tolerance error above the tolerance)
                    mm = idx[dev > 1e-11]
                    if len(mm):
                        # (the library's own localisation, tilts included, then the textbook quadratic in its expression order)
                        Pl_, Dl_ = asbuilt_localize(Pall[k - 1][mm], Dall[k - 1][mm], s, float(fr.o[2]))
                        t_ab = textbook_conic_distance(Pl_, Dl_, S.fnum(s['radius']), sh.k)
                        pred = Pl_ + t_ab[:, None] * Dl_
                        a_small = np.abs((1 + sh.k) * Dl_[:, 2] ** 2 + Dl_[:, 0] ** 2 + Dl_[:, 1] ** 2) < 1e-3
                        tilted_ = any(s.get(q) for q in ('rx', 'ry', 'rz'))
                        hit = a_small & (np.linalg.norm(pred - fr.to_local_p(Pall[k][mm]), axis=1)
                                         <= (1e-9 if tilted_ else 1e-12) * (1 + np.abs(t_ab)))
                        cancel_rays[mm[hit]] = True
                        if np.all(hit[dev[dev > 1e-11] > 1e-8]) and np.any(dev > 1e-8):
                            cancel_explained = True
                # every ray above the tolerance is one whose deviation started at a surface where the known mechanism
                # reproduces the library's point exactly
                cancel = cancel_explained or (e > 1e-8 and bool(np.all(cancel_rays[idx[dev > 1e-8]])))
                rec.check('reference-agreement', e <= 1e-8, resid=e, tol=1e-8, n=int(both.sum()),
                          key='reference-agreement' + (':conic-intersection-cancellation' if cancel else ''),
                          msg=f'surface {k}: library differs from the closed-form reference tracer by {e:.3e}')
            # a ray WITHOUT an intersection must not even have a finite recorded point (whatever its path / direction say)
            no_hit = ~np.isfinite(t) & np.all(np.isfinite(pl0), axis=1) & np.all(np.isfinite(dl0), axis=1)
            only_lib = (libf | (no_hit & posfin[k])) & ~reff & ~flagged
            keyn = None
            if only_lib.any():
                x_, y_, z_ = fr.to_local_p(Pall[k][only_lib]).T
                Fq = sh.c * (x_ * x_ + y_ * y_ + (1 + sh.k) * z_ * z_) - 2 * z_
                prev_lib = np.all(np.isfinite(refP[k - 1][only_lib]), axis=1)
                if (not cancel_explained and hostile and sh.is_conic() and sh.c != 0 and abs(1 + sh.k) < 1e-6
                        and np.all(np.isfinite(Pall[k - 1][only_lib]))):
                    # the library's finite point IS what the textbook quadratic gives from its own previous record
                    # (bit-exact replica): with 1 + k = -2e-10 the reference finds only the other sheet, 1e10 away
                    mm_ = np.where(only_lib)[0]
                    Pl_, Dl_ = asbuilt_localize(Pall[k - 1][mm_], Dall[k - 1][mm_], s, float(fr.o[2]))
                    t_ab = textbook_conic_distance(Pl_, Dl_, S.fnum(s['radius']), sh.k)
                    pred = Pl_ + t_ab[:, None] * Dl_
                    tol_ = (1e-9 if any(s.get(q) for q in ('rx', 'ry', 'rz')) else 1e-12)
                    if np.all(np.linalg.norm(pred - fr.to_local_p(Pall[k][mm_]), axis=1) <= tol_ * (1 + np.abs(t_ab))):
                        cancel_explained = True
                keyn = 'nonfinite-when-no-path:' + ('conic-intersection-cancellation' if cancel_explained else
                                                    'conic-far-sheet-root' if (sh.c != 0 and prev_lib.all() and np.all(
                                                        np.abs(Fq) <= 1e-7 * (1 + np.abs(z_)))) else 'unexplained')
            rec.check('nonfinite-when-no-path', not only_lib.any(), n=int((~reff).sum()) or 1, key=keyn,
                      msg=f'surface {k}: finite record where the reference finds no intersection / no refracted ray')
            flagged |= only_lib
            only_ref = reff & ~libf
            if only_ref.any():
                rec.event('ref_finite_lib_nonfinite', int(only_ref.sum()))
            # continue the reference from the library's state where both are finite (avoid drift accumulation)
    rec.event('rays_traced', len(Hy))
    rec.sample(dict(case={k2: case[k2] for k2 in case if k2 != 'info'},
                    image_record=dict(x=X[-1][:4], y=Y[-1][:4], opd=OPD[-1][:4])))
