"""Independent third-order (Seidel) and first-order colour surface contributions.

Written from the textbook (W. T. Welford, "Aberrations of Optical Systems", ch. 8 and
10), sharing no code with optiland.  The formulas are evaluated on paraxial ray data
that the *caller* supplies (the property statement says "evaluated with the lens's
curvatures, indices and paraxial marginal and chief rays"), so this module contains no
ray tracing of its own.

Array layout (the library's): index k = 0 .. N-1 where 0 is the object record, N-1 the
image surface; optical surfaces are k = 1 .. N-2.
    c[k]    vertex curvature of surface k
    n[k]    refractive index of the medium AFTER surface k (unsigned, as a material gives it)
    mirror[k]  True when surface k reflects
    ya[k], yb[k]   marginal / chief ray height AT surface k   (yb[0] is not used)
    ua[k], ub[k]   marginal / chief ray slope (true geometric dy/dz) AFTER surface k;
                   index 0 = object-space slope
    dn[k]   n_short(k) - n_long(k), the dispersion of the medium after surface k

Sign convention of the oracle (Welford): a mirror reverses the sign of the index of every
following medium (n' = -n), axial separations after an odd number of mirrors are negative
and slopes stay geometric slopes.  With
    A = n i = n (u + h c)            refraction invariant of the marginal ray
    Abar = n (ubar + hbar c)         same for the chief ray
    H = n (hbar u - h ubar)          Lagrange invariant (only H^2 and H*Delta(ubar^2) are used)
the surface contributions are
    S_I   = -A^2      h Delta(u/n)
    S_II  = -A Abar   h Delta(u/n)
    S_III = -Abar^2   h Delta(u/n)
    S_IV  = -H^2 c Delta(1/n)
    S_V   = -Abar^3 h Delta(1/n^2) + Abar hbar (2 Abar h - A hbar) c Delta(1/n)
    C_I   = A    h Delta(dn/n)
    C_II  = Abar h Delta(dn/n)
with h the marginal height AT the surface.

S_V is Welford's (Abar/A)(S_III + S_IV) rewritten so that it stays finite when A -> 0:
    Delta(u/n) = A Delta(1/n^2) - h c Delta(1/n)           (u = A/n - h c)
    S_III + S_IV = -Abar^2 h A Delta(1/n^2) + c Delta(1/n) (Abar^2 h^2 - H^2)
    H = Abar h - A hbar  =>  Abar^2 h^2 - H^2 = A hbar (2 Abar h - A hbar)
`S5_ratio` (the (Abar/A) form) and `S5_smith` (-A Abar hbar Delta(ubar/n) + H Delta(ubar^2),
W. J. Smith's form with H = n (hbar u - h ubar)) are returned as cross-checks.

FROZEN CONVENTION of the library's quantities (calibrated once on a BK7 singlet, R1=50,
R2=-80, t=5, EPD 10, 5 deg: library TSC = [-0.00677579, -0.03612281], S[0] = -0.00711081;
W. J. Smith, "Modern Optical Engineering" sec. 6.3 definitions):
    TSC_k = S_I,k  /(2 n'_K u'_K)    CC_k = S_II,k /(2 n'_K u'_K)   TCC = 3 CC
    TAC_k = S_III,k/(2 n'_K u'_K)    TPC_k = S_IV,k/(2 n'_K u'_K)   DC_k = S_V,k/(2 n'_K u'_K)
    TAchC_k = C_I,k/(n'_K u'_K)      TchC_k = C_II,k/(n'_K u'_K)
    SC, AC, PC, LchC = -(TSC, TAC, TPC, TAchC)/u'_K
    seidels()[j] = -2 n'_K u'_K * sum_k (TSC, CC, TAC, TPC, DC)_k  = -(sum of Welford's S_j)
n'_K (signed) and u'_K are index and marginal slope in image space.  (An under-corrected
positive singlet has TSC < 0 and seidels()[0] < 0.)

`model=` switches reproduce what known defect mechanisms of the library predict (the
"as-built" model; used only to *classify* mismatches, never as the expected value):
    'unsigned-index'   the indices are used unsigned and the Delta(u/n) factors are formed from
                       Delta(1/n^2), Delta(1/n): every mirror then contributes nothing (only the
                       H Delta(ubar^2) part of Smith's distortion form survives), and refracting
                       surfaces in a space whose index sign differs from image space flip sign
    'colour-height-slip'  C_I, C_II take the marginal height of the PREVIOUS record, ya[k-1]
    'zero-H-guard'     H == 0 (on-axis field only) zeroes S_I, S_II, S_III, S_V
"""
import numpy as np

LONG = ('TSC', 'CC', 'TAC', 'TPC', 'DC')


def signed(n, mirror, dtype=np.float64):
    """Unsigned per-medium values -> Welford's signed ones (sign flips after every mirror)."""
    out = np.empty(len(n), dtype=dtype)
    s = 1
    for k in range(len(n)):
        if mirror[k]:
            s = -s
        out[k] = s * dtype(n[k])
    return out


def surface_terms(c, n, mirror, ya, ua, yb, ub, dn=None, dtype=np.float64, model=()):
    """-> dict of arrays over the optical surfaces k = 1..N-2 (library order), in the library's
    transverse quantities, plus 'S' (five sums in the library's sign), the Welford coefficients
    ('S1'..'S5', 'C1', 'C2'), the cross-check forms and `scale_*` = the same expressions with every
    subtraction replaced by a sum of magnitudes (the natural rounding scale of each term)."""
    f = dtype
    c = np.asarray(c, dtype=f)
    ya, ua, yb, ub = (np.asarray(np.ravel(a), dtype=f) for a in (ya, ua, yb, ub))
    N = len(c)
    unsigned = 'unsigned-index' in model
    nn = np.asarray(np.ravel(n), dtype=f)
    dd = np.zeros(N, dtype=f) if dn is None else np.asarray(np.ravel(dn), dtype=f)
    if not unsigned:
        nn = signed(nn, mirror, f)
        dd = signed(dd, mirror, f)
    # Lagrange invariant of the two supplied rays, in the space after surface 1
    H = nn[1] * (yb[1] * ua[1] - ya[1] * ub[1])
    Hs = abs(nn[1]) * (abs(yb[1] * ua[1]) + abs(ya[1] * ub[1]))
    nK, uK = nn[N - 1], ua[N - 1]
    keys = ('S1', 'S2', 'S3', 'S4', 'S5', 'S5_ratio', 'S5_smith', 'C1', 'C2', 'A', 'Abar')
    o = {k: np.zeros(N - 2, dtype=f) for k in keys}
    sc = {k: np.zeros(N - 2, dtype=f) for k in ('S1', 'S2', 'S3', 'S4', 'S5', 'C1', 'C2')}
    for k in range(1, N - 1):
        j = k - 1
        n0, n1 = nn[k - 1], nn[k]
        u, u1 = ua[k - 1], ua[k]
        w, w1 = ub[k - 1], ub[k]
        h, hb, ck = ya[k], yb[k], c[k]
        A = n0 * (u + h * ck)
        Ab = n0 * (w + hb * ck)
        d1 = 1 / n1 - 1 / n0
        d2 = 1 / n1 ** 2 - 1 / n0 ** 2
        d1s = abs(1 / n1) + abs(1 / n0)
        d2s = 1 / n1 ** 2 + 1 / n0 ** 2
        if unsigned:
            dun = A * d2 - h * ck * d1                  # vanishes at a mirror when n' = n
            dwn = Ab * d2 - hb * ck * d1
            duns = abs(A) * d2s + abs(h * ck) * d1s
        else:
            dun = u1 / n1 - u / n0                      # Delta(u/n) of the supplied ray
            dwn = w1 / n1 - w / n0
            duns = abs(u1 / n1) + abs(u / n0)
        o['A'][j], o['Abar'][j] = A, Ab
        o['S1'][j] = -A * A * h * dun
        o['S2'][j] = -A * Ab * h * dun
        o['S3'][j] = -Ab * Ab * h * dun
        o['S4'][j] = -H * H * ck * d1
        sa = -Ab ** 3 * h * d2 + Ab * hb * (2 * Ab * h - A * hb) * ck * d1
        sm = -A * Ab * hb * dwn + H * (w1 * w1 - w * w)
        o['S5_smith'][j] = sm
        o['S5_ratio'][j] = (Ab / A) * (o['S3'][j] + o['S4'][j]) if A != 0 else np.nan
        o['S5'][j] = sm if unsigned else sa
        sc['S1'][j] = abs(A * A * h) * duns
        sc['S2'][j] = abs(A * Ab * h) * duns
        sc['S3'][j] = abs(Ab * Ab * h) * duns
        sc['S4'][j] = Hs * Hs * abs(ck) * d1s
        s5a = abs(Ab ** 3 * h) * d2s + abs(Ab * hb) * (2 * abs(Ab * h) + abs(A * hb)) * abs(ck) * d1s
        s5m = abs(A * Ab * hb) * (abs(w1 / n1) + abs(w / n0)) + Hs * (w1 * w1 + w * w)
        sc['S5'][j] = max(s5a, s5m)
        hc = ya[k - 1] if 'colour-height-slip' in model else h
        ddn = dd[k] / n1 - dd[k - 1] / n0
        o['C1'][j] = A * hc * ddn
        o['C2'][j] = Ab * hc * ddn
        ddns = abs(dd[k] / n1) + abs(dd[k - 1] / n0)
        sc['C1'][j] = abs(A * h) * ddns
        sc['C2'][j] = abs(Ab * h) * ddns
    if 'zero-H-guard' in model and H == 0:
        for key in ('S1', 'S2', 'S3', 'S5'):
            o[key][:] = 0
    den2 = 2 * nK * uK
    out = dict(o)
    out['H'], out['nK'], out['uK'] = H, nK, uK
    for name, key in zip(LONG, ('S1', 'S2', 'S3', 'S4', 'S5')):
        out[name] = o[key] / den2
        out['scale_' + name] = sc[key] / abs(den2)
    out['TAchC'] = o['C1'] / (nK * uK)
    out['TchC'] = o['C2'] / (nK * uK)
    out['scale_TAchC'] = sc['C1'] / abs(nK * uK)
    out['scale_TchC'] = sc['C2'] / abs(nK * uK)
    out['S'] = -np.array([np.sum(o[k]) for k in ('S1', 'S2', 'S3', 'S4', 'S5')], dtype=f)
    out['scale_S'] = np.array([np.sum(sc[k]) for k in ('S1', 'S2', 'S3', 'S4', 'S5')], dtype=f)
    return out
