"""C10 -- Zernike families: index rules, unit edge value, orthonormality, linear evaluation,
fit recovery, fit linearity, ZernikeOPD reproduces the sampled OPD.

Oracle: vkit/oracles/zernike_rules.py (index rules written from the publications, radial
polynomial through the Jacobi recurrence, published normalisation constants, exact disk
quadrature).  The library is observed at `.indices`, `.get_term()`, `.terms()`, `.poly()`,
`ZernikeFit(...).coeffs` and `ZernikeOPD(...).coeffs`.

Conventions that the statement leaves open and that are therefore *adopted, not demanded*:
the sign of each sine polynomial (the library evaluates sin(m phi) with m < 0, i.e. the negative
of the published +sin(|m| phi)); it is read off once per term by a one-point probe and only its
sign bit enters the oracle's data.  It is reported in the evidence (`classes`).
"""
import numpy as np

from vkit.oracles import zernike_rules as ZR

ID = 'C10'
RULE = ('fixed part (exhaustive): for each of the 3 families all 120 indices -> stored (n,m) and the evaluated '
        'polynomial against the published rule, radial value at rho=1, full 120x120 Gram matrix by exact quadrature; '
        'a fixed list of bundled lenses x field x wavelength x family x N for ZernikeOPD.  Random part: '
        '(a) poly linearity: family, 1<=N<=120 coefficients (dense/sparse/one-hot, magnitudes 1e-6..1e4), points in the '
        'closed unit disk incl. rho=0 and rho=1; (b) fit recovery: family, 1<=N<=37, exact combination of the first N '
        'published polynomials with random coefficients (dense/sparse/one-hot/decaying; scale 1e-8..1e6 and a low-weight '
        'tiny-scale class 1e-14..1e-8), sampled at 4N..8N points laid out uniform-in-area / hexapolar rings / '
        'rim-heavy / clipped square grid, accepted only when the oracle design matrix has cond <= 200 (well-spread); '
        '(c) fit linearity: two data sets (exact combinations or generic smooth+noise data) and random a,b; '
        '(d) ZernikeOPD on a random bundled lens.  Non-trivial: every exhaustive case; poly cases with N>=2; fit cases '
        'with N>=4; OPD cases with N>=4 and rms OPD > 1e-3 waves.  distinct = distinct case hash')
TIERS = {'quick': dict(shards=12, cases=90), 'thorough': dict(shards=16, cases=1100)}
MIN_NONTRIVIAL = {'quick': 800, 'thorough': 12000}
MIN_EVALS = {
    'index-count': 3, 'index-rule': 360, 'index-wellformed': 360, 'index-polynomial': 720,
    'radial-unit-edge': 720, 'edge-value': 360,
    'gram-norm': 240, 'gram-orthogonal': 240, 'fringe-orthogonal': 120,
    'poly-linear': {'quick': 250, 'thorough': 5000}, 'poly-superposition': {'quick': 120, 'thorough': 2500},
    'fit-num-terms': {'quick': 800, 'thorough': 15000},
    'fit-recovery': {'quick': 400, 'thorough': 7000},
    'fit-linear': {'quick': 150, 'thorough': 3500}, 'fit-objects-independent': {'quick': 150, 'thorough': 3500},
    'opd-reproduction': {'quick': 16, 'thorough': 300}, 'opd-reproduction-poly': {'quick': 16, 'thorough': 300},
}
ASSUMPTIONS = [
    'index rules, radial polynomials and normalisation constants are those of Thibos et al. 2002 (OSA/ANSI), Noll 1976 '
    'and the University of Arizona Fringe numbering formula; the oracle is self-tested (hand-copied tables, exact '
    'rational evaluation of R_n^m, its own Gram matrix) at the start of every shard',
    'the sign of the sine polynomials is a convention the statement does not fix: it is adopted per term from a '
    'one-point probe of the library (sign bit only)',
    'fit tolerances: scipy.optimize.least_squares with a 2-point finite-difference Jacobian and ftol=xtol=gtol=1e-8 is '
    'the documented mechanism, so recovery is demanded to 1e-6 of max|coeff| (observed worst 3e-9; swapping two terms '
    'or dropping one changes a coefficient by O(1) of max|coeff|) and linearity in the data to 1e-3 of the data '
    'magnitude (observed worst 3e-6 with non-representable large-scale data, where the solver stops on ftol: it may '
    'leave |A dc| up to sqrt(ftol)=1e-4 of the residual norm)',
    'known mechanism "absolute-gtol": least_squares stops at the all-zero initial guess when ||A^T z||_inf < 1e-8 '
    '(scipy default gtol, absolute), so data of magnitude <~1e-10 are fitted by all-zero coefficients; cases whose '
    'oracle gradient norm is below 3e-8 carry that flag and the all-zero prediction as the as-built model',
    'the sampled OPD of a lens is taken from an independent OPD(optic, field, wavelength, num_rings) run '
    '(same hexapolar distribution); its correctness is C09\'s subject, not C10\'s',
    '"well-spread" sample sets = oracle design matrix condition number <= 200',
]
ANCHORS = [('optiland.zernike', 'ZernikeStandard._radial_term'),
           ('optiland.zernike', 'ZernikeStandard._azimuthal_term'),
           ('optiland.zernike', 'ZernikeStandard._generate_indices'),
           ('optiland.zernike', 'ZernikeFringe._generate_indices'),
           ('optiland.zernike', 'ZernikeNoll._generate_indices'),
           ('optiland.zernike', 'ZernikeStandard._norm_constant'),
           ('optiland.zernike', 'ZernikeFringe._norm_constant'),
           ('optiland.zernike', 'ZernikeNoll._norm_constant'),
           ('optiland.zernike', 'ZernikeStandard.get_term'),
           ('optiland.zernike', 'ZernikeStandard.terms'),
           ('optiland.zernike', 'ZernikeStandard.poly'),
           ('optiland.zernike', 'ZernikeFit.__init__'),
           ('optiland.zernike', 'ZernikeFit._objective'),
           ('optiland.zernike', 'ZernikeFit._fit'),
           ('optiland.wavefront', 'ZernikeOPD.__init__')]

FAMS = ZR.FAMILIES
NMAX_TERMS = 120
COND_MAX = 200.0
LAYOUTS = ('uniform', 'rings', 'rim', 'grid')
COEFF_KINDS = ('dense', 'sparse', 'onehot', 'decaying')

# tolerances (reasons in ASSUMPTIONS / next to their use)
TOL_POLYVAL = 1e-8      # evaluated polynomial vs published one, relative to its peak (library factorial sum loses
#                         ~1e-10 near rho=1 at n=19; a wrong n, m or cos/sin is an O(1) difference)
TOL_EDGE = 1e-10        # R(1): the factorial sum at r=1 is a sum of exactly representable integers
TOL_GRAM = 1e-8         # quadrature is exact; roundoff measured ~1e-11; a wrong constant changes the diagonal by O(0.1..1)
TOL_LIN = 1e-12         # poly is a plain sum: roundoff eps * sum|c||Z|
TOL_FIT = 1e-6          # of max|coeff| (see ASSUMPTIONS)
TOL_FITLIN = 1e-3       # of the data magnitude D.  With non-representable data (residual r != 0) the documented solver may
#                         stop as soon as the cost gain is < ftol*cost, i.e. with |A dc| up to sqrt(ftol)|r| = 1e-4 |r|,
#                         and its first steps use a finite-difference Jacobian whose error grows with |z| (eps|z|/1.5e-8);
#                         observed worst 3e-6 D (large-scale noisy data, Fringe).  A robust loss, clipping, or a
#                         data-dependent normalisation is an O(1e-1..1) effect on such data.
TOL_OPD = 1e-7          # RMS residual excess over the lstsq optimum, relative to max|OPD|: by the ftol rule the excess is
#                         <= 0.5e-8 of the optimum residual; observed worst 5e-11; a dropped/misplaced term costs >= ~1e-4
GTOL_ABS = 1e-8         # scipy default gtol (absolute): the known mechanism behind the tiny-scale class


def _classes():
    from optiland import zernike as zk
    return dict(standard=zk.ZernikeStandard, noll=zk.ZernikeNoll, fringe=zk.ZernikeFringe)


def shard_setup(rec):
    ZR.selftest()
    return None


# ----------------------------------------------------------------------------- sign convention
_SIGNS = {}


def term_signs(family):
    """+-1 per term: sign of the library's polynomial relative to the published one (probe at a generic point)."""
    if family not in _SIGNS:
        cls = _classes()[family]
        prs = ZR.pairs(family, NMAX_TERMS)
        s = np.ones(NMAX_TERMS)
        lib = cls(coeffs=[1.0] * NMAX_TERMS)
        todo = set(range(NMAX_TERMS))
        for r0, p0 in ((0.83, 0.37), (0.61, 1.13), (0.97, 2.31), (0.45, 4.0)):
            vals = np.asarray([float(v) for v in lib.terms(r0, p0)])
            for k in sorted(todo):
                n, m = prs[k]
                o = float(ZR.zern(family, n, m, r0, p0))
                if abs(o) < 1e-3:
                    continue
                todo.discard(k)
                if k < vals.size and vals[k] * o < 0:
                    s[k] = -1.0
            if not todo:
                break
        _SIGNS[family] = s
    return _SIGNS[family]


# ----------------------------------------------------------------------------- case builders
def layout_points(layout, M, prng):
    if layout == 'uniform':
        r = np.sqrt(prng.random(M))
        p = prng.random(M) * 2 * np.pi
    elif layout == 'rim':
        r = 1.0 - 0.95 * prng.random(M) ** 3
        p = prng.random(M) * 2 * np.pi
    elif layout == 'rings':
        K = 1
        while 1 + 3 * K * (K + 1) < M:
            K += 1
        rr, pp = [0.0], [0.0]
        off = prng.random(K + 1) * 2 * np.pi
        for k in range(1, K + 1):
            a = off[k] + 2 * np.pi * np.arange(6 * k) / (6 * k)
            rr.extend([k / K] * (6 * k))
            pp.extend(a.tolist())
        r, p = np.array(rr), np.array(pp)
    elif layout == 'grid':
        g = 2
        while True:
            ax = np.linspace(-1, 1, g)
            X, Y = np.meshgrid(ax, ax)
            keep = X * X + Y * Y <= 1.0 + 1e-12
            if keep.sum() >= M:
                break
            g += 1
        th = prng.random() * 2 * np.pi
        x, y = X[keep], Y[keep]
        x, y = x * np.cos(th) - y * np.sin(th), x * np.sin(th) + y * np.cos(th)
        r, p = np.minimum(1.0, np.hypot(x, y)), np.arctan2(y, x)
    else:
        raise ValueError(layout)
    return r * np.cos(p), r * np.sin(p)


def coeff_vector(kind, N, prng):
    if kind == 'dense':
        c = prng.uniform(-1, 1, N)
    elif kind == 'sparse':
        c = np.zeros(N)
        nz = prng.choice(N, size=max(1, N // 4), replace=False)
        c[nz] = prng.uniform(-1, 1, nz.size)
    elif kind == 'onehot':
        c = np.zeros(N)
        c[int(prng.integers(N))] = prng.choice([-1.0, 1.0]) * prng.uniform(0.3, 1.0)
    else:
        c = prng.uniform(-1, 1, N) * 0.7 ** np.arange(N)
    if not np.any(c):
        c[0] = 0.5
    return c


def fit_inputs(case):
    """Everything a fit case needs, rebuilt deterministically from the case."""
    prng = np.random.default_rng([int(case['seed']), 77])
    fam, N, M = case['family'], int(case['N']), int(case['M'])
    x, y = layout_points(case['layout'], M, prng)
    rho, phi = np.hypot(x, y), np.arctan2(y, x)
    A0 = ZR.design(fam, N, rho, phi)          # published polynomials, published signs
    return prng, x, y, rho, phi, A0


def _draw_fit_geometry(rng, case):
    """Rejection-sample a well-spread layout (cond of the oracle design matrix <= COND_MAX)."""
    for t in range(50):
        case['seed'] = int(rng.integers(2 ** 31))
        _, x, y, rho, phi, A0 = fit_inputs(case)
        if A0.shape[0] >= A0.shape[1] and np.linalg.cond(A0) <= COND_MAX:
            return case
        case['M'] = int(case['M'] * 1.3) + 1          # more points; eventually fall back to uniform-in-area
        if t > 10:
            case['layout'] = 'uniform'
    return None


OPD_SAMPLES = ['CookeTriplet', 'DoubleGauss', 'PetzvalLens', 'TessarLens', 'HubbleTelescope', 'ReverseTelephoto',
               'Telephoto', 'CementedAchromat', 'AsphericSinglet', 'UVReflectingMicroscope', 'Objective60x',
               'EyepieceErfle', 'LensWithFieldCorrector', 'HeliarLens', 'InfraredTriplet', 'SingletStopSurf2',
               'TripletTelescopeObjective', 'ObjectiveUS008879901', 'TelescopeDoublet', 'UVProjectionLens']


def fixed_cases(tier):
    out = []
    for fam in FAMS:
        out.append(dict(kind='index', family=fam))
        out.append(dict(kind='edge', family=fam))
        out.append(dict(kind='gram', family=fam))
    n_opd = 16 if tier == 'quick' else 180
    Ns = [37, 36, 22, 11, 4, 15, 28, 1, 9, 21, 33, 6]
    for i in range(n_opd):
        out.append(dict(kind='opd', sample=OPD_SAMPLES[i % len(OPD_SAMPLES)], field=i // 3, wl=i // 7,
                        family=FAMS[i % 3 if i % 5 else (i // 5) % 3], N=Ns[i % len(Ns)],
                        rings=[6, 8, 10, 15, 12][i % 5]))
    return out


def gen_case(rng, tier, i):
    u = rng.random()
    fam = FAMS[int(rng.integers(3))]
    if u < 0.20:
        N = int(rng.integers(1, NMAX_TERMS + 1)) if rng.random() < 0.8 else int(rng.integers(1, 6))
        return dict(kind='polylin', family=fam, N=N, seed=int(rng.integers(2 ** 31)),
                    ckind=COEFF_KINDS[int(rng.integers(4))], lg=float(rng.uniform(-6, 4)),
                    npts=int(rng.integers(1, 40)))
    if u < 0.97:
        N = int(rng.integers(1, 38))
        M = max(6, int(rng.integers(4 * N, 8 * N + 1)))
        case = dict(kind='fit' if u < 0.72 else 'fitlin', family=fam, N=N, M=M,
                    layout=LAYOUTS[int(rng.integers(4))], ckind=COEFF_KINDS[int(rng.integers(4))])
        tiny = rng.random() < 0.04
        case['lg'] = float(rng.uniform(-14, -8)) if tiny else float(rng.uniform(-8, 6))
        case['tiny'] = bool(tiny)
        if case['kind'] == 'fitlin':
            case['mode'] = 'exact' if rng.random() < 0.4 else 'generic'
        return _draw_fit_geometry(rng, case)
    return dict(kind='opd', sample=OPD_SAMPLES[int(rng.integers(len(OPD_SAMPLES)))], field=int(rng.integers(6)),
                wl=int(rng.integers(6)), family=fam, N=int(rng.integers(1, 38)), rings=int(rng.integers(5, 16)))


# ----------------------------------------------------------------------------- exhaustive parts
def _unit(k):
    e = [0.0] * (k + 1)
    e[k] = 1.0
    return e


def check_index(case, rec):
    fam = case['family']
    cls = _classes()[fam]
    rec.nontrivial_case()
    rec.cls(f'index:{fam}')
    want = ZR.pairs(fam, NMAX_TERMS)
    lib = cls()
    idx = [tuple(int(v) for v in t) for t in list(lib.indices)]
    rec.check('index-count', len(idx) == NMAX_TERMS, key=f'index-count:{fam}',
              msg=f'{fam}: {len(idx)} indices enumerated, 120 supported terms expected')
    # polar grid for the evaluated polynomial
    rr = np.array([0.13, 0.37, 0.58, 0.79, 0.93, 1.0])
    pp = 0.1 + 2 * np.pi * np.arange(64) / 64
    R, P = [a.ravel() for a in np.meshgrid(rr, pp, indexing='ij')]
    seen = set()
    neg_sine = 0
    for k in range(NMAX_TERMS):
        n0, m0 = want[k]
        if k >= len(idx):
            rec.check('index-rule', False, key=f'index-rule:{fam}', msg=f'{fam} term {k}: missing')
            continue
        n, m = idx[k]
        rec.check('index-rule', (n, m) == (n0, m0), key=f'index-rule:{fam}',
                  msg=f'{fam}: term #{k} (0-based) stored as (n,m)=({n},{m}), published rule gives ({n0},{m0})',
                  detail=dict(k=k, got=[n, m], want=[n0, m0]))
        wf = abs(m) <= n and (n - abs(m)) % 2 == 0 and (n, m) not in seen
        rec.check('index-wellformed', wf, key=f'index-wellformed:{fam}',
                  msg=f'{fam}: term #{k} (n,m)=({n},{m}) repeated or violates |m|<=n, n-|m| even')
        seen.add((n, m))
        # the evaluated polynomial: must be const * R_n0^|m0|(rho) * {cos,sin}(|m0| phi) with const != 0
        ref = ZR.zern(fam, n0, m0, R, P, normalised=False)
        for how in ('poly', 'get_term'):
            if how == 'poly':
                v = np.asarray(cls(coeffs=_unit(k)).poly(R, P), float)
            else:
                v = np.asarray(lib.get_term(1.0, n, m, R, P), float)
            v = np.broadcast_to(v, ref.shape)
            c = float(np.dot(ref, v) / np.dot(ref, ref))
            resid = float(np.max(np.abs(v - c * ref))) / max(abs(c), 1e-3)
            ok = abs(c) > 1e-3 and resid <= TOL_POLYVAL
            rec.check('index-polynomial', ok, key=f'index-polynomial:{fam}', resid=resid, tol=TOL_POLYVAL,
                      msg=f'{fam}: term #{k} evaluated through {how} is not a multiple of the published '
                          f'R_{n0}^{abs(m0)}(rho)*{"cos" if m0 >= 0 else "sin"}({abs(m0)} phi) '
                          f'(stored (n,m)=({n},{m}); best multiple {c:.6g}, residual {resid:.3e})',
                      detail=dict(k=k, how=how, stored=[n, m], published=[n0, m0], const=c))
            if how == 'poly' and m0 < 0 and c < 0:
                neg_sine += 1
    rec.event('exhaustive_index_terms_checked', NMAX_TERMS)
    rec.event(f'sine_terms_with_negative_sign:{fam}', neg_sine)
    rec.sample(dict(family=fam, first_10_library=idx[:10], first_10_published=want[:10],
                    sine_terms_with_negative_sign=neg_sine))


def check_edge(case, rec):
    fam = case['family']
    cls = _classes()[fam]
    rec.nontrivial_case()
    rec.cls(f'edge:{fam}')
    want = ZR.pairs(fam, NMAX_TERMS)
    lib = cls()
    idx = [tuple(int(v) for v in t) for t in list(lib.indices)][:NMAX_TERMS]
    radial = getattr(lib, '_radial_term', None)
    for k in range(NMAX_TERMS):
        n0, m0 = want[k]
        n, m = idx[k] if k < len(idx) else (n0, m0)
        if radial is not None:
            for one in (1.0, np.array([1.0, 1.0])):
                v = np.asarray(radial(n, m, one), float)
                r = float(np.max(np.abs(v - 1.0)))
                rec.check('radial-unit-edge', r <= TOL_EDGE, key=f'radial-unit-edge:{fam}', resid=r, tol=TOL_EDGE,
                          msg=f'{fam}: radial term of term #{k} (n,m)=({n},{m}) at rho=1 is {np.ravel(v)[0]!r}, not 1')
        # public path: the polynomial on the rim, at the azimuth where the published trigonometric factor is 1
        phi_star = 0.0 if m0 >= 0 else np.pi / (2 * abs(m0))
        v = abs(float(np.ravel(cls(coeffs=_unit(k)).poly(1.0, phi_star))[0]))
        wantv = ZR.norm(fam, n0, m0)
        r = abs(v - wantv) / wantv
        rec.check('edge-value', r <= 1e-9, key=f'edge-value:{fam}', resid=r, tol=1e-9,
                  msg=f'{fam}: |Z_#{k}(rho=1)| at the peak azimuth is {v!r}; published (n,m)=({n0},{m0}) has '
                      f'R(1)=1 times the constant {wantv!r}')
    rec.event('exhaustive_edge_terms_checked', NMAX_TERMS)


def check_gram(case, rec):
    fam = case['family']
    cls = _classes()[fam]
    rec.nontrivial_case()
    rec.cls(f'gram:{fam}')
    maxdeg = max(n for n, _ in ZR.pairs(fam, NMAX_TERMS))
    lib0 = cls()
    idx = [tuple(int(v) for v in t) for t in list(lib0.indices)][:NMAX_TERMS]
    maxdeg = max([maxdeg] + [n for n, _ in idx]) + 1
    R, P, W = ZR.disk_quadrature(maxdeg)
    lib = cls(coeffs=[1.0] * len(idx))
    tv = lib.terms(R, P)
    V = np.empty((R.size, len(idx)))
    for k in range(len(idx)):
        V[:, k] = np.broadcast_to(np.asarray(tv[k], float), R.shape)
    G = (V * W[:, None]).T @ V
    K = len(idx)
    for k in range(K):
        off = np.delete(G[k], k)
        n, m = idx[k]
        if fam == 'fringe':
            rec.close('fringe-orthogonal', off, np.zeros(K - 1), TOL_GRAM, scale=1.0, key='fringe-orthogonal',
                      msg=f'fringe: term #{k} (n,m)=({n},{m}) not orthogonal to another term over the unit disk')
        else:
            rec.close('gram-norm', G[k, k], 1.0, TOL_GRAM, scale=1.0, key=f'gram-norm:{fam}',
                      msg=f'{fam}: (1/pi) int Z^2 dA of term #{k} (n,m)=({n},{m}) is {G[k, k]!r}, not 1')
            rec.close('gram-orthogonal', off, np.zeros(K - 1), TOL_GRAM, scale=1.0, key=f'gram-orthogonal:{fam}',
                      msg=f'{fam}: term #{k} (n,m)=({n},{m}) not orthogonal to another term over the unit disk')
    rec.event('exhaustive_gram_entries_checked', K * K)
    rec.event('quadrature_nodes', R.size)


# ----------------------------------------------------------------------------- random parts
def check_polylin(case, rec):
    fam, N = case['family'], int(case['N'])
    cls = _classes()[fam]
    prng = np.random.default_rng([int(case['seed']), 78])
    rec.cls(f'polylin:{fam}', f'coeffs:{case["ckind"]}')
    if N >= 2:
        rec.nontrivial_case()
    sc = 10.0 ** case['lg']
    c1 = coeff_vector(case['ckind'], N, prng) * sc
    c2 = coeff_vector('dense', N, prng) * sc * 10.0 ** prng.uniform(-2, 2)
    a, b = prng.uniform(-3, 3, 2)
    npts = int(case['npts'])
    r = np.sqrt(prng.random(npts))
    p = prng.uniform(-np.pi, np.pi, npts)
    r[0] = 1.0
    if npts > 1:
        r[1] = 0.0
    ev = lambda c: np.broadcast_to(np.asarray(cls(coeffs=c).poly(r, p), float), r.shape)
    for as_list in (False, True):
        conv = (lambda c: [float(v) for v in c]) if as_list else (lambda c: np.array(c))
        z1, z2, z3 = ev(conv(c1)), ev(conv(c2)), ev(conv(a * c1 + b * c2))
        nrm = np.array([ZR.norm(fam, n, m) for n, m in ZR.pairs(fam, N)])
        bound = abs(a) * np.sum(np.abs(c1) * nrm) + abs(b) * np.sum(np.abs(c2) * nrm)
        rec.close('poly-linear', z3, a * z1 + b * z2, TOL_LIN, scale=bound,
                  msg=f'{fam}: poly(a*c1+b*c2) != a*poly(c1)+b*poly(c2) (N={N})')
    # superposition on the basis: poly(c) = sum_k c_k * (k-th term evaluated with unit coefficient)
    tv = cls(coeffs=[1.0] * N).terms(r, p)
    ok_len = len(tv) == N
    if ok_len:
        B = np.stack([np.broadcast_to(np.asarray(t, float), r.shape) for t in tv], axis=1)
        rec.close('poly-superposition', ev(np.array(c1)), B @ c1, TOL_LIN,
                  scale=np.sum(np.abs(c1) * nrm), msg=f'{fam}: poly(c) != sum_k c_k Z_k (N={N})')
    else:
        rec.check('poly-superposition', False, msg=f'{fam}: terms() returned {len(tv)} terms for {N} coefficients')
    # terms() of a SPARSE coefficient vector (exact zeros, as in a unit vector or a fit with removed terms): still one
    # entry per coefficient, entry k = c_k Z_k (a zero coefficient gives a zero entry, not a missing one)
    if ok_len and N >= 2:
        cs = np.array(c1, float).copy()
        cs[np.arange(N) % 2 == (1 if N > 2 else 0)] = 0.0
        cs[0] = 0.0 if N > 2 else cs[0]
        ts = cls(coeffs=cs).terms(r, p)
        if len(ts) == N:
            Ts = np.stack([np.broadcast_to(np.asarray(t, float), r.shape) for t in ts], axis=1)
            rec.close('poly-superposition', Ts, B * cs[None, :], TOL_LIN, scale=max(np.sum(np.abs(cs) * nrm), 1e-300),
                      key='poly-superposition:sparse-terms',
                      msg=f'{fam}: terms() of a coefficient vector with exact zeros: entry k != c_k Z_k (N={N})')
        else:
            rec.check('poly-superposition', False, key='poly-superposition:sparse-terms',
                      msg=f'{fam}: terms() returned {len(ts)} entries for {N} coefficients of which some are exactly zero')
    # a default-constructed object holds the zero vector and evaluates to zero (linearity) - also after ANOTHER
    # default-constructed object had one of its coefficients set
    A_ = cls()
    k_ = int(prng.integers(min(36, len(A_.coeffs))))
    old_ = A_.coeffs[k_]
    try:
        A_.coeffs[k_] = 0.25 * sc
        vB = np.broadcast_to(np.asarray(cls().poly(r, p), float), r.shape)
        # ... and the object whose coefficient was set evaluates that coefficient (the default vector is written with
        # integer zeros; the value set is not an integer)
        vA = np.broadcast_to(np.asarray(A_.poly(r, p), float), r.shape)
        ck = np.zeros(len(A_.coeffs)); ck[k_] = 0.25 * sc
        wA = np.broadcast_to(np.asarray(cls(coeffs=ck).poly(r, p), float), r.shape)
    finally:
        A_.coeffs[k_] = old_
    rec.close('poly-linear', vA, wA, TOL_LIN, scale=max(0.25 * sc * float(np.max(nrm)), 1e-300), key='poly-linear:element-assignment',
              msg=f'{fam}: a default-constructed object whose coefficient {k_} was set to {0.25 * sc:.3g} does not evaluate '
                  f'{0.25 * sc:.3g} x Z_{k_}')
    rec.check('poly-linear', bool(np.all(vB == 0.0)), key='poly-linear:default-object-is-zero',
              msg=f'{fam}: a freshly default-constructed object evaluates to {float(np.max(np.abs(vB))):.3e} after coefficient {k_} '
                  f'of another default-constructed object was set')
    # ONE polynomial object asked several times: the same radii at other azimuths (a rotated sample pattern, a walk round a
    # ring), then other radii at the same azimuths - every answer is the polynomial's value at the points asked for
    zobj = cls(coeffs=np.array(c1))
    p_rot = p + prng.uniform(0.3, 2.5)
    r_new = np.sqrt(prng.random(npts))
    scl = np.sum(np.abs(c1) * nrm)
    for (rr_, pp_, what) in ((r, p, 'first call'), (r, p_rot, 'same radii, rotated azimuths'),
                             (r_new, p_rot, 'other radii, same azimuths'), (r, p, 'first points again')):
        got = np.broadcast_to(np.asarray(zobj.poly(rr_, pp_), float), rr_.shape)
        want = np.broadcast_to(np.asarray(cls(coeffs=np.array(c1)).poly(rr_, pp_), float), rr_.shape)
        rec.close('poly-superposition', got, want, TOL_LIN, scale=scl, key='poly-superposition:object-reused',
                  msg=f'{fam}: one object evaluated repeatedly ({what}) differs from a fresh object at the same points (N={N})')
    rec.event('poly_evaluations', 15)


def asbuilt_fit(A, z):
    """As-built model of ZernikeFit under the known mechanism `absolute-gtol`: scipy's trf stops at the all-zero
    initial guess when ||J^T f||_inf = ||A^T z||_inf < gtol = 1e-8 (absolute); otherwise the least-squares solution.
    -> (predicted coeffs, gradient norm at zero, mechanism can act: gradient norm < 3e-8)"""
    g0 = float(np.max(np.abs(A.T @ z)))
    pred = np.zeros(A.shape[1]) if g0 < GTOL_ABS else np.linalg.lstsq(A, z, rcond=None)[0]
    return pred, g0, g0 < 3 * GTOL_ABS


def close_mech(rec, clause, got, want, tol, scale, flagged, pred, msg, detail):
    """rec.close with the as-built alternative; a flagged case that nevertheless meets `want` is counted as a passing
    evaluation without entering the worst-residual statistic (its residual is the mechanism's, not the solver's)."""
    if flagged:
        r, same = rec.resid(got, want, scale)
        if same and r <= tol:
            return rec.check(clause, True)
        return rec.close(clause, got, want, tol, scale=scale, alt=pred, flags=('absolute-gtol',), msg=msg, detail=detail)
    return rec.close(clause, got, want, tol, scale=scale, msg=msg, detail=detail)


def _fit(fam, x, y, z, N):
    from optiland.zernike import ZernikeFit
    f = ZernikeFit(np.array(x), np.array(y), np.array(z), fam, N)
    return np.asarray(f.coeffs, float).ravel()


def check_fit(case, rec):
    fam, N = case['family'], int(case['N'])
    prng, x, y, rho, phi, A0 = fit_inputs(case)
    A = A0 * term_signs(fam)[None, :N]
    cond = float(np.linalg.cond(A))
    if cond > COND_MAX * 1.0001:
        rec.cls('layout-not-well-spread-skipped')
        return
    tiny = bool(case.get('tiny'))
    rec.cls(f'fit:{fam}', f'layout:{case["layout"]}', f'coeffs:{case["ckind"]}',
            'scale:tiny' if tiny else 'scale:normal', f'N:{"1-3" if N < 4 else "4-20" if N <= 20 else "21-37"}')
    if N >= 4:
        rec.nontrivial_case()
    c = coeff_vector(case['ckind'], N, prng) * 10.0 ** case['lg']
    z = A @ c
    got = _fit(fam, x, y, z, N)
    rec.event('fits', 1)
    rec.event('fit_points', x.size)
    if not rec.check('fit-num-terms', got.size == N,
                     msg=f'ZernikeFit(num_terms={N}).coeffs has {got.size} entries'):
        return
    # known mechanism: scipy's absolute gtol=1e-8 on ||J^T f||_inf at the all-zero initial guess
    pred, g0, flagged = asbuilt_fit(A, z)
    if flagged:
        rec.cls('mech-absolute-gtol')
    close_mech(rec, 'fit-recovery', got, c, TOL_FIT, float(np.max(np.abs(c))), flagged, pred,
               f'{fam}: fit of an exact combination of the first {N} terms at {x.size} {case["layout"]} points '
               f'(cond {cond:.1f}, max|coeff| {np.max(np.abs(c)):.3g}) does not return the coefficients',
               dict(cond=cond, g0=g0))
    rec.sample(dict(case=case, coeffs_in=c, coeffs_fit=got, cond=cond))


def check_fitlin(case, rec):
    fam, N = case['family'], int(case['N'])
    prng, x, y, rho, phi, A0 = fit_inputs(case)
    A = A0 * term_signs(fam)[None, :N]
    cond = float(np.linalg.cond(A))
    if cond > COND_MAX * 1.0001:
        rec.cls('layout-not-well-spread-skipped')
        return
    tiny = bool(case.get('tiny'))
    rec.cls(f'fitlin:{fam}', f'fitlin-mode:{case["mode"]}', 'fitlin-scale:tiny' if tiny else 'fitlin-scale:normal')
    if N >= 4:
        rec.nontrivial_case()
    sc = 1.0 if tiny else 10.0 ** case['lg']
    z1 = A @ (coeff_vector(case['ckind'], N, prng) * sc)
    if case['mode'] == 'exact':
        z2 = A @ (coeff_vector('dense', N, prng) * sc * 10.0 ** prng.uniform(-1, 1))
    else:
        k1, k2, k3 = prng.uniform(-4, 4, 3)
        z2 = (np.cos(k1 * x + k2 * y) + k3 * x * y * y + 0.3 * prng.normal(size=x.size)) * sc \
            * 10.0 ** prng.uniform(-1, 1)
        z1 = z1 + 0.05 * sc * prng.normal(size=x.size)
    a, b = prng.uniform(-2, 2, 2)
    if tiny:                                   # homogeneity under a very small factor
        f = 10.0 ** case['lg']
        a, b = a * f, b * f
    z3 = a * z1 + b * z2
    # the three fit objects are kept alive and read AFTER all of them exist (a user comparing fits): what an earlier
    # object reports must not change when a later fit of the same family is made
    from optiland.zernike import ZernikeFit
    F1 = ZernikeFit(np.array(x), np.array(y), np.array(z1), fam, N)
    c1_early = np.array(F1.coeffs, float).ravel().copy()
    F2 = ZernikeFit(np.array(x), np.array(y), np.array(z2), fam, N)
    F3 = ZernikeFit(np.array(x), np.array(y), np.array(z3), fam, N)
    c1, c2, c3 = (np.asarray(F_.coeffs, float).ravel() for F_ in (F1, F2, F3))
    rec.check('fit-objects-independent', c1.shape == c1_early.shape and bool(np.array_equal(c1, c1_early, equal_nan=True)),
              msg=f'{fam}: the coefficients reported by a ZernikeFit changed after two later fits of the same family were made')
    rec.event('fits', 3)
    for cc in (c1, c2, c3):
        if not rec.check('fit-num-terms', cc.size == N, msg=f'ZernikeFit(num_terms={N}).coeffs has {cc.size} entries'):
            return
    D = max(abs(a) * float(np.max(np.abs(z1))), abs(b) * float(np.max(np.abs(z2))), float(np.max(np.abs(z3))))
    # the known mechanism can act on any of the three fits (e.g. a data set whose projection on the terms is tiny)
    (p1, g1, f1), (p2, g2, f2), (p3, g3, f3) = asbuilt_fit(A, z1), asbuilt_fit(A, z2), asbuilt_fit(A, z3)
    flagged = f1 or f2 or f3
    g0 = [g1, g2, g3]
    if flagged:
        rec.cls('mech-absolute-gtol')
    close_mech(rec, 'fit-linear', c3 - (a * c1 + b * c2), np.zeros(N), TOL_FITLIN, D, flagged,
               p3 - (a * p1 + b * p2),
               f'{fam}: coeffs(a*z1+b*z2) != a*coeffs(z1)+b*coeffs(z2) (N={N}, {x.size} points, '
               f'data magnitude {D:.3g})', dict(cond=cond, g0=g0, a=a, b=b))


_LENS_SKIP = {}


def check_opd(case, rec):
    from vkit import samples
    from optiland.wavefront import OPD, ZernikeOPD
    fam, N, rings = case['family'], int(case['N']), int(case['rings'])
    name = case['sample']
    try:
        lens = samples.make(name)
    except Exception as e:       # a bundled design that cannot be built is not C10's subject
        rec.cls(f'sample-build-failed:{name}')
        return
    fields = lens.fields.get_field_coords()
    wls = lens.wavelengths.get_wavelengths()
    field = tuple(fields[int(case['field']) % len(fields)])
    wl = wls[int(case['wl']) % len(wls)]
    ref = OPD(lens, field, wl, num_rings=rings)
    x = np.asarray(ref.distribution.x, float).ravel()
    y = np.asarray(ref.distribution.y, float).ravel()
    z = np.asarray(ref.data[0][0][0], float).ravel()
    if not np.all(np.isfinite(z)):
        rec.cls('opd-nonfinite-skipped')      # vignetted / failed rays: the sampled OPD is undefined there
        return
    zo = ZernikeOPD(lens, field, wl, num_rings=rings, zernike_type=fam, num_terms=N)
    got = np.asarray(zo.coeffs, float).ravel()
    rec.cls(f'opd:{fam}', f'opd-lens:{name}')
    rho, phi = np.hypot(x, y), np.arctan2(y, x)
    A = ZR.design(fam, N, rho, phi, term_signs(fam)[:N])
    co = np.linalg.lstsq(A, z, rcond=None)[0]
    rms = lambda v: float(np.sqrt(np.mean(v * v)))
    r_or = rms(A @ co - z)
    zmax = max(float(np.max(np.abs(z))), 1e-300)
    if N >= 4 and rms(z) > 1e-3:
        rec.nontrivial_case()
    rec.event('opd_points', x.size)
    if not rec.check('fit-num-terms', got.size == N, msg=f'ZernikeOPD(num_terms={N}).coeffs has {got.size} entries'):
        rec.check('opd-reproduction', False, msg=f'ZernikeOPD(num_terms={N}) returned {got.size} coefficients')
        return
    r_lib = rms(A @ got - z)
    ex = (r_lib - r_or) / zmax
    rec.check('opd-reproduction', np.isfinite(r_lib) and ex <= TOL_OPD, resid=max(ex, 0.0), tol=TOL_OPD,
              msg=f'{name} field {field} wl {wl}: sum coeffs*Z_k ({fam}, N={N}) leaves RMS residual {r_lib:.6g} waves '
                  f'on the sampled OPD; least squares over the same {N} published terms leaves {r_or:.6g}',
              detail=dict(r_lib=r_lib, r_lstsq=r_or, coeffs=got, lstsq=co))
    zp = np.broadcast_to(np.asarray(zo.zernike.poly(rho, phi), float), z.shape)
    r_lib2 = rms(zp - z)
    ex2 = (r_lib2 - r_or) / zmax
    rec.check('opd-reproduction-poly', np.isfinite(r_lib2) and ex2 <= TOL_OPD, resid=max(ex2, 0.0), tol=TOL_OPD,
              msg=f'{name} field {field} wl {wl}: the fitted series evaluated by .zernike.poly ({fam}, N={N}) leaves '
                  f'RMS residual {r_lib2:.6g} waves; least squares over the same terms leaves {r_or:.6g}',
              detail=dict(r_lib=r_lib2, r_lstsq=r_or))
    rec.sample(dict(case=case, rms_opd=rms(z), residual_library=r_lib, residual_lstsq=r_or), limit=4)


def check_case(case, rec):
    k = case['kind']
    if k == 'index':
        check_index(case, rec)
    elif k == 'edge':
        check_edge(case, rec)
    elif k == 'gram':
        check_gram(case, rec)
    elif k == 'polylin':
        check_polylin(case, rec)
    elif k == 'fit':
        check_fit(case, rec)
    elif k == 'fitlin':
        check_fitlin(case, rec)
    elif k == 'opd':
        check_opd(case, rec)
    else:
        raise ValueError(k)


def evidence_extra(merged):
    ev = merged['events']
    return dict(exhaustive_parts=dict(
        index_terms=f"{ev.get('exhaustive_index_terms_checked', 0)}/360 (3 families x 120 indices)",
        edge_terms=f"{ev.get('exhaustive_edge_terms_checked', 0)}/360",
        gram_entries=f"{ev.get('exhaustive_gram_entries_checked', 0)}/43200 (3 x 120 x 120)"))
