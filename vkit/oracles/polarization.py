"""Polarization oracles for C17, written from the textbook (Born & Wolf 1.5; Hecht 4.6, 8.13;
Chipman/Lam/Young, "Polarized Light and Optical Systems", ch. 5, 9), never from optiland's code.

* Snell / Fresnel power bookkeeping: R = |r|^2, T = (n2 cos(theta_t) / (n1 cos(theta_i))) |t|^2.
* 2x2 Jones algebra: rotation matrices, projector tests, eigenphase differences.
* 3-D polarization ray tracing: the uncoated surface operator is the rotation about
  s = k0 x k1 that carries k0 into k1 (Rodrigues form: finite for k0 -> k1, no normalisation
  of a vanishing cross product).
* "as-built" models of the defect mechanisms C17 knows (what the library is predicted to
  return *if* that mechanism, and nothing else, is at work).
"""
import math

import numpy as np

# --------------------------------------------------------------------------- Fresnel


def critical_angle(n1, n2):
    """Largest angle of incidence with a transmitted wave (pi/2 when n1 <= n2)."""
    return math.pi / 2 if n1 <= n2 else math.asin(n2 / n1)


def snell_cos_t(n1, n2, theta_i):
    """cos(theta_t) from n1 sin(theta_i) = n2 sin(theta_t); nan beyond the critical angle."""
    st = n1 * np.sin(theta_i) / n2
    c2 = (1.0 - st) * (1.0 + st)
    return np.sqrt(np.where(c2 >= 0, c2, np.nan))


def power_RT(n1, n2, theta_i, r, t):
    """Power reflectance / transmittance from *given* amplitude coefficients r, t."""
    ct = snell_cos_t(n1, n2, theta_i)
    ci = np.cos(theta_i)
    R = np.abs(r) ** 2
    T = (n2 * ct) / (n1 * ci) * np.abs(t) ** 2
    return R, T


def brewster_angle(n1, n2):
    return math.atan2(n2, n1)


def normal_incidence_R(n1, n2):
    return ((n1 - n2) / (n1 + n2)) ** 2


# --------------------------------------------------------------------------- Jones 2x2


def rot2(theta):
    c, s = math.cos(theta), math.sin(theta)
    return np.array([[c, -s], [s, c]], dtype=complex)


def rotated(M0, theta, sense=1):
    """Element M0 turned by theta: R(s*theta) M0 R(-s*theta)."""
    R = rot2(sense * theta)
    return R @ M0 @ R.T


def angdist(a, b):
    """Distance of two angles on the circle."""
    d = (a - b + math.pi) % (2 * math.pi) - math.pi
    return abs(d)


def eigenphase_difference(U):
    """|arg(l1) - arg(l2)| in [0, pi] of a 2x2 matrix."""
    ev = np.linalg.eigvals(U)
    d = np.angle(ev[0] * np.conj(ev[1]))
    return abs(float(d))


def retardance_mismatch(U, stated):
    """Distance (mod 2 pi, sign-insensitive) between the eigenphase difference of U and `stated`."""
    d = eigenphase_difference(U)
    return min(angdist(d, stated), angdist(-d, stated))


def is_circular_state(e):
    """e (2-vector): |ex| = |ey| and relative phase +-pi/2 -> (deviation, handedness sign)."""
    e = np.asarray(e, complex)
    nrm = np.linalg.norm(e)
    if nrm == 0:
        return float('inf'), 0
    e = e / nrm
    dev_amp = abs(abs(e[0]) - abs(e[1]))
    rel = np.angle(e[1] * np.conj(e[0]))
    dev_ph = min(angdist(rel, math.pi / 2), angdist(rel, -math.pi / 2))
    return max(dev_amp, dev_ph), (1 if rel > 0 else -1)


def projector_state(P):
    """Unit eigenvector of the largest eigenvalue of a (nearly) Hermitian 2x2."""
    w, v = np.linalg.eigh((P + P.conj().T) / 2)
    return v[:, int(np.argmax(w))]


def diattenuator_true(t_min, t_max, theta, sense=1):
    return rotated(np.diag([t_max, t_min]).astype(complex), theta, sense)


def diattenuator_asbuilt(t_min, t_max, theta):
    """Mechanism `diattenuator-offdiag-precedence`: the off-diagonal term is evaluated as
    t_max - (t_min cos sin) instead of (t_max - t_min) cos sin; the diagonal is right."""
    c, s = math.cos(theta), math.sin(theta)
    off = t_max - t_min * c * s
    return np.array([[t_max * c * c + t_min * s * s, off],
                     [off, t_max * s * s + t_min * c * c]], dtype=complex)


# --------------------------------------------------------------------------- polarization states


def jones_vector(st):
    """(Ex e^{i px}, Ey e^{i py}) normalised, from PolarizationState kwargs."""
    v = np.array([st['Ex'] * np.exp(1j * st['phase_x']), st['Ey'] * np.exp(1j * st['phase_y'])])
    return v / np.linalg.norm(v)


def orthogonal_state(st):
    """The state orthogonal to (a e^{i alpha}, b e^{i beta}) is (b e^{-i beta}, -a e^{-i alpha})
    (times any common phase `gamma`, which a caller may add): <v, w> = ab e^{-i(alpha+beta)} (1 - 1) = 0."""
    g = st.get('gamma', 0.0)
    return dict(is_polarized=True, Ex=st['Ey'], Ey=-st['Ex'],
                phase_x=-st['phase_y'] + g, phase_y=-st['phase_x'] + g)


# --------------------------------------------------------------------------- 3-D polarization ray tracing


def unit(v):
    return v / np.linalg.norm(v, axis=-1, keepdims=True)


def transverse_basis(k):
    """Two orthonormal real vectors perpendicular to each unit vector k (N,3) -- my own choice of
    axes (helper axis = the coordinate axis least aligned with k)."""
    k = np.asarray(k, float)
    idx = np.argmin(np.abs(k), axis=1)
    a = np.zeros_like(k)
    a[np.arange(k.shape[0]), idx] = 1.0
    e1 = unit(np.cross(k, a))
    e2 = np.cross(k, e1)
    return e1, e2


def rodrigues(k0, k1, retro_axis=(1.0, 0.0, 0.0)):
    """Rotation (N,3,3) about k0 x k1 that carries k0 into k1:  R = I + [w]x + [w]x^2 / (1 + c),
    w = k0 x k1, 1 + c = 1 + k0.k1 = |k0 + k1|^2 / 2 (the sum is formed without cancellation error,
    so the expression stays accurate towards retro-reflection).  For an exact retro-reflection the
    axis is not determined by the rays; any axis s normal to k0 gives a valid operator 2 s s^T - I,
    and s = unit(k0 x retro_axis) is used (the x-axis is the helper the library documents)."""
    k0 = np.asarray(k0, float)
    k1 = np.asarray(k1, float)
    w = np.cross(k0, k1)
    h = k0 + k1
    h2 = np.sum(h * h, axis=1)
    W = np.zeros((k0.shape[0], 3, 3))
    W[:, 0, 1], W[:, 0, 2] = -w[:, 2], w[:, 1]
    W[:, 1, 0], W[:, 1, 2] = w[:, 2], -w[:, 0]
    W[:, 2, 0], W[:, 2, 1] = -w[:, 1], w[:, 0]
    retro = h2 < 1e-24
    with np.errstate(all='ignore'):
        f = 2.0 / np.where(retro, 1.0, h2)
    R = np.eye(3)[None] + W + np.matmul(W, W) * f[:, None, None]
    if np.any(retro):
        s = np.cross(k0[retro], np.asarray(retro_axis, float))
        s = s / np.linalg.norm(s, axis=1, keepdims=True)
        R[retro] = 2 * s[:, :, None] * s[:, None, :] - np.eye(3)[None]
    return R


def local_from_global(rx, ry):
    """Matrix taking global direction cosines to the local frame of a surface tilted by rx then ry
    (the convention of the lens grammar / Optic.add_surface: v_global = Rx(rx) Ry(ry) v_local)."""
    cx, sx, cy, sy = math.cos(rx), math.sin(rx), math.cos(ry), math.sin(ry)
    Rx = np.array([[1, 0, 0], [0, cx, -sx], [0, sx, cx]])
    Ry = np.array([[cy, 0, sy], [0, 1, 0], [-sy, 0, cy]])
    return (Rx @ Ry).T


def chain_uncoated(kdirs, frames=None):
    """Total polarization ray-tracing matrix of an uncoated system from the ray directions
    kdirs[j] (N,3) before (j=0) and after each surface.  frames[j-1] = global->local matrix of
    surface j, or None: with frames given this is the *as-built* model of mechanism
    `tilted-surface-local-frame` (each surface operator formed from local direction cosines and
    multiplied into the chain without transforming it back to the global frame)."""
    N = kdirs[0].shape[0]
    P = np.tile(np.eye(3), (N, 1, 1))
    for j in range(1, len(kdirs)):
        k0, k1 = kdirs[j - 1], kdirs[j]
        if frames is not None and frames[j - 1] is not None:
            G = frames[j - 1]
            k0, k1 = k0 @ G.T, k1 @ G.T
        P = np.matmul(rodrigues(k0, k1), P)
    return P
