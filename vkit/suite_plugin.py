"""pytest plugin (-p vkit.suite_plugin): installs the recording contract monitors while the REPOSITORY'S OWN tests run,
so that the suite becomes one more workload for them (design §0(4)). Writes what was seen to $VKIT_SUITE_OUT at exit."""
import atexit
import json
import os

os.environ.setdefault('OPTILAND_VERIF', '1')
from vkit import monitors  # noqa: E402

_log = monitors.MonitorLog()
_which = tuple(x for x in os.environ.get('VKIT_SUITE_WHICH', 'stop,primary,unitdir,intensity').split(',') if x)
_un = monitors.install_contracts(_log, which=_which)


def _done():
    out = os.environ.get('VKIT_SUITE_OUT')
    if out:
        with open(out, 'w') as f:
            json.dump(dict(evals=_log.evals, bad=[(n, str(i)) for n, i in _log.bad]), f)


atexit.register(_done)
