"""Recorder: what one shard of one check observed.

Every oracle comparison goes through Recorder.check / Recorder.close so that the
evidence file can say, per clause, how many times the deciding monitor was
evaluated, the worst residual seen and its tolerance, and how many violations /
known-finding hits there were.  A violation carries a *mechanism key* computed by
the property code from what failed (clause + class flags of the case), never from
seeds or numeric values; keys are what known_findings.json lists.
"""
import hashlib
import json
import math
from collections import Counter

import numpy as np

MAX_WITNESS_PER_KEY = 3


def jsonable(o):
    if isinstance(o, dict):
        return {str(k): jsonable(v) for k, v in o.items()}
    if isinstance(o, (list, tuple)):
        return [jsonable(v) for v in o]
    if isinstance(o, np.ndarray):
        return jsonable(o.tolist())
    if isinstance(o, (np.floating, float)):
        f = float(o)
        if math.isnan(f):
            return 'nan'
        if math.isinf(f):
            return 'inf' if f > 0 else '-inf'
        return f
    if isinstance(o, (np.integer,)):
        return int(o)
    if isinstance(o, (np.bool_,)):
        return bool(o)
    if isinstance(o, complex):
        return [o.real, o.imag]
    if o is None or isinstance(o, (str, int, bool)):
        return o
    return repr(o)


def case_hash(case):
    return hashlib.sha1(json.dumps(jsonable(case), sort_keys=True).encode()).hexdigest()[:16]


class Recorder:
    def __init__(self, prop_id):
        self.prop_id = prop_id
        self.evaluations = 0
        self.nontrivial = set()
        self.classes = Counter()
        self.events = Counter()
        self.clauses = {}
        self.violations = []       # witnesses (capped per key)
        self.viol_counts = Counter()   # key -> count (all)
        self.viol_what = {}
        self.samples = []
        self.harness_errors = []
        self.inconclusive = []
        self.case = None
        self._case_viol = 0

    # -- case bookkeeping -------------------------------------------------
    def begin_case(self, case):
        self.case = case
        self.evaluations += 1
        self._case_viol = 0

    def nontrivial_case(self, extra=None):
        """Mark the current case as non-trivial by the property's rule."""
        h = case_hash([self.case, extra] if extra is not None else self.case)
        self.nontrivial.add(h)

    def cls(self, *names):
        for n in names:
            self.classes[n] += 1

    def event(self, name, n=1):
        self.events[name] += int(n)

    def sample(self, obj, limit=3):
        if len(self.samples) < limit:
            self.samples.append(jsonable(obj))

    # -- verdicts ---------------------------------------------------------
    def _clause(self, clause):
        c = self.clauses.get(clause)
        if c is None:
            c = self.clauses[clause] = dict(evals=0, violations=0, worst=0.0, tol=None)
        return c

    def check(self, clause, ok, key=None, msg='', resid=None, tol=None, detail=None, n=1):
        """Record one evaluation of a deciding monitor. Returns ok."""
        c = self._clause(clause)
        c['evals'] += int(n)
        if resid is not None and tol:
            r = float(resid) / float(tol) if np.isfinite(resid) else float('inf')
            # worst residual, in units of the tolerance, over *passing* evaluations
            if ok and r > c['worst']:
                c['worst'] = r
        if tol is not None and c['tol'] is None:
            c['tol'] = float(tol) if np.isscalar(tol) else None
        if ok:
            return True
        key = key or clause
        c['violations'] += 1
        self.viol_counts[key] += 1
        self._case_viol += 1
        if key not in self.viol_what:
            self.viol_what[key] = msg or clause
        if sum(1 for v in self.violations if v['key'] == key) < MAX_WITNESS_PER_KEY:
            self.violations.append(dict(
                key=key, clause=clause, msg=msg,
                resid=jsonable(resid), tol=jsonable(tol),
                detail=jsonable(detail), case=jsonable(self.case)))
        return False

    @staticmethod
    def resid(got, want, scale=None):
        """-> (max |got-want|/scale over finite entries, non-finite patterns agree)."""
        got = np.asarray(got, dtype=float)
        want = np.asarray(want, dtype=float)
        if got.shape != want.shape:
            try:
                got, want = np.broadcast_arrays(got, want)
            except ValueError:
                return float('inf'), False
        if scale is None:
            scale = np.maximum(1.0, np.maximum(np.abs(want), np.abs(got)))
            scale = np.where(np.isfinite(scale), scale, 1.0)
        nan_g, nan_w = ~np.isfinite(got), ~np.isfinite(want)
        same = bool(np.array_equal(nan_g, nan_w))
        if same:
            both_inf = np.isinf(got) & np.isinf(want)
            same = bool(np.array_equal(np.sign(got[both_inf]), np.sign(want[both_inf]))
                        and np.array_equal(np.isinf(got), np.isinf(want)))
        fin = ~(nan_g | nan_w)
        if fin.any():
            sc = np.broadcast_to(scale, got.shape)[fin] if np.ndim(scale) else scale
            r = float(np.max(np.abs(got - want)[fin] / sc))
        else:
            r = 0.0
        return r, same

    def close(self, clause, got, want, tol, key=None, msg='', scale=None, detail=None,
              alt=None, flags=()):
        """|got-want| <= tol*scale elementwise; non-finite entries must match.

        alt/flags: `alt` is what the *known defect mechanisms* named in `flags` predict.
        A mismatch with `want` that agrees with `alt` is keyed `clause:flag1+flag2`
        (explained by those mechanisms); one that agrees with neither is keyed
        `clause:unexplained` and can never be covered by a known finding.
        """
        r, same = self.resid(got, want, scale)
        ok = bool(same and r <= tol)
        if ok:
            return self.check(clause, True, resid=r, tol=tol)
        d = dict(got=np.asarray(got, dtype=float), want=np.asarray(want, dtype=float))
        if detail:
            d.update(detail)
        if not same:
            msg = (msg + ' [non-finite pattern differs]').strip()
            r = float('inf')
        if alt is not None or flags:
            explained = False
            if alt is not None and flags:
                ra, sa = self.resid(got, alt, scale)
                explained = bool(sa and ra <= tol)
                d['asbuilt_prediction'] = np.asarray(alt, dtype=float)
            if explained:
                key = f"{clause}:{'+'.join(flags)}"
                msg = (msg + f' [as predicted by known mechanism(s) {"+".join(flags)}]').strip()
            else:
                key = f'{clause}:unexplained'
        return self.check(clause, False, key=key, msg=msg, resid=r, tol=tol, detail=d)

    def harness_error(self, where, tb):
        if len(self.harness_errors) < 10:
            self.harness_errors.append(dict(where=where, tb=tb, case=jsonable(self.case)))
        self.events['harness_errors'] += 1

    # -- serialisation ------------------------------------------------------
    def dump(self):
        return dict(
            prop_id=self.prop_id, evaluations=self.evaluations,
            nontrivial=sorted(self.nontrivial), classes=dict(self.classes),
            events=dict(self.events), clauses=self.clauses,
            violations=self.violations, viol_counts=dict(self.viol_counts),
            viol_what=self.viol_what, samples=self.samples,
            harness_errors=self.harness_errors, inconclusive=self.inconclusive)


def merge(dumps, prop_id):
    out = dict(prop_id=prop_id, evaluations=0, nontrivial=set(), classes=Counter(),
               events=Counter(), clauses={}, violations=[], viol_counts=Counter(),
               viol_what={}, samples=[], harness_errors=[], inconclusive=[],
               anchor_reach={})
    for d in dumps:
        out['evaluations'] += d['evaluations']
        out['nontrivial'].update(d['nontrivial'])
        out['classes'].update(d['classes'])
        out['events'].update(d['events'])
        for k, c in d['clauses'].items():
            o = out['clauses'].setdefault(k, dict(evals=0, violations=0, worst=0.0, tol=None))
            o['evals'] += c['evals']
            o['violations'] += c['violations']
            o['worst'] = max(o['worst'], c['worst'])
            if o['tol'] is None:
                o['tol'] = c['tol']
        out['violations'].extend(d['violations'])
        out['viol_counts'].update(d['viol_counts'])
        for k, v in d['viol_what'].items():
            out['viol_what'].setdefault(k, v)
        for s in d['samples']:
            if len(out['samples']) < 4:
                out['samples'].append(s)
        out['harness_errors'].extend(d['harness_errors'])
        out['inconclusive'].extend(d['inconclusive'])
        for fn, r in d.get('anchor_reach', {}).items():
            o = out['anchor_reach'].setdefault(fn, dict(calls=0, lines=set()))
            o['calls'] += r['calls']
            o['lines'].update(r['lines'])
    return out
