"""C09 -- reported OPD is the path difference to the chief-ray reference sphere.

Reference-model monitor: W is recomputed from separately traced rays (public tracer),
my own ABCD exit pupil, my own line-sphere intersection and my own plane-wavefront
bookkeeping, then compared with Wavefront / OPD / OPDFan / RmsWavefrontErrorVsField /
RayOperand.OPD_difference at their documented pupil samples.
"""
import math

import numpy as np

from vkit import lens as L

ID = 'C09'
RULE = ('random lenses with infinite object + angular fields or finite object + height fields (the statement\'s domain), '
        'fields along y (Hy in {0, 0.7, 1, random}), every lens wavelength, every named distribution and random ray '
        'counts, real and virtual exit pupils, air and immersed image space, focused and defocused image planes; '
        'non-trivial = peak |W| >= 0.01 waves (an unaberrated case cannot distinguish reference spheres) with >= 6 '
        'finite samples; distinct = distinct case hash')
TIERS = {'quick': dict(shards=8, cases=90), 'thorough': dict(shards=16, cases=2000)}
MIN_NONTRIVIAL = {'quick': 250, 'thorough': 3000}
MIN_EVALS = {'opd-vs-reference-sphere': 80, 'chief-ray-zero': 80, 'opd-rms': 15, 'opd-fan': 15,
             'rms-wavefront-vs-field': 8, 'opd-difference-operand': 15}
ASSUMPTIONS = ['exit pupil position from the independent ABCD oracle; rays from the public tracer',
               'the statement fixes centre and radius of the reference sphere but not which of the two ray-sphere '
               'intersections is meant: agreement with either root (one root for the whole pupil) is accepted and the '
               'root the library used is recorded per class',
               'tolerance 1e-6 waves + 1e-9 |W|']
ANCHORS = [('optiland.wavefront', 'Wavefront._trace_chief_ray'), ('optiland.wavefront', 'Wavefront._get_reference_sphere'),
           ('optiland.wavefront', 'Wavefront._opd_image_to_xp'), ('optiland.wavefront', 'Wavefront._correct_tilt'),
           ('optiland.wavefront', 'Wavefront._generate_field_data'), ('optiland.wavefront', 'Wavefront._get_path_length'),
           ('optiland.wavefront', 'OPD.rms'), ('optiland.wavefront', 'OPDFan.__init__'),
           ('optiland.analysis.rms_vs_field', 'RmsWavefrontErrorVsField._rms_wavefront_error'),
           ('optiland.optimization.operand.ray', 'RayOperand.OPD_difference')]
DISTS = ['hexapolar', 'uniform', 'cross', 'ring', 'line_x', 'line_y', 'random-seeded', 'random']


def gen_case(rng, tier, i):
    a = L.loguniform(rng, 1.0, 10.0)
    finite = rng.random() < 0.45
    kw = dict(semi=a, nsurf=(1, 8), asphere_p=0.15, conic_p=0.3, glass_p=0.25, image='paraxial_only',
              finite_p=(1.0 if finite else 0.0), field_types=(('object_height',) if finite else ('angle',)),
              neg_power_p=0.0, immersed_p=0.12, mirrors_p=(0.25 if rng.random() < 0.15 else 0.0),
              stop=str(rng.choice(['first', 'interior', 'last', 'any'])), max_field_deg=8.0, obj_medium_p=0.15)
    kw['nwl'] = (1, 3)
    spec, info = L.gen_axial(rng, **kw)
    if rng.random() < 0.15 and spec['surfaces'][-2].get('medium') != 'mirror':
        # dispersive, non-air image space (catalogue glass on both sides of the image surface)
        g = L.GLASSES[int(rng.integers(len(L.GLASSES)))]
        med = {'glass': g[0], 'ref': g[1]}
        spec['surfaces'][-2]['medium'] = dict(med)
        spec['surfaces'][-1]['medium'] = dict(med)
        P_ = L.psys(spec)
        ya_, ua_ = P_.marginal(L.epd_of(spec, P_))
        if abs(float(ua_[-2])) > 1e-9:
            bfd = -float(ya_[-2]) / float(ua_[-2])
            if bfd > 0:
                spec['surfaces'][-2]['t'] = bfd
        info['dispersive_image_space'] = True
    for s_ in spec['surfaces']:
        if s_.get('type') == 'even_asphere' and s_.get('coeffs'):
            s_['coeffs'][0] = 0.0        # r^2 term: C04 finding (library exit pupil differs from ABCD); not re-litigated here
    # defocus: move the image plane by up to ~ +-20 waves of defocus
    if rng.random() < 0.6:
        P = L.psys(spec)
        ya, ua = P.marginal(L.epd_of(spec, P))
        u = abs(float(ua[-1]))
        if u > 1e-6:
            wl = L.primary_wavelength(spec) * 1e-3
            dz = float(rng.uniform(-1, 1) * 20 * wl * 2 / u ** 2)
            spec['surfaces'][-2]['t'] = spec['surfaces'][-2]['t'] + dz
    if rng.random() < 0.08:
        fm_ = max(f[0] for f in spec['fields'])
        if fm_ > 0:      # field list dominated by a negative field: the maximum field is the largest |field|
            spec['fields'] = [[-fm_, 0.0, 0.0], [0.0, 0.0, 0.0], [round(0.5 * fm_, 6), 0.0, 0.0]]
            info['negfields'] = True
    kind = str(rng.choice(['wavefront', 'wavefront', 'wavefront', 'opd-rms', 'fan', 'vs-field', 'operand']))
    dist = DISTS[int(rng.integers(len(DISTS)))]
    n = int(rng.integers(2, 9)) if dist == 'hexapolar' else int(rng.integers(4, 30))
    case = dict(spec=spec, info=info, kind=kind, dist=dist, n=n, Hy=float(rng.choice([0.0, 0.7, 1.0, rng.uniform(0, 1)])),
                wli=int(rng.integers(len(spec['wavelengths']))), seed=int(rng.integers(1 << 30)))
    if rng.random() < 0.2 and not info.get('dispersive_image_space'):
        # the analysed lens is used once (traces, a wavefront), then edited through the public setters; the wavefront must
        # be that of the edited prescription (the oracle traces a lens built from scratch)
        ed = L.gen_edits(rng, spec, kinds=('index', 'radius', 'conic'))
        if ed and float(L.psys(L.apply_edits(None, spec, ed)).power()) > 0:
            case['edits'] = ed
    return case


def make_dist(name, n, seed):
    from optiland import distribution as D
    if name == 'random-seeded':
        d = D.RandomDistribution(seed=seed)
    else:
        d = D.create_distribution(name)
    d.generate_points(n)
    return d


def oracle_W(spec, lens, Hy, wl, px, py, nmed_img, n_obj):
    """W (waves) at pupil samples (px, py) for both sphere roots. Traces its own rays through `lens`."""
    P = L.psys(spec)
    xpl = float(P.XPL_from_image())
    zs = L.vertex_positions(spec)
    z_img = zs[-1]
    sg = lens.surface_group
    lens.trace_generic(0.0, float(Hy), 0.0, 0.0, wl)
    C = np.array([sg.x[-1, 0], sg.y[-1, 0], sg.z[-1, 0]])
    E = np.array([0.0, 0.0, z_img + xpl])
    R = float(np.linalg.norm(C - E))
    chief = dict(P=C.copy(), D=np.array([sg.L[-1, 0], sg.M[-1, 0], sg.N[-1, 0]]), opd=float(sg.opd[-1, 0]),
                 P0=np.array([sg.x[0, 0], sg.y[0, 0], sg.z[0, 0]]), D0=np.array([sg.L[0, 0], sg.M[0, 0], sg.N[0, 0]]))
    n = len(px)
    lens.trace_generic(np.zeros(n), np.full(n, float(Hy)), np.array(px, float), np.array(py, float), wl)
    Pi = np.stack([sg.x[-1], sg.y[-1], sg.z[-1]], -1)
    Di = np.stack([sg.L[-1], sg.M[-1], sg.N[-1]], -1)
    opd = sg.opd[-1].copy()
    P0 = np.stack([sg.x[0], sg.y[0], sg.z[0]], -1)
    inten = sg.intensity[-1].copy()
    infinite = spec['obj_t'] == 'inf'

    def paths(Pi_, Di_, opd_, P0_, root):
        # distance t >= 0 travelled BACK along the ray (direction -D) from the image point to the sphere |X - C| = R
        v = Pi_ - C
        b = np.sum(v * (-Di_), axis=-1)
        c = np.sum(v * v, axis=-1) - R * R
        disc = b * b - c
        with np.errstate(invalid='ignore'):
            sq = np.sqrt(disc)
        t = -b + root * sq
        path = opd_ - nmed_img * t
        if infinite:
            # refer all rays to one plane wavefront through the chief ray's launch point
            path = path + n_obj * np.sum((P0_ - chief['P0']) * chief['D0'], axis=-1)
        return path, t
    out = {}
    for root in (+1.0, -1.0):
        pc, tc = paths(chief['P'][None, :], chief['D'][None, :], np.array([chief['opd']]), chief['P0'][None, :], root)
        pr, tr = paths(Pi, Di, opd, P0, root)
        out[root] = ((pc[0] - pr) / (wl * 1e-3), tr, tc[0], pc[0], pr)
    return out, inten, dict(xpl=xpl, R=R)


def principal(ora, meta, wl):
    """The documented quantity from both sphere intersections.

    The distance back along a ray from its image point to the sphere |X - C| = R has one non-negative solution when the
    image point lies inside the sphere (every ordinary ray; the chief ray sits at the centre) - the `+` root, which is
    then THE path to the reference sphere.  A ray whose transverse aberration exceeds R lands outside the sphere: both
    intersections lie on the same side and the statement does not say which one is meant, so either is accepted for
    exactly those rays (counted as a class).  Returns Wp, Wm, outside, cond (rounding allowance in waves: the
    sphere radius and the accumulated path enter the subtraction with their full magnitude)."""
    lam = wl * 1e-3
    pc = ora[+1.0][3]
    Wp, Wm = (pc - ora[+1.0][4]) / lam, (pc - ora[-1.0][4]) / lam
    tp, tm = ora[+1.0][1], ora[-1.0][1]
    with np.errstate(invalid='ignore'):
        inside = (tm < 0) & (tp > 0)
    outside = np.isfinite(tp) & np.isfinite(tm) & ~inside
    cond = 64 * 2.220446049250313e-16 * (abs(meta['R']) + abs(pc)) / lam
    # a ray that lands FAR outside the sphere (transverse aberration many radii) has both intersections a long way b back
    # along the ray and close together (half-distance q): the discriminant b^2 - c cancels, t carries eps b^2/(2q)
    with np.errstate(invalid='ignore', divide='ignore'):
        b_, q_ = np.abs(tp + tm) / 2, np.abs(tp - tm) / 2
        far = 64 * 2.220446049250313e-16 * b_ * b_ / (2 * np.maximum(q_, 1e-300)) / lam
    meta['cond_outside'] = np.where(outside & np.isfinite(far), far, 0.0)
    return Wp, Wm, outside, cond


def check_case(case, rec):
    spec = case['spec']
    lens = L.build(spec)       # analysed by the library
    if case.get('edits'):
        from optiland.wavefront import Wavefront as _WF
        rec.cls('edited-after-first-use')
        try:
            lens.trace_generic(0.0, 0.5, 0.0, 0.5, L.primary_wavelength(spec))
            lens.paraxial.XPL(); lens.paraxial.EPL()
            _WF(lens, fields=[(0.0, 0.0)], wavelengths=[L.primary_wavelength(spec)], num_rays=3, distribution='hexapolar')
            # ... and the very field and wavelength that are analysed after the edit
            _fm = max(abs(f[0]) for f in spec['fields'])
            _WF(lens, fields=[(0.0, case['Hy'] if _fm > 0 else 0.0)], wavelengths=[float(spec['wavelengths'][case['wli']][0])],
                num_rays=3, distribution='hexapolar')
        except Exception:
            pass       # the first use is not judged
        spec = L.apply_edits(lens, spec, case['edits'])
    lens2 = L.build(spec)      # traced by the oracle
    # the surface records of the analysed lens hold an unrelated single-ray trace when the analysis starts (what was
    # traced before must not matter)
    try:
        lens.trace_generic(0.0, 0.37, 0.21, -0.45, float(spec['wavelengths'][case['wli']][0]))
    except Exception:
        pass
    wl = float(spec['wavelengths'][case['wli']][0])
    kind = case['kind']
    fmax = max(abs(f[0]) for f in spec['fields'])
    Hy = case['Hy'] if fmax > 0 else 0.0
    if case['info'].get('negfields'):
        rec.cls('negative-dominant-fields')
    nmed_img = float(np.ravel(lens.surface_group.surfaces[-1].material_post.n(wl))[0])
    n_prev = float(np.ravel(lens.surface_group.surfaces[-1].material_pre.n(wl))[0])
    n_obj = float(np.ravel(lens.surface_group.surfaces[0].material_post.n(wl))[0])
    immersed = abs(n_prev - 1.0) > 1e-12
    if case['info'].get('dispersive_image_space'):
        rec.cls('image-space-dispersive-glass' + ('-nonprimary-wavelength' if wl != L.primary_wavelength(spec) else ''))
    P = L.psys(spec)
    xpl = float(P.XPL_from_image())
    rec.cls(f'kind-{kind}', f"dist-{case['dist']}", 'object-infinite' if spec['obj_t'] == 'inf' else 'object-finite',
            'image-immersed' if immersed else 'image-in-air', 'exit-pupil-virtual(beyond image)' if xpl > 0 else 'exit-pupil-real',
            f"mirrors-{min(2, L.n_mirrors(spec))}")
    from optiland.wavefront import Wavefront, OPD, OPDFan
    lens2.trace_generic(0.0, float(Hy), 0.0, 0.0, wl)
    if not np.isfinite(lens2.surface_group.y[-1, 0]):
        rec.cls('chief-ray-does-not-exist-skipped')
        return

    def compare(clause, W_lib, px, py, detail_extra=None):
        ora, inten, meta = oracle_W(spec, lens2, Hy, wl, px, py, n_prev, n_obj)
        W_lib = np.asarray(W_lib, float)
        Wp, Wm, outside, cond = principal(ora, meta, wl)
        with np.errstate(invalid='ignore'):
            cr = cond + meta['cond_outside']
            ep = np.abs(Wp - W_lib) / (1e-6 + 1e-9 * np.abs(Wp) + cr)
            em = np.abs(Wm - W_lib) / (1e-6 + 1e-9 * np.abs(Wm) + cr)
        e = np.where(outside, np.fmin(ep, em), ep)
        if outside.any():
            rec.cls('rays-outside-reference-sphere-either-root-accepted')
        W = np.where(outside & (em < ep), Wm, Wp)
        if np.array_equal(np.isfinite(W), np.isfinite(W_lib)):
            r = float(np.nanmax(e)) if np.isfinite(e).any() else 0.0
        else:
            r = float('inf')
        key = None      # (the image-space-index defect was repaired: no as-built model, a regression is a plain violation)
        fin = np.isfinite(W)
        peak = float(np.max(np.abs(W[fin]))) if fin.any() else 0.0
        rec.check(clause, r <= 1, key=key, resid=r, tol=1.0,
                  msg=f'{clause}: reported OPD differs from (chief path - ray path)/lambda to the reference sphere '
                      f'(worst {r:.3g} x tolerance; peak |W| {peak:.3g} waves; XPL {meta["xpl"]:.4g}, R {meta["R"]:.4g})',
                  detail=dict(lib=W_lib[:6], oracle=W[:6], rays_outside_sphere=int(outside.sum()), **(detail_extra or {})))
        if peak >= 0.01 and fin.sum() >= 6:
            rec.nontrivial_case()
        rec.event('pupil_samples_compared', int(fin.sum()))
        return W

    if kind == 'wavefront':
        if case['dist'] == 'random':
            # unseeded named distribution: the documented samples are the ones the object exposes afterwards
            wf = Wavefront(lens, fields=[(0.0, Hy)], wavelengths=[wl], num_rays=case['n'], distribution='random')
            px, py = np.array(wf.distribution.x, float).copy(), np.array(wf.distribution.y, float).copy()
        elif case['dist'] != 'random-seeded' and case['seed'] % 2 == 0:
            # named distribution handed over BY NAME; a second analysis with the same name and another ray count is made
            # before the documented samples (wf.distribution) are read: they must still be the ones wf was evaluated on
            wf = Wavefront(lens, fields=[(0.0, Hy)], wavelengths=[wl], num_rays=case['n'], distribution=case['dist'])
            Wavefront(lens, fields=[(0.0, 0.0)], wavelengths=[wl], num_rays=case['n'] + 2, distribution=case['dist'])
            px, py = np.array(wf.distribution.x, float).copy(), np.array(wf.distribution.y, float).copy()
            rec.cls('named-distribution-read-late')
            if len(px) != len(np.ravel(wf.data[0][0][0])):
                rec.check('opd-vs-reference-sphere', False, key='opd-vs-reference-sphere:samples-not-those-of-the-data',
                          msg=f"Wavefront(distribution='{case['dist']}', num_rays={case['n']}).distribution holds {len(px)} points "
                              f"but its data {len(np.ravel(wf.data[0][0][0]))} (after a second analysis with the same name)")
                return
        else:
            d = make_dist(case['dist'], case['n'], case['seed'])
            px, py = np.array(d.x, float).copy(), np.array(d.y, float).copy()
            wf = Wavefront(lens, fields=[(0.0, Hy)], wavelengths=[wl], num_rays=case['n'], distribution=d)
        W = compare('opd-vs-reference-sphere', wf.data[0][0][0], px, py)
        # chief ray: exactly zero
        d0 = make_dist('ring', 1, 0)
        d0.x, d0.y = np.array([0.0]), np.array([0.0])
        wf0 = Wavefront(lens, fields=[(0.0, Hy)], wavelengths=[wl], num_rays=1, distribution=d0)
        w0 = float(np.ravel(wf0.data[0][0][0])[0])
        rec.check('chief-ray-zero', abs(w0) <= 1e-9, resid=abs(w0), tol=1e-9, msg=f'OPD of the chief ray is {w0!r}, not zero')
    elif kind == 'opd-rms':
        nr = max(2, min(8, case['n']))
        o = OPD(lens, (0.0, Hy), wl, num_rings=nr)
        d = make_dist('hexapolar', nr, 0)
        W = compare('opd-vs-reference-sphere', o.data[0][0][0], d.x, d.y)
        want = float(np.sqrt(np.mean(W ** 2)))
        if not np.isfinite(want):
            rec.cls('pupil-has-lost-rays-rms-skipped')
            return
        rec.check('opd-rms', abs(float(o.rms()) - want) <= 1e-6 + 1e-9 * want, resid=abs(float(o.rms()) - want), tol=1e-6,
                  msg=f'OPD.rms() {o.rms()!r} vs sqrt(mean(W^2)) on the hexapolar samples {want!r}')
    elif kind == 'fan':
        nr = case['n']
        o = OPDFan(lens, fields=[(0.0, Hy)], wavelengths=[wl], num_rays=nr)
        d = make_dist('cross', nr, 0)
        compare('opd-fan', o.data[0][0][0], d.x, d.y)
        rec.check('opd-fan', np.array_equal(np.asarray(o.pupil_coord), np.linspace(-1, 1, nr)), key='opd-fan:pupil-axis',
                  msg='OPDFan pupil coordinate axis is not linspace(-1, 1, num_rays)')
    elif kind == 'vs-field':
        from optiland.analysis.rms_vs_field import RmsWavefrontErrorVsField
        # every named (deterministic) distribution: the curve is the RMS over ITS samples
        dname = case['dist'] if case['dist'] in ('hexapolar', 'uniform', 'cross', 'ring', 'line_x', 'line_y') else 'hexapolar'
        nf, nr = 5, (max(2, min(6, case['n'])) if dname == 'hexapolar' else max(4, case['n']))
        rec.cls(f'vs-field-distribution-{dname}')
        # (the judged wavelength is not the first of the analysed list when the lens has another one: every wavelength has
        #  its own curve)
        others = [float(w_[0]) for w_ in spec['wavelengths'] if float(w_[0]) != wl]
        wl_list = [others[0], wl] if others else [wl]
        col = len(wl_list) - 1
        rec.cls('vs-field-two-wavelengths' if others else 'vs-field-one-wavelength')
        o = RmsWavefrontErrorVsField(lens, num_fields=nf, wavelengths=wl_list, num_rays=nr, distribution=dname)
        got = np.asarray(o._wavefront_error, float)
        d = make_dist(dname, nr, 0)
        want, sane = [], []
        for h in np.linspace(0, 1, nf):
            ora, _, meta = oracle_W(spec, lens2, float(h), wl, d.x, d.y, n_prev, n_obj)
            Wp, _, outside, cond = principal(ora, meta, wl)
            want.append(float(np.sqrt(np.mean(Wp ** 2))))
            sane.append(not outside.any())
        want, sane = np.array(want), np.array(sane)
        if not np.all(np.isfinite(want)):
            rec.cls('pupil-has-lost-rays-rms-skipped')
            return
        g = got.reshape(nf, -1)[:, col]
        if not sane.all():
            rec.cls('field-points-with-rays-outside-the-reference-sphere-skipped')   # root not fixed by the statement there
        if not sane.any():
            return
        g, want = g[sane], want[sane]
        r = float(np.max(np.abs(g - want) / (1e-6 + 1e-9 * np.abs(want) + cond)))
        key = None
        rec.check('rms-wavefront-vs-field', r <= 1, key=key, resid=r, tol=1.0,
                  msg=f'RMS wavefront error vs field {g} differs from the recomputed {want}')
        if float(np.max(want)) >= 0.01:
            rec.nontrivial_case()
    else:
        from optiland.optimization.operand.ray import RayOperand
        from optiland.distribution import GaussianQuadrature
        nr = int(min(6, max(1, case['n'] % 7 or 3)))
        sym = (Hy == 0)
        gq = GaussianQuadrature(is_symmetric=sym)
        gq.generate_points(nr)
        wts = gq.get_weights(nr)
        wts = np.asarray(wts, float) if sym else np.repeat(np.asarray(wts, float), 3)
        got = float(RayOperand.OPD_difference(lens, 0.0, Hy, nr, wl))
        ora, _, meta = oracle_W(spec, lens2, Hy, wl, gq.x, gq.y, n_prev, n_obj)
        Wp, _, outside, cond = principal(ora, meta, wl)
        wants = [float(np.mean(np.abs((Wp - np.mean(Wp)) * wts)))]
        if not np.all(np.isfinite(wants)):
            rec.cls('pupil-has-lost-rays-rms-skipped')
            return
        if outside.any():
            rec.cls('operand-with-rays-outside-the-reference-sphere-skipped')
            return
        r = min(abs(got - w) / (1e-6 + 1e-9 * abs(w) + cond) for w in wants)
        key = None
        rec.check('opd-difference-operand', r <= 1, key=key, resid=r, tol=1.0,
                  msg=f'RayOperand.OPD_difference {got!r} vs the documented weighted mean on Gaussian-quadrature samples {wants}')
        if max(wants) >= 0.01:
            rec.nontrivial_case()
    rec.sample(dict(case={k: v for k, v in case.items() if k != 'info'}))
