#!/bin/bash
# tools/seedall.sh [jobs] [name-filter]: re-confirm every seeded break against the CURRENT checks (regression test of the monitors).
# For each /verif/seeded/<name>: scratch worktree of /repo HEAD under /tmp, patch applied there, the checks named in
# meta.json (confirmed_by_verif.caught_by / check) run with VERIF_REPO=<scratch>; prints caught / MISSED per break.
J=${1:-4}; F=${2:-}
cd /verif
one() {
  d=$1; n=$(basename $d)
  checks=$(python3 -c "
import json;m=json.load(open('$d/meta.json'));c=m.get('confirmed_by_verif',{})
print(' '.join(c.get('caught_by') or [c.get('check') or m['property']]))")
  out=$(SKIP_SUITE=1 bash tools/seedcheck.sh $d $checks 2>&1)
  last=$(echo "$out" | awk '/^== /{buf=""} {buf=buf"\n"$0} END{print buf}')
  if echo "$last" | grep -q "PATCH DOES NOT APPLY"; then echo "STALE   $n (patch does not apply to HEAD)";
  elif echo "$last" | grep -q "^VIOLATION"; then echo "caught  $n ($checks)"; else echo "MISSED  $n ($checks)"; fi
}
export -f one
ls -d seeded/*${F}*/ | sed 's#/$##' | while read d; do grep -q '"retired"' $d/meta.json || echo $d; done | xargs -P $J -I{} bash -c 'one {}'
