#!/usr/bin/env python3
"""tools/margins.py <evidence dir>: how far each check's observed counts are above its minimum counts (run under /venv python)."""
import json, glob, importlib, sys, os
sys.path.insert(0, os.path.join(os.path.dirname(os.path.abspath(__file__)), '..'))
evd = sys.argv[1] if len(sys.argv) > 1 else 'evidence'
for f in sorted(glob.glob(os.path.join(evd, 'C*.json'))):
    d = json.load(open(f)); c = d['coverage']; pid = d['property_id']; tier = d['tier']
    m = importlib.import_module('props.' + pid.lower())
    out = []
    for cl, need in getattr(m, 'MIN_EVALS', {}).items():
        if isinstance(need, dict):
            need = need.get(tier, 0)
        got = c['clauses'].get(cl, {}).get('evaluations', 0)
        if need:
            out.append((got / need, cl, got, need))
    mn = getattr(m, 'MIN_NONTRIVIAL', 0)
    nn = mn.get(tier, 0) if isinstance(mn, dict) else mn
    if nn:
        out.append((c['distinct_nontrivial'] / nn, 'NONTRIVIAL', c['distinct_nontrivial'], nn))
    out.sort()
    print(pid, tier, 'wall', d['wall_s'], 'tightest:', [(round(a, 2), b, g, n) for a, b, g, n in out[:3]])
