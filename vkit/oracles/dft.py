"""Independent Fourier-optics oracle for C11 (PSF / Strehl / MTF).

Everything here is written from the textbook definitions (Goodman, Introduction to
Fourier Optics, ch. 6: PSF = |F{P}|^2 with the generalised pupil P = A exp(i 2 pi W);
OTF = normalised autocorrelation of P; circular clear pupil:
MTF = (2/pi)(phi - cos phi sin phi), phi = arccos(nu / nu_c), nu_c = 1/(lambda F#)),
and shares no code with optiland.

Layout of the sampled pupil (the *documented* layout of optiland's 'uniform' pupil
distribution): the N x N square grid linspace(-1, 1, N) x linspace(-1, 1, N)
(x along columns, y along rows), restricted to the points with x^2 + y^2 <= 1,
listed in row-major order.  `Wavefront.data[field][wavelength]` = (W in waves,
intensity), one entry per listed point.

Two independent evaluations of the DFT are provided:
  * `dft2_explicit`  -- matrix form  F = E P E^T  with E[k, n] = exp(-2 pi i k n / M),
    k taken directly in centred order (no fft, no fftshift, pupil anchored at index 0);
  * `dft2_fft`       -- numpy.fft with the pupil anchored at the corner (`s=` padding,
    i.e. a different placement from a centred pad; |F| is placement independent by the
    shift theorem) followed by fftshift.
`psf_oracle` uses the explicit form when it is affordable and cross-checks the two;
a disagreement raises OracleSelfCheck (a harness problem, never a library verdict).
"""
import numpy as np

TWO_PI = 2.0 * np.pi


class OracleSelfCheck(RuntimeError):
    pass


# ---------------------------------------------------------------------------
# pupil

def disk_mask(N):
    """Points of the N x N grid on [-1, 1]^2 that belong to the unit disk (x^2 + y^2 <= 1)."""
    x = np.linspace(-1.0, 1.0, int(N))
    X, Y = np.meshgrid(x, x)
    return (X * X + Y * Y) <= 1.0


def pupil_from_samples(W, I, N):
    """-> (P, A, mask): complex pupil A exp(+i 2 pi W) and its amplitude A = sqrt(I) on the N x N grid.
    Raises ValueError when the number of samples is not the number of grid points in the disk."""
    W = np.asarray(W, dtype=float).ravel()
    I = np.asarray(I, dtype=float).ravel()
    mask = disk_mask(N)
    if W.size != int(mask.sum()) or I.size != W.size:
        raise ValueError(f'{W.size} wavefront samples for {int(mask.sum())} grid points in the disk (N={N})')
    A = np.zeros((N, N))
    A[mask] = np.sqrt(I)
    ph = np.zeros((N, N))
    ph[mask] = np.where(np.isfinite(W), W, 0.0)
    P = A * np.exp(1j * TWO_PI * ph)
    return P, A, mask


# ---------------------------------------------------------------------------
# two-dimensional DFT, centred output (zero frequency at index M // 2)

def _centred_dft_matrix(M, N, rows=None):
    """E[r, n] = exp(-2 pi i k_r n / M), k_r = rows[r] - M // 2 (all rows when rows is None).
    The product k n is reduced modulo M in integer arithmetic so that the phase is exact."""
    M = int(M)
    r = np.arange(M) if rows is None else np.asarray(rows, dtype=np.int64)
    k = r - M // 2
    kn = np.mod(np.outer(k, np.arange(int(N), dtype=np.int64)), M)
    return np.exp(-1j * TWO_PI * kn / M)


def dft2_explicit(P, M):
    """|.|-compatible centred DFT of P zero-extended to M x M (P anchored at index 0)."""
    N = P.shape[0]
    E = _centred_dft_matrix(M, N)
    return (E @ P) @ E.T


def dft2_fft(P, M):
    return np.fft.fftshift(np.fft.fft2(P, s=(int(M), int(M))))


EXPLICIT_MAX_FLOPS = 3.0e8      # M*M*N above which only the FFT form is used


def power_spectrum(P, M, want_explicit=None):
    """|DFT|^2 of P zero-extended to M x M, centred.  -> (S, how, self_check_residual)."""
    N = P.shape[0]
    if M < N:
        raise ValueError('grid smaller than the pupil sampling')
    Sf = np.abs(dft2_fft(P, M)) ** 2
    use_explicit = (M * M * N <= EXPLICIT_MAX_FLOPS) if want_explicit is None else want_explicit
    if not use_explicit:
        return Sf, 'fft', None
    Se = np.abs(dft2_explicit(P, M)) ** 2
    scale = max(float(Se.max()), 1e-300)
    r = float(np.max(np.abs(Se - Sf))) / scale
    if not r <= 1e-11:
        raise OracleSelfCheck(f'explicit DFT and FFT disagree by {r:.3e} of the peak (N={N}, M={M})')
    return Se, 'explicit', r


def psf_oracle(P, A, M):
    """PSF in the statement's normalisation: 100 * |DFT(P)|^2 / max |DFT(A)|^2 (A = same amplitude,
    zero phase), on an M x M grid with the zero-frequency pixel at [M//2, M//2].
    -> dict(psf, psf0 (unaberrated), peak0, how, self_check)."""
    S, how, r1 = power_spectrum(P, M)
    S0, _, r2 = power_spectrum(A.astype(complex), M)
    peak0 = float(S0.max())
    # the unaberrated peak is the zero-frequency sample (sum A)^2: a closed form to pin the DFT scale
    closed = float(A.sum()) ** 2
    if not abs(peak0 - closed) <= 1e-11 * closed:
        raise OracleSelfCheck(f'unaberrated peak {peak0!r} is not (sum A)^2 = {closed!r}')
    return dict(psf=100.0 * S / peak0, psf0=100.0 * S0 / peak0, peak0=peak0, how=how,
                self_check=max(r1 or 0.0, r2 or 0.0))


def parseval_total(A, M):
    """Closed form of sum(PSF) in the statement's normalisation (Parseval): 100 M^2 sum A^2 / (sum A)^2."""
    return 100.0 * float(M) ** 2 * float((A * A).sum()) / float(A.sum()) ** 2


# ---------------------------------------------------------------------------
# MTF

def dft_column(img, rows, col):
    """|2-D DFT| of the real image `img` (M x M) at centred-index positions (rows[i], col):
    frequencies (rows - M//2, col - M//2).  Direct sums, no fft."""
    M = img.shape[0]
    kx = int(col) - M // 2
    ex = np.exp(-1j * TWO_PI * np.mod(kx * np.arange(M, dtype=np.int64), M) / M)
    g = img @ ex                                   # contract x (columns)
    Ey = _centred_dft_matrix(M, M, rows=rows)
    return np.abs(Ey @ g)


def dft_row(img, row, cols):
    return dft_column(img.T, cols, row)


def mtf_from_psf(psf, start, fixed):
    """The two one-sided cuts through |DFT(psf)| that start at centred index `start` with the other
    index held at `fixed` (tangential = along rows/y, sagittal = along columns/x), each divided
    by its own maximum.  With start = fixed = M//2 these are the MTF curves from zero frequency."""
    M = psf.shape[0]
    idx = np.arange(int(start), M)
    if idx.size == 0 or not (0 <= fixed < M):
        return None, None
    t = dft_column(psf, idx, fixed)
    s = dft_row(psf, fixed, idx)
    return t / t.max(), s / s.max()


def autocorrelation_y(P, lags):
    """Linear (non-circular) autocorrelation of the N x N pupil along rows (y) at integer lags >= 0."""
    N = P.shape[0]
    out = np.zeros(len(lags), dtype=complex)
    for i, s in enumerate(lags):
        s = int(s)
        if s < N:
            out[i] = np.sum(P[s:, :] * np.conj(P[:N - s, :]))
    return out


def autocorrelation_x(P, lags):
    return autocorrelation_y(P.T, lags)


def mtf_linear(P, n, axis='y'):
    """|autocorrelation| / autocorrelation(0) at lags 0..n-1 (zero beyond N-1): the alias-free MTF of
    the sampled pupil on the index axis nu_k / nu_c = k / (N - 1)."""
    f = autocorrelation_y if axis == 'y' else autocorrelation_x
    c = f(P, np.arange(n))
    return np.abs(c) / abs(c[0])


def diffraction_limit(r):
    """(2/pi)(phi - cos phi sin phi), phi = arccos(r), r = nu/nu_c clipped to [0, 1] (0 beyond cut-off)."""
    r = np.clip(np.asarray(r, dtype=float), 0.0, 1.0)
    phi = np.arccos(r)
    return (2.0 / np.pi) * (phi - np.cos(phi) * np.sin(phi))


# ---------------------------------------------------------------------------
# geometric MTF

def line_spread_histogram(u, nbins):
    """Equal-width histogram over [min u, max u] (a degenerate range is widened by +-0.5, the
    numpy convention).  -> (counts, centres, width)."""
    u = np.asarray(u, dtype=float)
    counts, edges = np.histogram(u, bins=int(nbins))
    centres = 0.5 * (edges[1:] + edges[:-1])
    return counts.astype(float), centres, float(edges[1] - edges[0])


def fourier_modulus(weights, positions, freqs):
    """| sum_j w_j exp(2 pi i nu x_j) | / sum_j w_j  for every nu."""
    w = np.asarray(weights, dtype=float)
    x = np.asarray(positions, dtype=float)
    nu = np.asarray(freqs, dtype=float)
    ph = TWO_PI * np.outer(nu, x)
    z = (np.cos(ph) @ w) + 1j * (np.sin(ph) @ w)
    return np.abs(z) / w.sum()
