"""C04 -- paraxial properties equal matrix optics (reference-model monitor).

The library's Paraxial API is called on a generated lens; every returned number is
compared with the independent y-nu oracle (vkit/oracles/paraxial.py) built from the
*spec* (curvatures, separations, indices at the primary wavelength; mirror = index
sign reversal).  Conventions (reference point and sign of each quantity) are fixed
here once, from the library's docstrings, and then required of every lens class.
"""
import math

import numpy as np

from vkit import lens as L

ID = 'C04'
RULE = ('random axially symmetric prescriptions (2-9 interfaces; spheres, conics, even aspheres, planes, '
        'mirrors with negative thicknesses; ideal and catalogue media; stop first/interior/last; infinite or '
        'finite object; EPD / imageFNO / objectNA; angle / object-height fields; positive and negative power; '
        'immersed image space) drawn by the constraint-based generator, plus the bundled sample designs; '
        'a case is non-trivial when it has >= 2 powered interfaces; distinct = distinct spec hash')
TIERS = {'quick': dict(shards=6, cases=110), 'thorough': dict(shards=16, cases=3000)}
MIN_NONTRIVIAL = {'quick': 100, 'thorough': 1000}
MIN_EVALS = {'f2': 50, 'EPL': 50, 'marginal_ray': 50, 'chief_ray': 50, 'invariant-constant': 50,
             'linearity': 50}
ASSUMPTIONS = ['indices of catalogue media are taken from the library material objects (C18 checks them against the data files)',
               'the oracle is an independent y-nu trace in float64 and longdouble; tolerances are 1e-9 relative, '
               'widened to 1000x the float64/longdouble difference of the oracle itself where that is larger']
ANCHORS = [('optiland.surfaces.standard_surface', 'Surface._trace_paraxial'),
           ('optiland.surfaces.surface_group', 'SurfaceGroup.inverted'),
           ('optiland.paraxial', 'Paraxial._trace_generic'),
           ('optiland.paraxial', 'Paraxial.EPL'), ('optiland.paraxial', 'Paraxial.XPL'),
           ('optiland.paraxial', 'Paraxial.chief_ray'), ('optiland.paraxial', 'Paraxial.marginal_ray'),
           ('optiland.paraxial', 'Paraxial.f1'), ('optiland.paraxial', 'Paraxial.f2'),
           ('optiland.paraxial', 'Paraxial.F1'), ('optiland.paraxial', 'Paraxial.F2'),
           ('optiland.paraxial', 'Paraxial.P1'), ('optiland.paraxial', 'Paraxial.P2'),
           ('optiland.paraxial', 'Paraxial.N1'), ('optiland.paraxial', 'Paraxial.N2'),
           ('optiland.paraxial', 'Paraxial.EPD'), ('optiland.paraxial', 'Paraxial.XPD'),
           ('optiland.paraxial', 'Paraxial.FNO'), ('optiland.paraxial', 'Paraxial.magnification'),
           ('optiland.paraxial', 'Paraxial.invariant'), ('optiland.paraxial', 'Paraxial.trace')]


def fixed_cases(tier):
    from vkit import samples
    return [dict(kind='sample', name=n) for n in samples.names()]


def gen_case(rng, tier, i):
    r = rng.random()
    kw = dict(asphere_p=0.15, glass_p=0.2, immersed_p=0.12, neg_power_p=0.3, image='any', obj_medium_p=0.25)
    if r < 0.25:
        kw['mirrors_p'] = 0.35
    stops = ['first', 'interior', 'last', 'any']
    kw['stop'] = stops[int(rng.integers(4))]
    spec, info = L.gen_axial(rng, **kw)
    if rng.random() < 0.08:
        fm_ = max(f[0] for f in spec['fields'])
        if fm_ > 0:      # field list dominated by a negative field: the maximum field is the largest |field|
            spec['fields'] = [[-fm_, 0.0, 0.0], [0.0, 0.0, 0.0], [round(0.5 * fm_, 6), 0.0, 0.0]]
            info['negfields'] = True
    case = dict(kind='random', spec=spec, info=info, py=round(float(rng.uniform(-1, 1)), 3) or 0.5)
    if rng.random() < 0.25:
        # every paraxial quantity is queried once, THEN the lens is edited through the public setters and queried again:
        # the answers are those of the lens as it is now
        K = len(spec['surfaces'])
        edits = []
        for _ in range(int(rng.integers(1, 3))):
            k = int(rng.integers(1, K))
            su = spec['surfaces'][k - 1]
            kind = str(rng.choice(['index', 'radius', 'thickness']))
            if kind == 'index' and k < K - 1 and su.get('medium') != 'mirror' and spec['surfaces'][k].get('medium') != 'mirror':
                edits.append(['index', k, round(float(rng.uniform(1.3, 1.95)), 6)])
            elif kind == 'radius' and su.get('radius', 'inf') != 'inf':
                edits.append(['radius', k, round(float(su['radius']) * float(rng.uniform(0.7, 1.5)), 6)])
            elif kind == 'thickness':
                edits.append(['thickness', k, round(float(su['t']) * float(rng.uniform(0.5, 1.5)), 6)])
        if edits:
            case['edits'] = edits
    return case


def oracle_values(spec, dtype, asbuilt=()):
    """asbuilt: set of known-defect mechanisms to model (what the library is known to do instead)."""
    P = L.psys(spec, dtype=dtype, ignore_r2='asphere-r2-term' in asbuilt)
    R = P.reverse()
    y, u = P.efl_data()
    yr, ur = R.efl_data()
    o = {}
    sK = 1.0 if P.n[-1] > 0 else -1.0
    o['f2'] = sK * (-1.0 / u[-1])                 # |n'_K| / Phi
    if 'negative-power' in asbuilt:
        o['f2'] = abs(o['f2'])
    o['F2'] = -y[-1] / u[-1]                      # from the image surface
    o['f1'] = 1.0 / ur[-1]                        # library: y0/u_last of the reversed trace
    o['F1'] = yr[-1] / ur[-1]                     # from vertex 1
    o['P1'] = o['F1'] - o['f1']
    o['P2'] = o['F2'] - o['f2']
    o['N1'] = o['P1'] + o['f1'] + o['f2']
    o['N2'] = o['P2'] + o['f1'] + o['f2']
    o['EPL'] = P.EPL()
    o['XPL'] = P.XPL_from_image()
    typ, val = spec['aperture']
    if typ == 'EPD':
        epd = dtype(val)
    elif typ == 'imageFNO':
        epd = o['f2'] / dtype(val)
    else:
        n0 = abs(P.n[0])
        epd = 2 * (o['EPL'] + P.t0) * np.tan(np.arcsin(dtype(val) / n0))
    o['EPD'] = epd
    o['FNO'] = dtype(val) if typ == 'imageFNO' else o['f2'] / epd
    ya, ua = P.marginal(epd)
    o['ya'], o['ua'] = ya, ua
    o['XPD'] = 2 * (ya[-1] + ua[-1] * o['XPL'])
    # lateral magnification n u / (n' u') with SIGNED indices (mirror = index sign reversal)
    o['mag'] = P.n[0] * ua[0] / (P.n[-1] * ua[-1])
    if 'mirror-unsigned-index' in asbuilt:
        o['mag'] = abs(P.n[0]) * ua[0] / (abs(P.n[-1]) * ua[-1])
    fmax = max(abs(f[0]) for f in spec['fields'])       # the full field is the largest |field|
    yb, ub, yobj, uobj = P.chief(spec['field_type'], fmax)
    o['yb'], o['ub'], o['ub0'] = yb, ub, uobj
    o['lagrange'] = P.lagrange(ya[1:], ua[1:], yb, ub)
    return o, P


def _scalar(x):
    return float(np.ravel(np.asarray(x, dtype=float))[0])


def check_case(case, rec):
    if case['kind'] == 'sample':
        from vkit import samples
        lens, spec = samples.load(case['name'])
        if spec is None:
            rec.cls('sample-not-axial-skipped')
            return
        rec.cls('sample')
    else:
        spec, info = case['spec'], case['info']
        lens = L.build(spec)
        rec.cls(*L.class_names(info))
        if case.get('edits'):
            import copy
            rec.cls('edited-after-first-use')
            par_ = lens.paraxial
            with np.errstate(all='ignore'):
                for q_ in ('f1', 'f2', 'F1', 'F2', 'P1', 'P2', 'EPL', 'EPD', 'XPL', 'XPD', 'FNO', 'magnification', 'invariant',
                           'marginal_ray', 'chief_ray'):
                    try:
                        getattr(par_, q_)()
                    except Exception:
                        pass       # judged below, on the edited lens, where the query is made again
            lens.trace_generic(0.0, 0.5, 0.0, 0.5, L.primary_wavelength(spec))
            spec = copy.deepcopy(spec)
            for kind_, k_, v_ in case['edits']:
                su_ = spec['surfaces'][k_ - 1]
                if kind_ == 'index':
                    lens.set_index(v_, k_); su_['medium'] = {'n': v_}
                elif kind_ == 'radius':
                    lens.set_radius(v_, k_); su_['radius'] = v_
                else:
                    lens.set_thickness(v_, k_); su_['t'] = v_
                rec.event('edits_applied')
        if info.get('negfields'):
            rec.cls('negative-dominant-fields')
    o64, P = oracle_values(spec, np.float64)
    old, _ = oracle_values(spec, np.longdouble)
    powered = int(np.sum(np.abs(P.c[:-1] * (P.n[1:-1] - P.n[:-2])) > 0))
    if powered >= 2:
        rec.nontrivial_case()

    # which known-defect mechanisms *could* act on this lens (class flags, never values)
    asph_c1 = any(s.get('type') == 'even_asphere' and s.get('coeffs') and s['coeffs'][0] != 0
                  for s in spec['surfaces'])
    P_ab = L.psys(spec, ignore_r2=True)
    neg = float(P.power()) < 0 or float(P_ab.power()) < 0
    mech = set()
    odd_mirrors = L.n_mirrors(spec) % 2 == 1
    first_mirror = spec['surfaces'][0].get('medium') == 'mirror'
    if odd_mirrors or first_mirror:
        mech.add('mirror-unsigned-index')
    if asph_c1:
        mech.add('asphere-r2-term')
    if neg:
        mech.add('negative-power')
    oab = oracle_values(spec, np.float64, asbuilt=mech)[0] if mech else None
    oab_ld = oracle_values(spec, np.longdouble, asbuilt=mech)[0] if mech else None
    rec.cls(*[f'mech-{m}' for m in sorted(mech)])
    scale_len = max(1.0, float(np.max(np.abs(P.z))), abs(float(o64['f2'])) if np.isfinite(o64['f2']) else 1.0)

    def cond(name):
        c = float(np.max(np.abs(np.asarray(o64[name], float) - np.asarray(old[name], float))))
        if oab is not None:
            # the as-built system (known mechanisms modelled in) may be worse conditioned than the true one
            with np.errstate(all='ignore'):
                c2 = np.max(np.abs(np.asarray(oab[name], float) - np.asarray(oab_ld[name], float)))
            if np.isfinite(c2):
                c = max(c, float(c2))
        return c

    def flags_for(*names):
        return tuple(m for m in ('asphere-r2-term', 'negative-power', 'mirror-unsigned-index')
                     if m in mech and m in names)

    par = lens.paraxial

    def cmp_scalar(name, got, uses=('asphere-r2-term',), lenscale=True):
        want = float(o64[name])
        got = _scalar(got)
        sc = max(1.0, abs(want), scale_len if lenscale else 1.0)
        fl = flags_for(*uses)
        rec.close(name, got, want, 1e-9 + 1e3 * cond(name) / sc, scale=sc,
                  alt=(float(oab[name]) if fl else None), flags=fl,
                  msg=f'{name}: library {got!r} vs ABCD {want!r}')

    A, NP = 'asphere-r2-term', 'negative-power'
    fno_ap = spec['aperture'][0] == 'imageFNO'
    cmp_scalar('f2', par.f2(), (A, NP))
    cmp_scalar('f1', par.f1())
    cmp_scalar('F1', par.F1())
    cmp_scalar('F2', par.F2())
    cmp_scalar('P1', par.P1())
    cmp_scalar('P2', par.P2(), (A, NP))
    cmp_scalar('N1', par.N1(), (A, NP))
    cmp_scalar('N2', par.N2())
    cmp_scalar('EPL', par.EPL())
    cmp_scalar('XPL', par.XPL())
    cmp_scalar('EPD', par.EPD(), (A, NP) if fno_ap else (A,))
    cmp_scalar('FNO', par.FNO(), (A,) if fno_ap else (A, NP), lenscale=False)
    cmp_scalar('XPD', par.XPD(), (A, NP) if fno_ap else (A,))
    MU = 'mirror-unsigned-index'
    cmp_scalar('mag', par.magnification(), ((A, NP) if fno_ap else (A,)) + ((MU,) if odd_mirrors else ()), lenscale=False)

    # marginal ray (index 0 = object record)
    ya, ua = par.marginal_ray()
    ya, ua = np.ravel(ya), np.ravel(ua)
    hs = max(1.0, float(np.max(np.abs(o64['ya']))))
    fl = flags_for(*((A, NP) if fno_ap else (A,)))
    pack = lambda o: np.concatenate([np.asarray(o['ya'], float) / hs, np.asarray(o['ua'], float)])
    rec.close('marginal_ray', np.concatenate([ya / hs, ua]), pack(o64), 1e-9 + 1e3 * cond('ya') / hs,
              scale=1.0, alt=(pack(oab) if fl else None), flags=fl, msg='marginal ray heights/slopes')

    # chief ray: shape up to one global sign (the statement does not fix which of +-field is returned);
    # index 0 of the library arrays is a launch record at surface 1, only its slope is compared
    yb, ub = par.chief_ray()
    yb, ub = np.ravel(yb), np.ravel(ub)
    packc = lambda o: np.concatenate([np.asarray(o['yb'], float) / hs, np.asarray(o['ub'], float),
                                      [float(o['ub0'])]])
    got = np.concatenate([yb[1:] / hs, ub[1:], [ub[0]]])
    want = packc(o64)
    fl = flags_for(A)
    alt = packc(oab) if fl else None
    ref = alt if (alt is not None and np.all(np.isfinite(alt)) and fl) else want
    sgn = -1.0 if (np.all(np.isfinite(got)) and np.dot(got, ref) < 0) else 1.0
    rec.cls('chief-sign-plus' if sgn > 0 else 'chief-sign-minus')
    rec.close('chief_ray', sgn * got, want, 1e-9 + 1e3 * cond('yb') / hs, scale=1.0, alt=alt, flags=fl,
              msg='chief ray heights/slopes (up to global sign)')

    # Lagrange invariant: one value at every surface, formed from the *returned* rays with signed index
    nsigned = np.asarray(P.n[1:], float)
    if np.all(np.isfinite(yb)) and np.all(np.isfinite(ub)):
        inv = nsigned * (yb[1:] * ua[1:] - ya[1:] * ub[1:])
        sc = max(1e-300, float(np.max(np.abs(nsigned) * (np.abs(yb[1:] * ua[1:]) + np.abs(ya[1:] * ub[1:])))))
        spread = float(np.max(inv) - np.min(inv)) / sc
        rec.check('invariant-constant', spread <= 1e-9, resid=spread, tol=1e-9,
                  msg=f'Lagrange invariant varies over surfaces by {spread:.3e} (relative)', detail=dict(inv=inv))
        want_inv = float(nsigned[0]) * (yb[1] * ua[1] - ya[1] * ub[1])
        fl = ('mirror-unsigned-index',) if first_mirror else ()
        rec.close('invariant-accessor', _scalar(par.invariant()), want_inv, 1e-9, scale=sc,
                  alt=(abs(float(nsigned[0])) * (yb[1] * ua[1] - ya[1] * ub[1]) if fl else None), flags=fl,
                  msg='invariant() vs n(ybar u - y ubar) at surface 1 (signed index)')
    else:
        rec.cls('chief-ray-non-finite')

    # linearity of paraxial ray data in launch height and slope (superposition of two launches)
    wl = L.primary_wavelength(spec)
    z0 = -1.0
    a, b = 0.37, -1.9
    y1, u1 = par._trace_generic(1.0, 0.0, z0, wl)
    y1, u1 = np.ravel(y1).copy(), np.ravel(u1).copy()
    y2, u2 = par._trace_generic(0.0, 0.01, z0, wl)
    y2, u2 = np.ravel(y2).copy(), np.ravel(u2).copy()
    y3, u3 = par._trace_generic(a * 1.0, b * 0.01, z0, wl)
    y3, u3 = np.ravel(y3), np.ravel(u3)
    sc = max(1.0, float(np.max(np.abs(y1))), float(np.max(np.abs(y2))))
    rec.close('linearity', np.concatenate([y3 / sc, u3]), np.concatenate([(a * y1 + b * y2) / sc, a * u1 + b * u2]),
              1e-10, scale=1.0, msg='paraxial trace not linear in (y,u)')
    # the same launch against the oracle's trace of that ray
    yo, uo = P.trace(1.0, 0.0)
    yl, ul = L.psys(spec, dtype=np.longdouble).trace(1.0, 0.0)
    fl = flags_for(A)
    alt = None
    if fl:
        ya_, ua_ = P_ab.trace(1.0, 0.0)
        alt = np.concatenate([np.asarray(ya_, float) / sc, np.asarray(ua_, float)])
    rec.close('generic-trace', np.concatenate([y1[1:] / sc, u1[1:]]),
              np.concatenate([np.asarray(yo, float) / sc, np.asarray(uo, float)]),
              1e-9 + 1e3 * float(np.max(np.abs(np.asarray(yo, float) - np.asarray(yl, float)))) / sc,
              scale=1.0, alt=alt, flags=fl, msg='unit-height parallel ray vs ABCD')
    # the trace by normalised coordinates at zero field is the marginal ray scaled by the pupil coordinate (linear in the
    # launch; both sides are the library's own returned rays, so the as-built models of marginal_ray() cancel)
    py = case.get('py', 0.61)
    try:
        par.trace(0.0, py, wl)                         # records are left on the surfaces
        yt, ut = np.ravel(lens.surface_group.y).astype(float), np.ravel(lens.surface_group.u).astype(float)
    except Exception as e:
        yt = ut = None
        rec.check('normalised-trace', False, msg=f'Paraxial.trace(0, {py}) raised {type(e).__name__}: {e}')
    if yt is not None and np.all(np.isfinite(ya)) and np.all(np.isfinite(ua)):
        rec.close('normalised-trace', np.concatenate([yt[1:] / hs, ut[1:]]), np.concatenate([py * ya[1:] / hs, py * ua[1:]]),
                  1e-9 + 1e3 * cond('ya') / hs, scale=1.0,
                  msg=f'Paraxial.trace(Hy=0, Py={py}) is not Py x marginal_ray() at the surfaces')
    rec.event('paraxial_quantities_compared', 20)
    rec.sample(dict(spec=spec, library=dict(f2=_scalar(par.f2()), EPL=_scalar(par.EPL()), XPL=_scalar(par.XPL())),
                    abcd=dict(f2=float(o64['f2']), EPL=float(o64['EPL']), XPL=float(o64['XPL']))))
