#!/bin/bash
# tools/sweep.sh <tier> <seed>...   runs every registered check for every seed; prints only what is not "held"
cd "$(dirname "$0")/.."
TIER=$1; shift
export VERIF_EVIDENCE_DIR=${VERIF_EVIDENCE_DIR:-$PWD/.scratch/sweep-ev} VERIF_REPLAY_DIR=${VERIF_REPLAY_DIR:-$PWD/.scratch/sweep-rp}
mkdir -p "$VERIF_EVIDENCE_DIR" "$VERIF_REPLAY_DIR"
IDS=$(python3 -c "import json;print(' '.join(c['property_id'] for c in json.load(open('MANIFEST.json'))['checks']))")
for SEED in "$@"; do
  for P in $IDS; do
    OUT=$(VERIF_SEED=$SEED ./vcheck $P --tier $TIER 2>&1)
    LAST=$(echo "$OUT" | grep "seed=$SEED:" | tail -1)
    case "$LAST" in *": held;"*) echo "ok   $LAST" | cut -c1-140 ;; *) echo "BAD  $P seed=$SEED"; echo "$OUT" | grep -E "^VIOLATION|^INCONCLUSIVE|seed=" | cut -c1-400 ;; esac
  done
done
echo SWEEP-DONE
