"""C05 -- real rays converge to the paraxial prediction as aperture and field vanish.

Limit monitor: for every lens a geometric sequence of scale factors eps is traced with
the REAL tracer and the normalised discrepancy to the library's own paraxial marginal /
chief ray is recorded per decade; the verdict is on error RATIOS between decades
(at least quadratic decay) down to the float floor, never on absolute size.
"""
import math

import numpy as np

from vkit import lens as L

ID = 'C05'
RULE = ('random axially symmetric lenses (spheres, conics, even aspheres, planes, mirrors; ideal and catalogue media; '
        'infinite/finite object; every aperture and field kind; any stop) and the bundled samples; for each, '
        'marginal-type rays (Hy=0, Py=eps) and chief-type rays (Hy=eps, P=0) for eps = 1e-1 ... 1e-4; a third of the random lenses '
        'is first used (real + paraxial traces) and then edited (set_index / set_radius / set_conic / set_thickness) before the measurement; a case is '
        'non-trivial when >= 2 decades of clean (>= 20x per decade) decay were observed above the float floor; '
        'distinct = distinct spec hash')
TIERS = {'quick': dict(shards=6, cases=45), 'thorough': dict(shards=16, cases=1200)}
MIN_NONTRIVIAL = {'quick': 60, 'thorough': 1000}
MIN_EVALS = {'marginal-convergence': 100, 'chief-convergence': 100, 'axial-focus-to-BFL': 60,
             'zero-pupil-ray-to-stop-centre': 60, 'image-height-per-unit-field': 60, 'paraxial-trace-other-wavelength': 20}
ASSUMPTIONS = ['the paraxial side is the library\'s own marginal_ray()/chief_ray() (the statement relates the two tracers); '
               'C04 checks those against ABCD', 'field scale of an angular field is tan(eps*theta)/tan(theta)',
               'float floor of a normalised discrepancy at scale eps is taken as 1e-11 * system scale / eps']
ANCHORS = [('optiland.surfaces.standard_surface', 'Surface.trace'), ('optiland.surfaces.standard_surface', 'Surface._trace_real'),
           ('optiland.surfaces.standard_surface', 'Surface._trace_paraxial'),
           ('optiland.rays.ray_generator', 'RayGenerator.generate_rays'), ('optiland.paraxial', 'Paraxial.trace'),
           ('optiland.paraxial', 'Paraxial.marginal_ray'), ('optiland.paraxial', 'Paraxial.chief_ray'),
           ('optiland.geometries.standard', 'StandardGeometry.distance')]
EPS = [1e-1, 1e-2, 1e-3, 1e-4]


def fixed_cases(tier):
    from vkit import samples
    return [dict(kind='sample', name=n) for n in samples.names()]


def gen_case(rng, tier, i):
    kw = dict(asphere_p=0.2, glass_p=0.3, nwl=(1, 3), obj_medium_p=0.2, immersed_p=0.1, neg_power_p=0.25, image='any', conic_p=0.4,
              stop=str(rng.choice(['first', 'interior', 'last', 'any'])), max_field_deg=10.0)
    if rng.random() < 0.2:
        kw['mirrors_p'] = 0.3
    spec, info = L.gen_axial(rng, **kw)
    for s_ in spec['surfaces']:
        if s_.get('type') == 'even_asphere' and s_.get('coeffs'):
            s_['coeffs'][0] = 0.0     # the ignored r^2 term is C04's finding `asphere-r2-term`; not re-litigated here
    if rng.random() < 0.08:
        fm_ = max(f[0] for f in spec['fields'])
        if fm_ > 0:      # field list dominated by a negative field: the maximum field is the largest |field|
            spec['fields'] = [[-fm_, 0.0, 0.0], [0.0, 0.0, 0.0], [round(0.5 * fm_, 6), 0.0, 0.0]]
            info['negfields'] = True
    case = dict(kind='random', spec=spec, info=info)
    if rng.random() < 0.35:
        # the lens is used once (real and paraxial traces), THEN edited through the public setters, then measured: whatever
        # either tracer remembers from the first use (pupil, curvature, media) must not survive the edit
        K = len(spec['surfaces'])
        edits = []
        for _ in range(int(rng.integers(1, 3))):
            k = int(rng.integers(1, K))          # an optical surface (the image surface is K)
            su = spec['surfaces'][k - 1]
            kind = str(rng.choice(['index', 'radius', 'thickness', 'conic']))
            if kind == 'index' and su.get('medium') != 'mirror' and spec['surfaces'][k].get('medium') != 'mirror':
                edits.append(['index', k, round(float(rng.uniform(1.3, 1.95)), 6)])
            elif kind == 'radius' and su.get('type', 'standard') == 'standard' and su.get('radius', 'inf') != 'inf':
                edits.append(['radius', k, round(float(su['radius']) * float(rng.uniform(0.7, 1.5)), 6)])
            elif kind == 'conic' and su.get('type', 'standard') == 'standard' and su.get('radius', 'inf') != 'inf':
                edits.append(['conic', k, round(float(rng.uniform(-1.5, 0.5)), 6)])
            elif kind == 'thickness' and k < K:
                edits.append(['thickness', k, round(float(su['t']) * float(rng.uniform(0.5, 1.5)), 6)])
        if edits:
            case['edits'] = edits
    return case


def decay_ok(e, floors, first_free=False):
    """e[i] at eps[i]; every decade must shrink the error >= 20x unless the float floor is reached.
    first_free: for a SINGLE signed quantity (one height, one focus position) the value at eps = 0.1 may sit next to a
    zero crossing of cubic-plus-quintic terms, so the first decade is not constrained at all (the later ones are)."""
    ok, clean = True, 0
    for i in range(len(e) - 1):
        if not np.isfinite(e[i + 1]) or not np.isfinite(e[i]):
            return False, clean
        if i == 0 and first_free:
            continue
        # the statement is asymptotic: at eps = 0.1 higher orders may still balance the quadratic term, so the first
        # decade only has to shrink; from 1e-2 downwards every decade must shrink the error >= 20x
        if e[i + 1] <= (0.5 if i == 0 else 0.05) * e[i]:
            if e[i + 1] > floors[i + 1] and e[i + 1] <= 0.05 * e[i]:
                clean += 1
            continue
        if e[i + 1] <= floors[i + 1]:
            continue
        ok = False
    return ok, clean


def check_case(case, rec):
    if case['kind'] == 'sample':
        from vkit import samples
        lens, spec = samples.load(case['name'])
        if spec is None:
            rec.cls('sample-not-axial-skipped')
            return
        rec.cls('sample')
    else:
        spec = case['spec']
        lens = L.build(spec)
        rec.cls(*L.class_names(case['info']))
        if case['info'].get('negfields'):
            rec.cls('negative-dominant-fields')
    wl = L.primary_wavelength(spec)
    if case.get('edits'):
        rec.cls('edited-after-first-use')
        lens.trace_generic(0.0, 0.6, 0.0, 0.5, wl)
        lens.paraxial.marginal_ray(); lens.paraxial.chief_ray()
        lens.trace(0.0, 1.0, wl, 6, 'line_y')
        for kind_, k_, v_ in case['edits']:
            {'index': lens.set_index, 'radius': lens.set_radius, 'thickness': lens.set_thickness,
             'conic': lens.set_conic}[kind_](v_, k_)
            rec.event('edits_applied')
    tele = bool(spec.get('telecentric'))
    asph = any(s.get('type') == 'even_asphere' and s.get('coeffs') and s['coeffs'][0] != 0 for s in spec['surfaces'])
    if asph:
        rec.cls('asphere-r2-term-skipped')      # C04 finding `asphere-r2-term` (paraxial tracer ignores C1); not re-litigated
        return
    ya, ua = lens.paraxial.marginal_ray()
    yb, ub = lens.paraxial.chief_ray()
    ya, ua, yb, ub = (np.ravel(a).astype(float) for a in (ya, ua, yb, ub))
    K = len(spec['surfaces'])
    P = L.psys(spec)
    scale = max(1.0, float(np.max(np.abs(ya[1:]))), float(np.max(np.abs(yb[1:]))))
    zs = L.vertex_positions(spec)
    stop = [bool(s.get('stop')) for s in spec['surfaces']].index(True) + 1
    fmax = max(abs(f[0]) for f in spec['fields'])      # the full field is the largest |field|
    angle = spec['field_type'] == 'angle'
    # ABCD rays (true limit; used to explain the known asphere mechanism)
    if asph:
        Pt = L.psys(spec)
        epd = float(np.ravel(lens.paraxial.EPD())[0])
        ta, tua = Pt.marginal(epd)
        tb, tub, _, _ = Pt.chief(spec['field_type'], fmax)
    sg = lens.surface_group

    def run(kind):
        e_y, e_u, extras = [], [], []
        for eps in EPS:
            if kind == 'marginal':
                lens.trace_generic(0.0, 0.0, 0.0, float(eps), wl)
                s = eps
            else:
                lens.trace_generic(0.0, float(eps), 0.0, 0.0, wl)
                s = (math.tan(math.radians(eps * fmax)) / math.tan(math.radians(fmax))) if angle else eps
                if fmax == 0:
                    return None
            y = sg.y[1:, 0] / s
            with np.errstate(all='ignore'):
                t = (sg.M[1:, 0] / sg.N[1:, 0]) / s
            yield_y, yield_u = y, t
            e_y.append(yield_y); e_u.append(yield_u)
        return np.array(e_y), np.array(e_u)

    floors = [1e-11 * scale / eps for eps in EPS]
    # Paraxial.trace by normalised coordinates: the same two rays as marginal_ray()/chief_ray()
    par_trace = {}
    for kind, (Hy_, Py_) in (('marginal', (0.0, 1.0)), ('chief', (1.0, 0.0))):
        lens.paraxial.trace(Hy_, Py_, wl)
        par_trace[kind] = (np.ravel(sg.y).astype(float).copy(), np.ravel(sg.u).astype(float).copy())
    for kind, py, pu in (('marginal', ya, ua), ('chief', yb, ub)):
        if kind == 'chief' and tele:
            # object-space telecentric mode re-defines the chief ray (launched parallel to the axis whatever the
            # stop position); the paraxial chief ray through the stop centre is not its limit by construction
            rec.cls('telecentric-chief-skipped')
            continue
        res = run(kind)
        if res is None:
            rec.cls('zero-field-skipped')
            continue
        Y, U = res          # (len(EPS), K)
        if not np.all(np.isfinite(Y[0])):
            rec.cls(f'{kind}-ray-missing-at-0.1-skipped')
            continue
        ey = np.max(np.abs(Y - py[1:][None, :]), axis=1) / scale
        eu = np.max(np.abs(U - pu[1:][None, :]), axis=1)
        e = np.maximum(ey, eu)
        ok, clean = decay_ok(e, [f / scale for f in floors])
        # and the limit itself: at the smallest eps the discrepancy is at most what quadratic decay from 0.1 allows
        lim_ok = e[-1] <= max(e[0] * 1e-4, floors[-1] / scale) if np.isfinite(e[-1]) else False
        key = None
        if not (ok and lim_ok):
            key = f'{kind}-convergence:unexplained'
            if asph:
                tp, tu = (np.asarray(ta, float)[1:], np.asarray(tua, float)[1:]) if kind == 'marginal' else \
                    (np.asarray(tb, float), np.asarray(tub, float))
                # sign of the library's chief ray vs ABCD's is a free convention: align on the image height
                if kind == 'chief' and np.dot(tp, py[1:]) < 0:
                    tp, tu = -tp, -tu
                e2 = np.maximum(np.max(np.abs(Y - tp[None, :]), axis=1) / scale, np.max(np.abs(U - tu[None, :]), axis=1))
                ok2, _ = decay_ok(e2, [f / scale for f in floors])
                if ok2 and e2[-1] <= max(e2[0] * 1e-4, floors[-1] / scale):
                    key = f'{kind}-convergence:asphere-r2-term'
        rec.check(f'{kind}-convergence', ok and lim_ok, key=key, resid=float(e[-1]), tol=max(e[0] * 1e-4, floors[-1] / scale),
                  msg=f'{kind}-type real rays / scale do not converge quadratically to the paraxial {kind} ray: '
                      f'normalised discrepancy per decade {["%.2e" % v for v in e]}',
                  detail=dict(e=e, eps=EPS, paraxial_y=py, real_y_over_s=Y[-1]))
        ty, tu = par_trace[kind]
        if ok and lim_ok and len(ty) == K + 1:
            # the limit of the real rays is also what Paraxial.trace(Hy, Py) records (surfaces 1..K)
            et = max(float(np.max(np.abs(ty[1:] - Y[-1]))) / scale, float(np.max(np.abs(tu[1:] - U[-1]))))
            tolt = max(10 * e[-1], 1e-9)
            rec.check('paraxial-trace-normalised', et <= tolt, resid=et, tol=tolt,
                      key=f'paraxial-trace-normalised:{kind}-{spec["field_type"]}',
                      msg=f'Paraxial.trace({"0,1" if kind == "marginal" else "1,0"}) differs from the small-{kind} limit of the real rays by {et:.3e}',
                      detail=dict(paraxial_trace_y=ty, real_limit_y=Y[-1]))
        if clean >= 2:
            rec.nontrivial_case(extra=kind)
        rec.event('real_rays_traced', len(EPS))
        rec.event('decades_of_clean_decay', clean)
        if key:
            continue
        if kind == 'marginal':
            # real axial focus -> paraxial back focal position (measured from the last optical vertex)
            with np.errstate(all='ignore'):
                zf = -Y[:, K - 2] / U[:, K - 2] if K >= 2 else None
                zp = -ya[K - 1] / ua[K - 1]
            if zf is not None and np.isfinite(zp) and abs(zp) < 1e6:
                ef = np.abs(zf - zp) / max(1.0, abs(zp))
                # (the focus position is a ratio y/u: it is judged from eps = 1e-2 downwards)
                okf, _ = decay_ok(ef[1:], [1e-11 * max(1.0, abs(zp)) / eps ** 2 / max(1e-30, abs(ya[K - 1])) * 1e0 for eps in EPS[1:]])
                rec.check('axial-focus-to-BFL', okf, resid=float(ef[-1]), tol=1e-6,
                          msg=f'real axial focus does not tend to the paraxial back focal position: {["%.2e" % v for v in ef]}')
        else:
            es = np.abs(Y[:, stop - 1]) / scale
            oks, _ = decay_ok(es, [f / scale for f in floors], first_free=True)
            rec.check('zero-pupil-ray-to-stop-centre', oks and es[-1] <= max(es[0] * 1e-4, es[1] * 1e-3, floors[-1] / scale),
                      resid=float(es[-1]), tol=1e-6,
                      msg=f'zero-pupil ray does not tend to the centre of the stop: height/scale per decade {["%.2e" % v for v in es]}')
            ei = np.abs(Y[:, -1] - yb[-1]) / scale
            oki, _ = decay_ok(ei, [f / scale for f in floors], first_free=True)
            rec.check('image-height-per-unit-field', oki and ei[-1] <= max(ei[0] * 1e-4, ei[1] * 1e-3, floors[-1] / scale),
                      resid=float(ei[-1]), tol=1e-6,
                      msg=f'real image height per unit field does not tend to the paraxial image height: {["%.2e" % v for v in ei]}')
    # the same limit at a NON-primary wavelength (dispersive lenses): paraxial side = Paraxial.trace(Hy, Py, wavelength)
    others = [w_[0] for w_ in spec['wavelengths'] if w_[0] != wl]
    dispersive = any(isinstance(s_.get('medium'), dict) and ('glass' in s_['medium'] or 'abbe' in s_['medium'])
                     for s_ in spec['surfaces'])
    if others and dispersive:
        w2 = others[0]
        for kind, (Hy_, Py_) in (('marginal', (0.0, 1.0)), ('chief', (1.0, 0.0))):
            if kind == 'chief' and (tele or fmax == 0):
                continue
            lens.paraxial.trace(Hy_, Py_, w2)
            ty, tu = np.ravel(sg.y).astype(float).copy(), np.ravel(sg.u).astype(float).copy()
            es = []
            for eps in (1e-2, 1e-4):
                if kind == 'marginal':
                    lens.trace_generic(0.0, 0.0, 0.0, float(eps), w2)
                    s_ = eps
                else:
                    lens.trace_generic(0.0, float(eps), 0.0, 0.0, w2)
                    s_ = (math.tan(math.radians(eps * fmax)) / math.tan(math.radians(fmax))) if angle else eps
                with np.errstate(all='ignore'):
                    es.append(max(float(np.max(np.abs(sg.y[1:, 0] / s_ - ty[1:]))) / scale,
                                  float(np.max(np.abs((sg.M[1:, 0] / sg.N[1:, 0]) / s_ - tu[1:])))))
            if not np.isfinite(es[0]):
                continue
            tol2 = max(es[0] * 1e-3, floors[-1] / scale)
            rec.check('paraxial-trace-other-wavelength', bool(np.isfinite(es[1]) and es[1] <= tol2), resid=es[1], tol=tol2,
                      key=f'paraxial-trace-other-wavelength:{kind}',
                      msg=f'at wavelength {w2} the {kind}-type real rays do not converge to Paraxial.trace: {es[0]:.2e} -> {es[1]:.2e}')
    rec.sample(dict(spec=spec, paraxial=dict(ya=ya, yb=yb)))
