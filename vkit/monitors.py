"""Monitors installed from the harness (no source hooks in /repo).

* Reach: sys.monitoring (3.12) PY_START + LINE counters enabled *locally* on the
  code objects of the functions a property is anchored in, so that every evidence
  file says how often each anchored mechanism ran and how many distinct statement
  lines of it were seen.  A deciding monitor that was never reached makes the
  run inconclusive, never "held".
* Contract monitors: icontract postconditions / invariants with named condition
  functions and explicit error classes, attached by rebinding class attributes
  before a workload starts.  Conditions *record and return True* (they never raise
  inside the library), so a contract cannot change the behaviour it observes.
* Failpoints: wrappers that return NaN / raise at chosen evaluation counts.

Everything here refuses to install unless OPTILAND_VERIF is set.
"""
import importlib
import os
import sys

import numpy as np

TOOL_ID = 3  # sys.monitoring tool slot (0-5); 3 is unused by debuggers/coverage/profilers


def _guard():
    if not os.environ.get('OPTILAND_VERIF'):
        raise RuntimeError('monitors are only installed under OPTILAND_VERIF=1')


def resolve(modname, qualname):
    mod = importlib.import_module(modname)
    obj = mod
    for part in qualname.split('.'):
        obj = getattr(obj, part)
    if isinstance(obj, property):
        obj = obj.fget
    if isinstance(obj, (staticmethod, classmethod)):
        obj = obj.__func__
    return getattr(obj, '__wrapped__', obj)


class Reach:
    """Per-function call and distinct-line counters through sys.monitoring."""

    def __init__(self, anchors):
        _guard()
        self.counts = {}
        self.lines = {}
        self.codes = {}
        self.missing = []
        for modname, qual in anchors:
            name = f'{modname}:{qual}'
            try:
                fn = resolve(modname, qual)
                code = fn.__code__
            except Exception as e:  # anchor no longer exists: report, do not die
                self.missing.append(f'{name} ({type(e).__name__})')
                continue
            self.codes[code] = name
            self.counts[name] = 0
            self.lines[name] = set()
        self.active = False

    def start(self):
        mon = sys.monitoring
        try:
            mon.use_tool_id(TOOL_ID, 'vkit-reach')
        except ValueError:
            return  # already in use (nested); skip silently
        ev = mon.events

        def on_start(code, offset):
            n = self.codes.get(code)
            if n is not None:
                self.counts[n] += 1

        def on_line(code, line):
            n = self.codes.get(code)
            if n is not None:
                s = self.lines[n]
                if line in s:
                    return mon.DISABLE
                s.add(line)

        mon.register_callback(TOOL_ID, ev.PY_START, on_start)
        mon.register_callback(TOOL_ID, ev.LINE, on_line)
        for code in self.codes:
            mon.set_local_events(TOOL_ID, code, ev.PY_START | ev.LINE)
        self.active = True

    def stop(self):
        if not self.active:
            return
        mon = sys.monitoring
        for code in self.codes:
            mon.set_local_events(TOOL_ID, code, 0)
        mon.free_tool_id(TOOL_ID)
        self.active = False

    def dump(self):
        out = {n: dict(calls=self.counts[n], lines=sorted(self.lines[n])) for n in self.counts}
        for m in self.missing:
            out[m] = dict(calls=0, lines=[])
        return out


# ---------------------------------------------------------------------------
# contract monitors (icontract).  Each returns an uninstall callable.

class MonitorLog:
    """Where contract monitors put what they saw (thread-safe enough: single-threaded use)."""

    def __init__(self):
        self.evals = {}
        self.bad = []

    def seen(self, name, ok, info=None):
        self.evals[name] = self.evals.get(name, 0) + 1
        if not ok and len(self.bad) < 50:
            self.bad.append((name, info))
        return True


class ContractBroken(Exception):
    pass


def install_contracts(log, which=('stop', 'primary', 'unitdir', 'intensity')):
    """Attach recording contracts to the live classes. Returns uninstall()."""
    _guard()
    import icontract
    from optiland.surfaces.surface_group import SurfaceGroup
    from optiland.wavelength import WavelengthGroup
    from optiland.rays.real_rays import RealRays

    undo = []

    def patch(cls, name, new):
        old = cls.__dict__[name]
        setattr(cls, name, new)
        undo.append((cls, name, old))

    if 'stop' in which:
        def at_most_one_stop(self):
            n = sum(1 for s in self.surfaces if s.is_stop)
            return log.seen('C01.at-most-one-stop', n <= 1, dict(n_stop=n, n_surf=len(self.surfaces)))
        patch(SurfaceGroup, 'add_surface',
              icontract.ensure(at_most_one_stop, error=ContractBroken)(SurfaceGroup.__dict__['add_surface']))

    if 'primary' in which:
        def exactly_one_primary(self):
            n = sum(1 for w in self.wavelengths if w.is_primary)
            return log.seen('C01.exactly-one-primary', n == 1, dict(n_primary=n, n=len(self.wavelengths)))
        patch(WavelengthGroup, 'add_wavelength',
              icontract.ensure(exactly_one_primary, error=ContractBroken)(WavelengthGroup.__dict__['add_wavelength']))

    if 'unitdir' in which:
        def snap_norms(self, nx, ny, nz):
            # the law only speaks about unit incoming directions and unit normals (unit tests also call with others)
            d = self.L**2 + self.M**2 + self.N**2
            n = np.asarray(nx, dtype=float)**2 + np.asarray(ny, dtype=float)**2 + np.asarray(nz, dtype=float)**2
            return np.abs(d - 1) < 1e-12, np.abs(n - 1) < 1e-12

        def unit_direction_after(self, OLD):
            m = self.L**2 + self.M**2 + self.N**2
            unit_in, unit_n = OLD.norms
            sel = np.isfinite(m) & np.broadcast_to(unit_in, m.shape) & np.broadcast_to(unit_n, m.shape)
            ok = bool(np.all(np.abs(m[sel] - 1) < 1e-9)) if sel.any() else True
            return log.seen('C02.unit-direction', ok,
                            dict(worst=float(np.max(np.abs(m[sel] - 1))) if sel.any() else 0.0))
        for meth in ('refract', 'reflect'):
            f = icontract.ensure(unit_direction_after, error=ContractBroken)(RealRays.__dict__[meth])
            f = icontract.snapshot(snap_norms, name='norms')(f)
            patch(RealRays, meth, f)

    if 'intensity' in which:
        def snap_i(self):
            return self.i.copy()

        def intensity_not_created(self, OLD):
            new, old = self.i, OLD.i0
            fin = np.isfinite(new) & np.isfinite(old)
            ok = bool(np.all(new[fin] <= old[fin] * (1 + 1e-12) + 1e-300)) and bool(np.all(new[fin] >= 0))
            return log.seen('C16.intensity-not-created', ok)
        for meth in ('propagate', 'clip'):
            f = RealRays.__dict__[meth]
            f = icontract.ensure(intensity_not_created, error=ContractBroken)(f)
            f = icontract.snapshot(snap_i, name='i0')(f)
            patch(RealRays, meth, f)

    def uninstall():
        for cls, name, old in reversed(undo):
            setattr(cls, name, old)
    return uninstall


class Failpoint:
    """Wrap obj.attr so that chosen call numbers return NaN or raise (source-free fault injection)."""

    def __init__(self, owner, attr, at_calls, mode='nan', exc=None):
        _guard()
        self.owner, self.attr = owner, attr
        self.at = set(at_calls)
        self.mode, self.exc = mode, exc
        self.calls = 0
        self.fired = 0
        self.orig = owner.__dict__[attr] if attr in getattr(owner, '__dict__', {}) else getattr(owner, attr)

    def __enter__(self):
        orig = self.orig
        fn = orig.__func__ if isinstance(orig, (staticmethod, classmethod)) else orig
        fp = self

        def wrapper(*a, **k):
            fp.calls += 1
            if fp.calls in fp.at:
                fp.fired += 1
                if fp.mode == 'nan':
                    return float('nan')
                raise (fp.exc or RuntimeError('injected fault'))
            return fn(*a, **k)
        if isinstance(orig, staticmethod):
            setattr(self.owner, self.attr, staticmethod(wrapper))
        else:
            setattr(self.owner, self.attr, wrapper)
        return self

    def __exit__(self, *exc):
        setattr(self.owner, self.attr, self.orig)
        return False
