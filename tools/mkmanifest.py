#!/venv/bin/python
"""Regenerates /verif/MANIFEST.json from the table below (keeps it schema-valid at all times)."""
import json
import os

HERE = os.path.dirname(os.path.dirname(os.path.abspath(__file__)))

# id -> (technique, level text, level note, design ref)
BUILT = {
    'C04': ('reference-model monitor: library Paraxial API vs an independent y-nu (ABCD) oracle on generated lenses',
            'Exploration: every paraxial accessor is called on ~700 (quick) / ~48k (thorough) generated lenses plus the '
            'bundled samples and compared with an independent signed-index y-nu oracle evaluated in float64 and '
            'longdouble; a quarter of the lenses are queried once, edited through the public setters and queried again; held means no disagreement beyond 1e-9 relative on the lens classes listed in the evidence. '
            'Right level because the statement is an equality with a closed-form model over an unbounded input space.',
            'Trusts the oracle (vkit/oracles/paraxial.py, cross-checked float64/longdouble) and the library material '
            'objects for the index of catalogue media; sign of the chief ray is not part of the statement and is not checked.',
            'DESIGN.md §4 C04'),
    'C02': ('law monitor over the per-surface ray event log + closed-form reference tracer for planes/conics',
            'Exploration: ~12k (quick) / ~1M (thorough) (ray, surface) events from generated lenses of all six shapes, '
            'refracting and reflecting, tilted/decentred, incl. over-sized apertures and near-paraboloid/near-axial rays, '
            'each checked for on-surface, on-incoming-ray, unit direction, vector Snell/reflection, half-space and '
            'optical path with independently written shapes/frames; plane/conic lenses are also compared with an '
            'independent closed-form tracer which decides the non-finite clause. Held = no event broke a law.',
            'Trusts vkit/oracles/shapes.py (sag, analytic gradients via numpy.polynomial for Chebyshev, frames) and the '
            'library material objects for indices; root choice among two valid sheet intersections follows the '
            'documented nearest-vertex-plane convention.',
            'DESIGN.md §4 C02'),
    'C01': ('history monitor: shadow prescription advanced op by op and compared with the live lens after every operation; icontract postconditions on add_surface / add_wavelength',
            'Exploration: 300 (quick) / 24k (thorough) generated edit histories of 5-60 operations on lenses of every '
            'surface type; after every operation the live lens is snapshotted through its getters and compared field '
            'by field with an independent shadow prescription (frame condition + read-back), pickups/solves are '
            'checked after update(), stop/primary clauses by contracts on every call. Held = no operation of any '
            'explored history left the lens different from the shadow.',
            'Trusts the shadow model in props/c01.py; scaled Variable updates adopt the one raw quantity they name '
            'from the live lens (the scaling map is a private convention); solves are generated where a one-pass '
            'solve is exact, the remaining class is a listed finding.',
            'DESIGN.md §4 C01'),
    'C18': ('reference-model monitor, exhaustive over the bundled catalogue: MaterialFile/Material/AbbeMaterial vs an independent implementation of the refractiveindex.info formulas reading the YAML files',
            'Exploration, exhaustive for the n/k part: all 2593 catalogue rows / 2519 data files are evaluated in both '
            'tiers at 9 (quick) / 41 (thorough) wavelengths across their range incl. end points and compared with an '
            'independent implementation of the nine dispersion formulas and the tabulated forms; scalar vs array; k '
            'interpolation; exact-name lookups for 644 (quick) / all (thorough) rows x 4 query forms; Abbe number '
            'definition; model glass over the Schott map. Held = no disagreement on any row.',
            'Trusts vkit/oracles/dispersion.py (written from database/doc/Dispersion formulas.pdf) and PyYAML; rows '
            'without exactly one n-relation are outside the statement and only counted; model-glass thresholds are 2x '
            'the 99.9th percentile measured on the unchanged tree.',
            'DESIGN.md §4 C18'),
    'C17': ('law monitors: Fresnel energy balance with an independent Snell angle, Jones-matrix algebra (projector, unitarity, rotation covariance), and polarized traces of generated lenses (intensity, transversality, unpolarized = mean of orthogonal pairs)',
            'Exploration: ~86k Fresnel points, ~18k element matrices and ~130k polarized rays per quick run (16x in '
            'thorough) checked against closed-form laws at 1e-12; held = no law broken on what was generated.',
            'Trusts vkit/oracles/polarization.py; circular handedness is a convention (either accepted); the '
            'energy tolerance is widened towards the critical angle by the conditioning of cos(theta_t).',
            'DESIGN.md §4 C17'),
    'C03': ('reference-model monitor on the launch record (surface 0) of every trace: origin, direction, aim point in the ABCD entrance pupil, intensity/path/wavelength; rejection table; distribution counts',
            'Exploration: 480 (quick) / 32k (thorough) configurations over every cell of aperture kind x field type x '
            'object distance x telecentric flag, with and without vignetting, plus all named distributions; each '
            'launched ray is propagated to the independently computed entrance pupil plane and must hit '
            '(Px,Py)*EPD/2; inadmissible cells must raise ValueError. Held = no launched ray deviated.',
            'Pupil of axially symmetric lenses from the independent ABCD oracle, of tilted/decentred ones from the '
            'library; lens classes covered by C04 findings (asphere r^2 term, negative power with imageFNO) are not '
            're-litigated here.',
            'DESIGN.md §4 C03'),
    'C20': ('round-trip monitor: an independent writer emits well-formed .zmx texts from random prescriptions; the lens returned by load_zemax_file is compared field by field with what was written, and its paraxial values with the ABCD oracle on the written numbers',
            'Exploration: 660 (quick) / 16k (thorough) generated files (1-30 surfaces, STANDARD/EVENASPH, ENPD/FNUM/OBNA, '
            'angle/height fields unsorted and duplicated, 1-12 wavelengths, UTF-8 and UTF-16, LF/CRLF, three number '
            'spellings, 59 catalogue glasses and guaranteed-unknown names, MODE NSC rejection); held = every loaded '
            'field equals the written one.',
            'Trusts vkit/oracles/zmxwriter.py (mirrors the syntax of the repository fixtures and real Zemax files) and '
            'the ABCD oracle; media of the paraxial clause are evaluated through the loaded material objects.',
            'DESIGN.md §4 C20'),
    'C05': ('limit monitor: real traces at eps = 1e-1..1e-4 vs the library paraxial marginal/chief rays, verdict on error ratios per decade down to the float floor',
            'Exploration: 294 (quick) / ~19k (thorough) lenses x 2 ray types x 4 decades; the normalised discrepancy '
            'must shrink >= 20x per decade (at least quadratic) until the float floor and end below 1e-4 of its value at '
            'eps=0.1; plus the three named consequences and Paraxial.trace(Hy,Py). Held = every explored lens showed '
            'the decay. A limit cannot be decided by finite runs: two to three decades are observed per lens.',
            'Paraxial side is the library\'s own marginal_ray/chief_ray (checked against ABCD by C04); lenses with an '
            'even-asphere r^2 term (C04 finding) and the chief-type clause under object-space telecentric mode are excluded.',
            'DESIGN.md §4 C05'),
    'C10': ('exhaustive index-rule enumeration + reference-model monitors (independent Zernike oracle, exact disk quadrature, own lstsq fit)',
            'Exploration, exhaustive for the index/normalisation part: all 120 indices x 3 families are enumerated in '
            'both tiers (rule, order, no repeats, evaluated polynomial vs published R_n^m cos/sin, unit edge value, '
            'Gram matrix by exact quadrature); fits: 540 (quick) / 9k (thorough) random recoveries over N=1..37, all '
            'families, four point layouts; lens wavefront decompositions vs an independent least-squares fit.',
            'Trusts vkit/oracles/zernike_rules.py (self-tested against hand-copied published tables at every shard start); '
            'the sign of sine terms and Fringe term 37 follow the library (not fixed by the statement).',
            'DESIGN.md §4 C10'),
    'C06': ('closed-form oracle: ten analytically stigmatic families built from their defining parameters; rays, optical paths, Wavefront and FFTPSF Strehl observed',
            'Exploration: 300 (quick) / 9.6k (thorough) systems over the closed-form families (paraboloid, folded paraboloid, '
            'ellipsoid between foci, Cassegrain, Gregorian, plano-hyperbolic singlet, immersed ellipsoidal surface, sphere at '
            'its centre, aplanatic points) with f-numbers down to 0.6; every traced ray must meet the image point and all '
            'paths be equal at 1e-9 of the focal scale, W <= 1e-6 waves, |Strehl-1| <= 1e-6. Held = all did.',
            'Trusts the analytic constructions in props/c06.py; virtual-image families are decided by back-extension on '
            'the surface record (wavefront/Strehl not evaluated for them).',
            'DESIGN.md §4 C06'),
    'C07': ('metamorphic monitor: one relation per case (mirror symmetries, tilt about the centre of curvature, dummy surface, wavelength change, length scaling, scale_system, edited-after-use vs rebuilt) on paired traces',
            'Exploration: 350 (quick) / 24k (thorough) lens-relation pairs; per-surface ray records of the original and '
            'the transformed lens must agree at 1e-9 of the system scale after the stated transformation; scale_system is '
            'compared field by field with the lens rebuilt from the scaled spec. Held = no pair disagreed.',
            'Rays that leave the domain of a relation (recorded off the vertex sheet, lost at a dummy met from behind, '
            'travelling steeper than 84 deg to the axis where the iterated intersection is chaotic) are excluded and '
            'counted; the launch record of infinite-object lenses is not "downstream" of a dummy surface.',
            'DESIGN.md §4 C07'),
    'C16': ('law monitor over the per-surface intensity log with an independent loss model (aperture test in own frame, Beer-Lambert over own segment length, simple coating factors) + icontract postcondition on RealRays.propagate/clip',
            'Exploration: ~250k (quick) / ~10M (thorough) (ray, surface) intensity records from generated lenses with '
            'apertures (with obscurations), absorbing media, simple coatings, mirrors, tilts, under polarization '
            '"ignore", unpolarized and polarized states, through Optic.trace and trace_generic; each record must be in '
            '[0,1], non-increasing and equal to the product of the specified losses (1e-9); returned rays and the '
            'Wavefront analysis must carry the recorded values. Held = no record deviated.',
            'Trusts the frame/segment recomputation in vkit/oracles/shapes.py and the library k(lambda) of catalogue '
            'media; rays within 1e-9 of an aperture edge are not judged.',
            'DESIGN.md §4 C16'),
    'C08': ('reference-model monitor: Aberrations / AberrationOperand vs independent Welford surface contributions evaluated on the library\'s own paraxial rays; identity, stop-shift and real-ray-limit monitors',
            'Exploration: 264 (quick) / ~9k (thorough) sphere/plane lenses (refracting and reflecting, catalogue glasses for '
            'colour, every stop position, finite/infinite objects, all aperture and field kinds) plus the 22 conic-free '
            'samples; every per-surface term, the five sums, the family identities, every accessor and operand, '
            'stop-shift invariance of S_I/S_IV and the small-aperture real-ray limit of the transverse spherical term.',
            'Trusts vkit/oracles/seidel.py (three algebraically different S_V forms cross-checked at run time) and the '
            'convention frozen once on a BK7 singlet; the library\'s own paraxial rays and indices are inputs (C04/C18 check those).',
            'DESIGN.md §4 C08'),
    'C09': ('reference-model monitor: Wavefront / OPD / OPDFan / RmsWavefrontErrorVsField / OPD_difference vs W recomputed from separately traced rays, the ABCD exit pupil and an own line-sphere intersection',
            'Exploration: 240 (quick) / ~19k (thorough) lens/field/wavelength/distribution cases in the statement\'s domain '
            '(infinite object + angle, finite object + height), real and virtual exit pupils, air and immersed image '
            'space, focused and defocused; W must agree within 1e-6 waves at every documented pupil sample, the chief ray '
            'must give exactly 0, RMS/fans/vs-field/operand must be that W on their samples.',
            'Exit pupil from the independent ABCD oracle; either sphere root accepted (one root for the whole pupil; per ray '
            'only for pupils aberrated by thousands of waves); lenses with an asphere r^2 term excluded (C04 finding).',
            'DESIGN.md §4 C09'),
    'C13': ('history monitor: random interleavings of 28 call kinds on one live lens with a deep structural snapshot after every call, argument hashing, repeat comparison, and batch-independence re-traces',
            'Exploration: 144 (quick) / ~10k (thorough) histories of 12 calls (every trace flavour, paraxial/aberration '
            'queries, wavefront/PSF/MTF, every analysis class, operands) on lenses with and without vignetting, coatings '
            'and polarization; after every call the whole reachable lens state except the documented per-trace records '
            'must be unchanged, caller arrays unmodified, repeated kinds bit-identical; single rays re-traced alone / '
            'permuted / with lost companions / after unrelated calls agree at 1e-12 (10x tol for iterated shapes).',
            'The paraxial/aberrations/ray_generator helper objects (back reference + private scratch) are not part of the '
            'prescription and are excluded from the snapshot; unseeded random sampling is not compared.',
            'DESIGN.md §4 C13'),
    'C11': ('reference-model monitor: FFTPSF / FFTMTF / GeometricMTF vs an independent reconstruction of the sampled pupil and an explicit DFT (cross-checked against numpy.fft), closed-form diffraction limit, plotted frequency axis captured from view()',
            'Exploration: 310 (quick) / ~2.5k (thorough) PSF/MTF cases over samplings 16-256 and grids 64-2048 of both '
            'parities, infinite and finite conjugates, 0-30 waves of aberration and analytically perfect systems; PSF '
            'pixelwise at 1e-9 of the peak, energy conservation, Strehl, MTF bounds, perfect-pupil formula on the '
            'plotted axis within 2/N, cut-off vs the ABCD working F-number, geometric MTF vs the Fourier modulus of the '
            'separately traced line spread.',
            'Trusts vkit/oracles/dft.py (matrix DFT cross-checked against fft2 at 1e-11); working F-number = paraxial '
            '1/(2|n\'u\'|); both sqrt(I) and I/mean pupil amplitude laws accepted (not fixed by the statement).',
            'DESIGN.md §4 C11'),
    'C15': ('history/fault monitor: every table row of SensitivityAnalysis / MonteCarlo replayed on a fresh lens built from the spec; lens snapshots before run / after run / after reset; seeded reruns; NaN and ray-failure faults injected without source edits',
            'Exploration: ~44 (quick) / ~600 (thorough) tolerancing runs (every variable kind and sampler kind, with and '
            'without compensators, 1-20 trials, extreme perturbations and Failpoint NaN injection): each recorded row '
            'reproduced at 1e-10 (1e-6 with compensators), nominal perturbations, reproducibility of seeded runs, '
            'restoration of the nominal prescription after run() and reset().',
            'Fresh lenses come from vkit.lens.build(spec), never from a copy of the live lens; compensated rows whose '
            'optimisation is chaotic under a 1e-15 nudge are decided only by the recorded-compensation clause.',
            'DESIGN.md §4 C15'),
    'C19': ('round-trip monitor: from_dict(to_dict(L)) and JSON file save/load on generated lenses of every feature combination and after edit histories; dict idempotence, prescription snapshot, bit-identical rays and paraxial values',
            'Exploration: 216 (quick) / ~11k (thorough) lenses (every shape, medium kind, coating, scatter model, '
            'aperture, field/wavelength set, polarization, pickups, solves; 40 % after C01 edit histories incl. '
            'scale_system and a short optimisation) plus the 24 samples; reloaded lens must equal the original in '
            'prescription and trace 30 rays per wavelength bit-identically.',
            'Trusts the snapshot of props/c01.py and a scan of to_dict() for non-JSON leaves to classify save failures.',
            'DESIGN.md §4 C19'),
    'C12': ('reference-model monitor: every geometric analysis and ray operand recomputed from rays traced separately through the public tracer on a second copy of the lens; Coddington oracle for field curvature; ABCD image height for distortion',
            'Exploration: 513 (quick) / ~17k (thorough) lens/analysis cases (one family per case: spot data bitwise, '
            'centroid, RMS/geometric radii, ray fans, encircled energy, RMS spot vs field, distortion f-tan/f-theta, grid '
            'distortion, field curvature vs Coddington along the real chief ray, pupil aberration, ray and spot operands) '
            'with every distribution and explicit field/wavelength lists that differ from the lens\'s own.',
            'Trusts vkit/oracles/coddington.py (planes, spheres, conics, even aspheres; 5e-6 of f + shift^2/f, margin > 20x) '
            'and the ABCD oracle; unseeded random spots are checked for count only.',
            'DESIGN.md §4 C12'),
    'C14': ('history monitor on every optimiser front end: every objective evaluation logged by a wrapper on OptimizerGeneric._fun, end state compared with result.x / result.fun / start merit / bounds / pickups+solves, undo() against a snapshot, NaN failpoints, DE workers=-1 in subprocesses',
            'Exploration: ~90 (quick) / ~3.7k (thorough) optimiser runs over OptimizerGeneric (default, L-BFGS-B, Nelder-Mead, '
            'SLSQP), LeastSquares, DualAnnealing, DifferentialEvolution workers=1 and workers=-1 (3 repetitions each, '
            'subprocess), CompensatorOptimizer, with optimise/undo sequences, pickups, solves and injected NaN operands; '
            'plus merit-definition recomputation from the analysis API and set/get round trips and bound units for all '
            'nine variable kinds.',
            'The schedule quantifier is covered only by repeated multi-process runs (process interleavings cannot change '
            'the parent-side state that is checked); mechanism keys require that scipy\'s (x, fun) pairs are logged evaluations.',
            'DESIGN.md §4 C14'),
}

NOT_YET = {}

ALL = [f'C{n:02d}' for n in range(1, 21)]

# later strengthening of the workloads (second to fourth seeded wave), appended to the level texts
EXTRA = {
    'C02': ' A fifth of the lenses are traced once, edited through the public setters and judged against the edited prescription.'
           ' A ray without an intersection must not have a finite recorded point either.',
    'C03': ' Also on lenses edited after a first use, with curved object surfaces and with fields entered in any order.',
    'C04': ' A quarter of the lenses are queried once, edited through the public setters and queried again.',
    'C05': ' A third of the lenses are used once and edited before the measurement.',
    'C06': ' Included: the same bundle written by hand (RealRays with shared caller arrays), a convex paraboloid (virtual focus), '
           'a catalogue-glass singlet evaluated at a non-primary wavelength, a singlet made stigmatic by set_index after its first use.'
           ' Two catadioptric families (refraction of light travelling towards -z); image inside a catalogue glass at a non-primary wavelength.',
    'C07': ' Seventh relation: a lens edited after its first use equals the edited prescription built from scratch.'
           ' Pure central obscurations and objectNA lenses in the scaling relations, vignetting factors in the mirror relation.',
    'C09': ' A fifth of the analysed lenses are used and edited first (oracle traces a lens built from scratch); RMS-vs-field over every named distribution.'
           ' RMS-vs-field is analysed with two wavelengths and judged on the second; the first use before an edit includes the judged field and wavelength.',
    'C10': ' Several fit objects are kept alive and read late (what an earlier object reports must not change).'
           ' One polynomial object asked repeatedly; default-constructed objects are independent zero vectors; element assignment on a default object.',
    'C12': ' A fifth of the analysed lenses are used and edited first (oracle traces a lens built from scratch).'
           ' Non-rotationally-symmetric lenses for spot/fan/encircled energy/operands; clipping apertures in the encircled-energy and pupil-aberration families.',
    'C13': ' One analysis object queried twice must answer the same; a hand-made RealRays bundle leaves the caller\'s (shared) arrays untouched.'
           ' Caller-owned Distribution objects; calls rejected for a missing polarization state leave the lens untouched; polarized intensities in a bundle vs alone; wavefront independent of what the records held.',
    'C14': ' Bounds of exactly zero are generated; two fixed runs per front end in the quick tier; one problem over two lenses.',
    'C16': ' A seventh of the lenses are traced once and edited before the judged trace.',
    'C01': ' Histories include set_radius(+-inf) on curved surfaces, ready-made stop surfaces through add_surface(new_surface=), source-first pickup chains and add_wavelength of an existing value as new primary.',
    'C11': ' Pupils cut by physical apertures / central obscurations and pupils or spots with lost rays are decided (dark samples; arriving rays).',
    'C19': ' Surfaces inserted / removed before saving, field type set after the fields, object-space medium edited.',
    'C20': ' The first line of the file varies (VERS / MODE / aperture); x-only and grid field lists; a model glass must have the file\'s index at the d line.',
    'C17': ' The rotation sense of element angles is read from the named polarizers (H -> L45) and required of retarders and diattenuator.'
           ' Fresnel matrices for one bundle of mixed wavelengths in dispersive media.',
}


def main():
    checks = []
    for pid in ALL:
        if pid not in BUILT:
            continue
        tech, text, note, ref = BUILT[pid]
        text = text + EXTRA.get(pid, '')
        checks.append(dict(
            property_id=pid,
            quick_cmd=f'./vcheck {pid} --tier quick',
            thorough_cmd=f'./vcheck {pid} --tier thorough',
            evidence_file=f'/verif/evidence/{pid}.json',
            replay_cmd_template=f'./vcheck {pid} --replay {{path}}',
            engine='vkit',
            level_claimed=dict(category='exploration', text=text, design_ref=ref),
            level_note=note,
            technique=tech))
    na = [dict(property_id=pid, reason=NOT_YET.get(pid, 'check not built yet in this session; planned as in DESIGN.md §4'))
          for pid in ALL if pid not in BUILT]
    man = dict(
        version=1,
        setup_cmd='/venv/bin/python -m pip install -q --no-index --find-links /opt/veriftools/wheels --target /verif/.deps icontract',
        hooks=dict(
            guard='OPTILAND_VERIF',
            enable='no source hooks: monitors are attached from the harness (vkit/monitors.py) and refuse to install unless '
                   'OPTILAND_VERIF=1 (set by ./vcheck); optiland is imported from /repo working tree via PYTHONPATH',
            baseline_off_cmd='cd /repo && /venv/bin/python -m pytest -q -p no:cacheprovider --timeout=900',
            source_commits=[],
            add_only=True),
        engines=[dict(name='vkit', path='/verif/vkit',
                      serves_properties=sorted(BUILT),
                      kind_free_text='runtime monitoring: generated workloads run against the real optiland from /repo; '
                                     'reference-model, law, history and contract monitors decide; sys.monitoring reach counters')],
        checks=checks,
        notes='All checks import optiland from $VERIF_REPO (default /repo) working tree; no build. Known findings: '
              '/verif/known_findings.json. Seeded breaks: /verif/seeded/. See DESIGN.md.',
        not_applicable=na)
    with open(os.path.join(HERE, 'MANIFEST.json'), 'w') as f:
        json.dump(man, f, indent=1)
    try:
        import jsonschema
        jsonschema.validate(man, json.load(open('/root/.vp/MANIFEST.schema.json')))
        print('MANIFEST.json valid;', len(checks), 'checks,', len(na), 'not_applicable')
    except ImportError:
        print('MANIFEST.json written (jsonschema not available to validate)')


if __name__ == '__main__':
    main()
