"""C12 -- geometric analyses are faithful functions of the traced rays (reference-model monitor).

Every analysis object is built on one copy of a lens; the rays it documents (field, wavelength,
pupil distribution / pupil coordinates) are traced separately through the public tracer on a SECOND,
freshly built copy, and every stored / returned number is recomputed from those rays with formulae
written here from the docstrings and the property statement:

  spot data (bitwise), centroid = mean over the primary-wavelength spot, rms = sqrt(mean r^2) and
  geometric = max r about that centroid, ray fans relative to the primary-wavelength chief ray,
  encircled energy (monotone, total, fraction inside r about the centroid), rms-spot-vs-field,
  distortion and grid distortion against the paraxial image height on the actual image surface from the
  independent ABCD oracle (vkit.oracles.paraxial), field curvature against Coddington's equations along
  the separately traced chief ray (vkit.oracles.coddington), pupil aberration from the real stop
  coordinates and the ABCD marginal ray, ray operands against the indexed surface record.

No known-defect mechanism is modelled any more: the five defects this check found (primary index into the caller's
wavelength list, object heights treated as angles, grid x flip for object heights, axial point in the grid maximum,
duplicate wavelength key in the ray fan) were repaired in the library, so a regression is a plain violation.
"""
import copy
import math

import numpy as np

from vkit import lens as L
from vkit.oracles import coddington as COD

ID = 'C12'
RULE = ('random axially symmetric lenses from vkit.lens.gen_axial (2-8 interfaces; planes, spheres, conics, even '
        'aspheres without r^2 term; 50 % catalogue glasses so that wavelengths differ; image surface at the paraxial '
        'focus or elsewhere, plane or (30 %, field curvature 60 %) a sphere/conic of |R| = 2-20 focal lengths of either '
        'sign, in the field-curvature family 30 % tilted about x by 0.03-0.25 rad; finite and infinite objects; angle and object-height fields along y; 1-3 wavelengths; '
        '25 % with vignetting factors; mirrors only in the families that do not use the ABCD oracle) plus 8 bundled '
        'samples; each case exercises ONE analysis family (spot, rms-vs-field, ray fan, encircled energy, distortion, '
        'grid distortion, field curvature, pupil aberration, operands) with a random distribution name / ray count / '
        'number of points and, where the class takes them, explicit field and wavelength lists that differ from the '
        "lens's own (same, subset, superset, permuted, without the primary, single primary / non-primary, a value listed twice); "
        'the unseeded "random" distribution cannot be re-traced, its spots are checked for count and the derived '
        'quantities against the stored spot (a seeded RandomDistribution object is re-traced bitwise); pupil aberration '
        'is exercised without vignetting factors (their effect on the paraxial reference is not documented); the '
        'Coddington oracle covers planes, spheres, conics and even aspheres, refracting and reflecting; '
        'a case is non-trivial when the lens has >= 2 powered surfaces and the analysis returned >= 5 finite samples; '
        'distinct = distinct case hash')
TIERS = {'quick': dict(shards=12, cases=40), 'thorough': dict(shards=16, cases=1100)}
MIN_NONTRIVIAL = {'quick': 250, 'thorough': 5000}
MIN_EVALS = {'spot-data': 60, 'spot-centroid': 30, 'spot-rms-radius': 30, 'spot-geometric-radius': 30,
             'rms-spot-vs-field': 25, 'ray-fan': 60, 'ray-fan-axis': 25,
             'encircled-energy-monotone': 30, 'encircled-energy-total': 30, 'encircled-energy-curve': 30,
             'distortion': 40, 'grid-distortion-real': 20, 'grid-distortion-x': 20, 'grid-distortion-y': 20,
             'grid-distortion-max': 20, 'field-curvature-tangential': 30, 'field-curvature-sagittal': 30,
             'pupil-aberration': 30, 'ray-operands': 150, 'rms-spot-operand': 25, 'explicit-list-no-exception': 15}
ASSUMPTIONS = ['the public tracer (Optic.trace / trace_generic) is the ray source on both sides: C01-C03 check the rays '
               'themselves, this check decides only whether the analyses are faithful functions of them',
               'indices of catalogue media are taken from the library material objects (C18 checks them)',
               'paraxial references come from the independent ABCD oracle (vkit.oracles.paraxial), the ray aimed at the '
               "centre of the PRIMARY-wavelength entrance pupil as the library's chief ray is",
               'field curvature: Coddington equations written from Kingslake/Welford with own surface normals and own '
               'tangential/sagittal curvatures from the sag derivatives; compared in units of f + shift^2/f because the '
               "library's parabasal-pair intersection (delta = 1e-5) has an absolute error in vergence; measured worst "
               '2.3e-7 of that unit over 8500 curves x 5-40 field points (typical 4e-8 per 250 lenses), tolerance 5e-6 '
               '(> 20x margin; a missing direction-cosine projection or a swapped T/S pair is >= 1e-4); the shift is '
               "z(focus) - z(chief ray's own point on the image surface), which is what the library's t*N of a parabasal "
               'ray is to first order in delta, also on a curved or x-tilted image surface; dropping the z difference of a '
               'SAGITTAL pair is second order in delta (its L is O(delta)) and therefore not decidable',
               'ray fans: the reference chief ray is traced on its own; tolerance 1e-10 for closed-form lenses, 1e-6 when '
               'the lens has an iterated (even-asphere) surface whose batch-wide Newton stopping rule makes a ray traced '
               'alone differ from the same ray in a fan by ~1e-8 on the image (C13 owns batch independence)',
               'distortion / grid distortion: paraxial heights from ABCD agree with the library\'s H = 1e-10 real ray to '
               '4e-11 % (tolerance 1e-7 %) and 4e-13 relative (tolerance 1e-9)',
               'encircled-energy curves are observed through view() under the Agg backend (the data is not stored)']
ANCHORS = [('optiland.analysis.spot_diagram', 'SpotDiagram._generate_field_data'),
           ('optiland.analysis.spot_diagram', 'SpotDiagram.centroid'),
           ('optiland.analysis.spot_diagram', 'SpotDiagram.rms_spot_radius'),
           ('optiland.analysis.spot_diagram', 'SpotDiagram.geometric_spot_radius'),
           ('optiland.analysis.ray_fan', 'RayFan._generate_data'),
           ('optiland.analysis.encircled_energy', 'EncircledEnergy._generate_field_data'),
           ('optiland.analysis.encircled_energy', 'EncircledEnergy._plot_field'),
           ('optiland.analysis.encircled_energy', 'EncircledEnergy.centroid'),
           ('optiland.analysis.field_curvature', 'FieldCurvature._intersection_parabasal_tangential'),
           ('optiland.analysis.field_curvature', 'FieldCurvature._intersection_parabasal_sagittal'),
           ('optiland.analysis.distortion', 'Distortion._generate_data'),
           ('optiland.analysis.grid_distortion', 'GridDistortion._generate_data'),
           ('optiland.analysis.pupil_aberration', 'PupilAberration._generate_data'),
           ('optiland.analysis.rms_vs_field', 'RmsSpotSizeVsField.__init__'),
           ('optiland.optimization.operand.ray', 'RayOperand.x_intercept'),
           ('optiland.optimization.operand.ray', 'RayOperand.y_intercept'),
           ('optiland.optimization.operand.ray', 'RayOperand.z_intercept'),
           ('optiland.optimization.operand.ray', 'RayOperand.L'),
           ('optiland.optimization.operand.ray', 'RayOperand.M'),
           ('optiland.optimization.operand.ray', 'RayOperand.N'),
           ('optiland.optimization.operand.ray', 'RayOperand.rms_spot_size')]

FAMILIES = ['spot', 'rmsfield', 'fan', 'ee', 'distortion', 'grid', 'fieldcurv', 'pupil', 'operands']
ABCD_FAMILIES = ('distortion', 'grid', 'pupil')
DISTS = ['hexapolar', 'uniform', 'random', 'random-seeded', 'cross', 'ring', 'line_x', 'line_y',
         'positive_line_x', 'positive_line_y']
SAMPLES = {'CookeTriplet': ['spot', 'fan', 'distortion', 'fieldcurv', 'pupil', 'ee'],
           'TripletTelescopeObjective': ['spot', 'rmsfield', 'grid', 'fieldcurv', 'operands'],
           'DoubleGauss': ['fan', 'distortion', 'fieldcurv', 'pupil'],
           'ReverseTelephoto': ['spot', 'grid', 'fieldcurv', 'distortion'],
           'CementedAchromat': ['rmsfield', 'ee', 'operands', 'fieldcurv'],
           'HubbleTelescope': ['spot', 'fan', 'fieldcurv'],
           'UVReflectingMicroscope': ['spot', 'fieldcurv', 'ee'],
           'UVProjectionLens': ['spot', 'distortion', 'grid', 'fieldcurv']}


# ---------------------------------------------------------------------------
# case generation

def _num_rays(rng, dist):
    if dist == 'hexapolar':
        return int(rng.integers(1, 8))
    if dist == 'uniform':
        return int(rng.integers(3, 17))
    if dist in ('random', 'random-seeded'):
        return int(rng.integers(5, 400))
    if dist == 'cross':
        return int(rng.integers(2, 40))
    if dist == 'ring':
        return int(rng.integers(3, 48))
    return int(rng.integers(2, 48))


def _new_wl(rng, taken):
    while True:
        w = round(float(rng.uniform(0.45, 0.7)), 5)
        if all(abs(w - t) > 1e-4 for t in taken):
            return w


def _pick_wavelengths(rng, spec, allow_modes=None):
    lw = [w[0] for w in spec['wavelengths']]
    pi = [i for i, w in enumerate(spec['wavelengths']) if w[1]][0]
    modes = ['all', 'all', 'same-explicit', 'subset', 'superset', 'no-primary', 'single-nonprimary',
             'single-primary', 'permuted']
    if allow_modes:
        modes = [m for m in modes if m in allow_modes]
    mode = modes[int(rng.integers(len(modes)))]
    if mode == 'all':
        return 'all', mode
    if mode == 'same-explicit':
        return list(lw), mode
    if mode == 'subset':
        if len(lw) == 1:
            return list(lw), 'same-explicit'
        k = int(rng.integers(1, len(lw)))
        idx = sorted(rng.choice(len(lw), size=k, replace=False).tolist())
        return [lw[i] for i in idx], mode
    if mode == 'superset':
        out = list(lw)
        out.insert(int(rng.integers(0, len(out) + 1)), _new_wl(rng, lw))
        return out, mode
    if mode == 'no-primary':
        out = [w for i, w in enumerate(lw) if i != pi]
        if not out or rng.random() < 0.3:
            out = out + [_new_wl(rng, lw)]
        return out, mode
    if mode == 'single-nonprimary':
        cand = [w for i, w in enumerate(lw) if i != pi]
        return [cand[int(rng.integers(len(cand)))] if cand and rng.random() < 0.7 else _new_wl(rng, lw)], mode
    if mode == 'single-primary':
        return [lw[pi]], mode
    out = list(lw)
    if len(out) > 1:
        while out == lw:
            out = [lw[i] for i in rng.permutation(len(lw))]
    return out, mode


def _pick_fields(rng, spec):
    if rng.random() < 0.5:
        return 'all'
    fmax = max(f[0] for f in spec['fields'])
    own = [round(f[0] / fmax, 12) if fmax else 0.0 for f in spec['fields']]
    n = int(rng.integers(1, 4))
    out = []
    for _ in range(n):
        if rng.random() < 0.4:
            out.append([0.0, float(own[int(rng.integers(len(own)))])])
        else:
            out.append([0.0, round(float(rng.uniform(-1, 1)), 4)])
    return out


def _gen_lens(rng, family):
    a_ = L.loguniform(rng, 1.0, 10.0)
    kw = dict(semi=a_, nsurf=(2, 9), glass_p=0.5, conic_p=0.3, asphere_p=0.15, neg_power_p=0.1, finite_p=0.45,
              image='paraxial' if rng.random() < 0.75 else 'any')
    if family not in ABCD_FAMILIES and rng.random() < 0.12:
        kw['mirrors_p'] = 0.3
    while True:
        spec, info = L.gen_axial(rng, **kw)
        # the paraxial tracer ignores an even asphere's r^2 term (C04 finding asphere-r2-term): keep that out of here
        if any(s.get('type') == 'even_asphere' and s.get('coeffs') and s['coeffs'][0] != 0 for s in spec['surfaces']):
            continue
        break
    # image surface: plane, or a sphere/conic of |R| = 2..20 focal lengths (both signs); in the field-curvature
    # family also tilted about x (the meridional plane stays a symmetry plane), so that the two parabasal rays of a
    # tangential pair are recorded at different z
    img = spec['surfaces'][-1]
    img_cls = 'img-plane'
    f2 = abs(float(L.psys(spec).f2()))
    if np.isfinite(f2) and f2 > 0 and rng.random() < (0.6 if family == 'fieldcurv' else 0.3):
        img['radius'] = round(float(L.loguniform(rng, 2.0, 20.0) * f2 * (1 if rng.random() < 0.5 else -1)), 6)
        if rng.random() < 0.3:
            img['conic'] = round(float(rng.uniform(-2.0, 1.0)), 6)
        img_cls = 'img-curved'
    if family == 'fieldcurv' and rng.random() < 0.3:
        img['rx'] = round(float(rng.uniform(0.03, 0.25) * (1 if rng.random() < 0.5 else -1)), 6)
        img_cls += '+tilted-x'
    vig = False
    if family != 'pupil' and rng.random() < 0.25 and len(spec['fields']) > 1:
        for f in spec['fields']:
            if f[0] != 0:
                f[1] = round(float(rng.uniform(0, 0.4)), 3)
                f[2] = round(float(rng.uniform(0, 0.4)), 3)
        vig = True
    info = dict(info, vig=vig, img=img_cls)
    if family in ('spot', 'fan', 'ee', 'operands') and rng.random() < 0.25:
        # a lens that is NOT rotationally symmetric (small tilts / decentres): x and y fans, x and y spot widths of the
        # axial field differ - nothing may be inferred from symmetry
        info['decorated'] = L.decorate(spec, rng, a_, freeform_p=0.0, big_tilt_p=0.0)
    return spec, info


def fixed_cases(tier):
    out = []
    for name, fams in SAMPLES.items():
        for k, fam in enumerate(fams):
            out.append(dict(kind='sample', name=name, family=fam, seed=k))
    return out


def gen_case(rng, tier, i):
    family = FAMILIES[int(rng.integers(len(FAMILIES)))]
    spec, info = _gen_lens(rng, family)
    case = dict(kind='random', family=family, spec=spec, info=info)
    case.update(_params(rng, family, spec))
    if rng.random() < 0.2 and not case.get('clip'):
        # the analysed lens is first used (traces, a spot diagram, paraxial queries), then edited through the public
        # setters; the analysis must be that of the edited prescription (the oracle traces a lens built from scratch)
        # (no thickness edits: an edited vertex position differs from the freshly summed one in the last bit, and the
        #  analyses are compared bit for bit with the oracle lens's own traces)
        ed = L.gen_edits(rng, spec, kinds=('index', 'radius', 'conic'))
        # the edited lens must stay in the generator's class (positive power: the sign of f2 is C04's finding)
        if ed and float(L.psys(L.apply_edits(None, spec, ed)).power()) > 0:
            case['edits'] = ed
    return case


def _params(rng, family, spec):
    p = {}
    lw = [w[0] for w in spec['wavelengths']]
    if family in ('spot', 'rmsfield', 'ee', 'operands'):
        d = DISTS[int(rng.integers(len(DISTS)))]
        p['dist'] = d
        p['n'] = _num_rays(rng, d)
        p['dseed'] = int(rng.integers(1 << 30))
    if family in ('spot', 'fan', 'pupil'):
        p['fields'] = _pick_fields(rng, spec)
    if family in ('spot', 'rmsfield', 'fan', 'pupil', 'distortion', 'fieldcurv'):
        p['wavelengths'], p['wl_mode'] = _pick_wavelengths(rng, spec)
    if family == 'rmsfield':
        p['num_fields'] = int(rng.integers(2, 12))
    if family in ('fan', 'pupil'):
        p['num_points'] = int(rng.integers(3, 70))
    if family == 'fan' and rng.random() < 0.06:
        p['wavelengths'], p['wl_mode'] = [lw[0], lw[-1], lw[0]], 'duplicate-value'
    if family == 'pupil' and rng.random() < 0.35:
        p['clip'] = [int(rng.integers(len(spec['surfaces']) - 1)), round(float(rng.uniform(0.55, 0.95)), 3)]
    if family == 'ee':
        p['fields'] = _pick_fields(rng, spec)
        r = rng.random()
        p['wavelength'] = 'primary' if r < 0.4 else (lw[int(rng.integers(len(lw)))] if r < 0.8 else _new_wl(rng, lw))
        p['num_points'] = int(rng.integers(8, 64))
        if rng.random() < 0.35:
            p['clip'] = [int(rng.integers(len(spec['surfaces']) - 1)), round(float(rng.uniform(0.55, 0.95)), 3)]
    if family in ('distortion', 'fieldcurv'):
        p['num_points'] = int(rng.integers(5, 40))
    if family == 'grid':
        r = rng.random()
        p['wavelength'] = 'primary' if r < 0.4 else (lw[int(rng.integers(len(lw)))] if r < 0.8 else _new_wl(rng, lw))
        p['num_points'] = int(rng.integers(2, 12))
        p['dtype'] = 'f-tan' if rng.random() < 0.5 else 'f-theta'
    if family == 'operands':
        K = len(spec['surfaces'])
        rr, th = math.sqrt(rng.random()), rng.uniform(0, 2 * math.pi)
        p['surface'] = int(rng.integers(0, K + 1))
        p['Hy'] = round(float(rng.choice([0.0, 1.0, -1.0, rng.uniform(-1, 1)])), 6)
        p['Px'], p['Py'] = round(rr * math.cos(th), 6), round(rr * math.sin(th), 6)
        p['wl'] = lw[int(rng.integers(len(lw)))] if rng.random() < 0.8 else _new_wl(rng, lw)
        p['rms_wl'] = 'all' if rng.random() < 0.5 else p['wl']
        p['rms_surface'] = -1 if rng.random() < 0.6 else int(rng.integers(1, K + 1))
    return p


# ---------------------------------------------------------------------------
# helpers

def _dist_arg(dist, n, seed):
    """What is handed to the library / to Optic.trace as `distribution`."""
    if dist == 'random-seeded':
        from optiland.distribution import RandomDistribution
        d = RandomDistribution(seed=seed)
        d.generate_points(n)
        return d
    return dist


class Ctx:
    """Two independent copies of the lens and everything the oracles need."""

    def __init__(self, case):
        self.case = case
        if case['kind'] == 'sample':
            from vkit import samples
            self.A = samples.make(case['name'])
            self.B = samples.make(case['name'])
            self.spec = samples.spec_from_lens(self.B)
            self.sample = True
        else:
            self.spec = case['spec']
            self.A = L.build(self.spec)
            if case.get('edits'):
                from optiland.analysis import SpotDiagram
                wl0 = L.primary_wavelength(self.spec)
                try:
                    self.A.trace_generic(0.0, 0.5, 0.0, 0.5, wl0)
                    self.A.trace(0.0, 1.0, wl0, 6, 'line_y')
                    self.A.paraxial.EPL(); self.A.paraxial.f2(); self.A.paraxial.chief_ray()
                    self.A.update_paraxial()      # stores per-surface semi-apertures of the lens as it is NOW (stale after the edit)
                    SpotDiagram(self.A, num_rings=2).rms_spot_radius()
                except Exception:
                    pass        # whatever the first use does is not judged; the analysis after the edit is
                self.spec = L.apply_edits(self.A, self.spec, case['edits'])
            self.B = L.build(self.spec)
            self.sample = False
            try:    # the records of the analysed lens hold an unrelated single-ray trace when the analysis starts
                self.A.trace_generic(0.0, 0.37, 0.21, -0.45, L.primary_wavelength(self.spec))
            except Exception:
                pass
        spec = self.spec
        self.lw = [w[0] for w in spec['wavelengths']]
        self.pi = [i for i, w in enumerate(spec['wavelengths']) if w[1]][0]
        self.wp = self.lw[self.pi]
        self.ftype = spec['field_type']
        self.fmax = max(abs(f[0]) for f in spec['fields'])
        self.own_fields = [(0.0, float(f[0] / self.fmax)) if self.fmax else (0.0, 0.0) for f in spec['fields']]
        if not self.fmax:
            self.own_fields = [(0.0, 0.0)]
        self.K = len(spec['surfaces'])
        self.zv = L.vertex_positions(spec)[1:]
        self.obj_inf = spec['obj_t'] == 'inf'
        self.vig = any((len(f) > 1 and f[1]) or (len(f) > 2 and f[2]) for f in spec['fields'])
        self._psys = {}

    def psys(self, wl=None):
        wl = wl or self.wp
        if wl not in self._psys:
            if self.sample:
                from vkit import samples
                self._psys[wl] = L.psys(samples.spec_from_lens(self.B, wl), wl=wl)
            else:
                self._psys[wl] = L.psys(self.spec, wl=wl)
        return self._psys[wl]

    def powered(self):
        return sum(1 for s in self.spec['surfaces'][:-1] if s.get('radius', 'inf') != 'inf')

    def fields_arg(self, f):
        if f == 'all' or f is None:
            return 'all', list(self.own_fields)
        t = [(float(a), float(b)) for a, b in f]
        return t, t

    def wl_arg(self, w):
        if w == 'all' or w is None:
            return 'all', list(self.lw)
        return list(w), list(w)

    # -- own traces ----------------------------------------------------
    def spot(self, field, wl, n, dist, seed, surface=-1):
        self.B.trace(field[0], field[1], wl, n, _dist_arg(dist, n, seed))
        sg = self.B.surface_group
        return sg.x[surface, :].copy(), sg.y[surface, :].copy(), sg.intensity[surface, :].copy()

    def generic(self, Hx, Hy, Px, Py, wl):
        """-> P, D arrays (K+1, N, 3), intensity (K+1, N)."""
        self.B.trace_generic(Hx, Hy, Px, Py, wl)
        sg = self.B.surface_group
        P = np.stack([sg.x, sg.y, sg.z], axis=-1).copy()
        D = np.stack([sg.L, sg.M, sg.N], axis=-1).copy()
        return P, D, sg.intensity.copy()

    def parax_chief_unit(self, wl):
        """Image-surface height of the paraxial ray through the centre of the primary-wavelength entrance pupil,
        traced at wl: per unit object-space slope (angle fields) or per unit object height."""
        P0, Pw = self.psys(), self.psys(wl)
        epl = float(P0.EPL())
        if self.ftype == 'angle':
            u0 = 1.0
            y1 = -epl * u0
        else:
            t0 = L.fnum(self.spec['obj_t'])
            u0 = -1.0 / (epl + t0)
            y1 = 1.0 + u0 * t0
        y, _ = Pw.trace(y1, u0)
        return float(y[-1])


def _centroid(x, y):
    return float(np.mean(x)), float(np.mean(y))


def _radii(x, y, c):
    r2 = (x - c[0]) ** 2 + (y - c[1]) ** 2
    return float(np.sqrt(np.mean(r2))), float(np.sqrt(np.max(r2)))


def _finite(*arrs):
    return all(bool(np.all(np.isfinite(a))) for a in arrs)


def _idx_class(ctx, W_explicit):
    """Class of an explicit caller wavelength list relative to the lens's own list.
    -> (primary_in_list, index_of_primary_in_list or None)"""
    if W_explicit == 'all':
        return True, ctx.pi
    W = list(W_explicit)
    has = ctx.wp in W
    return has, (W.index(ctx.wp) if has else None)


def _list_exception(rec, what, W, ctx, e):
    """An explicit (documented) wavelength list made the analysis raise a lookup error."""
    rec.check('explicit-list-no-exception', False,
              msg=f'{what}(wavelengths={W}) raised {type(e).__name__}: {e} (lens wavelengths {ctx.lw}, primary index '
                  f'{ctx.pi})', detail=dict(W=W, lens_wavelengths=ctx.lw, primary_index=ctx.pi))


# ---------------------------------------------------------------------------
# families

def _spot_like(ctx, rec, obj, F, W, n, dist, seed, Wexp, clause_prefix='spot'):
    """Checks shared by SpotDiagram, RmsSpotSizeVsField and EncircledEnergy. Returns the own spots [field][wl]."""
    data = obj.data
    retrace = dist != 'random'
    own = []
    for i, f in enumerate(F):
        row = []
        for j, w in enumerate(W):
            gx, gy, gi = (np.asarray(a, float) for a in data[i][j])
            if retrace:
                x, y, it = ctx.spot(f, w, n, dist, seed)
                rec.event('rays_recomputed', len(x))
                ok = bool(np.array_equal(gx, x, equal_nan=True) and np.array_equal(gy, y, equal_nan=True)
                          and np.array_equal(gi, it, equal_nan=True))
                rec.check('spot-data', ok, msg=f'{type(obj).__name__}.data[{i}][{j}] differs from the image-surface '
                          f'record of Optic.trace{(f[0], f[1], w, n, dist)}',
                          detail=dict(max_dx=float(np.nanmax(np.abs(gx - x))) if gx.shape == x.shape else 'shape',
                                      field=f, wavelength=w))
            else:
                x, y, it = gx, gy, gi
                rec.check('spot-data', bool(len(gx) == n and len(gy) == n and len(gi) == n),
                          msg=f'unseeded random spot: {len(gx)} rays stored for num_rays={n}')
            row.append((x, y, it))
        own.append(row)
    if clause_prefix != 'spot':
        return own
    has, pos = _idx_class(ctx, Wexp)
    try:
        cen = obj.centroid()
        rms = obj.rms_spot_radius()
        geo = obj.geometric_spot_radius()
    except (IndexError, KeyError) as e:
        if Wexp == 'all':
            raise
        _list_exception(rec, 'SpotDiagram.centroid/rms_spot_radius', W, ctx, e)
        return own
    if Wexp != 'all':
        rec.check('explicit-list-no-exception', True)
    for i, f in enumerate(F):
        if not _finite(*[a for r in own[i] for a in r[:2]]):
            rec.cls('rays-failed-derived-skipped')
            continue
        got_c = (float(cen[i][0]), float(cen[i][1]))
        sc = max(1.0, float(np.max(np.abs(own[i][0][1]))))
        if has:
            want_c = _centroid(*own[i][pos][:2])
            rec.close('spot-centroid', got_c, want_c, 1e-12, scale=sc,
                      msg=f'centroid of field {f} is not the mean of the primary-wavelength ({ctx.wp}) spot',
                      detail=dict(W=W, primary_index=ctx.pi))
        else:
            # the primary wavelength is not in the caller's data: the statement fixes no reference; demand only
            # that the centroid is the mean of one of the stored spots
            cands = [_centroid(*own[i][j][:2]) for j in range(len(W))]
            ok = any(max(abs(got_c[0] - c[0]), abs(got_c[1] - c[1])) <= 1e-12 * sc for c in cands)
            rec.check('spot-centroid', ok, msg='centroid is not the mean of any stored spot (primary absent from list)')
            want_c = got_c
        want_r, want_g = [], []
        for j in range(len(W)):
            r, g = _radii(own[i][j][0], own[i][j][1], want_c)
            want_r.append(r); want_g.append(g)
        rec.close('spot-rms-radius', np.asarray(rms[i], float), want_r, 1e-10, scale=sc,
                  msg=f'rms_spot_radius()[{i}] != sqrt(mean r^2) about the primary-wavelength centroid')
        rec.close('spot-geometric-radius', np.asarray(geo[i], float), want_g, 1e-10, scale=sc,
                  msg=f'geometric_spot_radius()[{i}] != max r about the primary-wavelength centroid')
    return own


def fam_spot(ctx, rec, c):
    from optiland.analysis import SpotDiagram
    Farg, F = ctx.fields_arg(c.get('fields', 'all'))
    Warg, W = ctx.wl_arg(c.get('wavelengths', 'all'))
    n, dist, seed = c['n'], c['dist'], c.get('dseed', 0)
    obj = SpotDiagram(ctx.A, fields=Farg, wavelengths=Warg, num_rings=n, distribution=_dist_arg(dist, n, seed))
    own = _spot_like(ctx, rec, obj, F, W, n, dist, seed, Warg)
    nfin = sum(int(np.sum(np.isfinite(r[0]))) for row in own for r in row)
    return nfin, {}


def fam_rmsfield(ctx, rec, c):
    from optiland.analysis import RmsSpotSizeVsField
    Warg, W = ctx.wl_arg(c.get('wavelengths', 'all'))
    n, dist, seed, nf = c['n'], c['dist'], c.get('dseed', 0), c['num_fields']
    has, pos = _idx_class(ctx, Warg)
    try:
        obj = RmsSpotSizeVsField(ctx.A, num_fields=nf, wavelengths=Warg, num_rings=n,
                                 distribution=_dist_arg(dist, n, seed))
        got = np.asarray(obj.rms_spot_radius(), float)
    except (IndexError, KeyError) as e:
        if Warg == 'all':
            raise
        _list_exception(rec, 'RmsSpotSizeVsField', W, ctx, e)
        return 0, {}
    if Warg != 'all':
        rec.check('explicit-list-no-exception', True)
    F = [(0.0, float(h)) for h in np.linspace(0, 1, nf)]
    okf = len(obj.fields) == nf and all(abs(float(a[1]) - b[1]) <= 1e-15 and float(a[0]) == 0 for a, b in zip(obj.fields, F))
    rec.check('rms-spot-vs-field-samples', bool(okf), msg='field samples are not (0, linspace(0, 1, num_fields))')
    F = [(float(a[0]), float(a[1])) for a in obj.fields] if okf else F
    own = _spot_like(ctx, rec, obj, F, W, n, dist, seed, Warg, clause_prefix='rmsfield')
    stored = getattr(obj, '_spot_size', None)
    if stored is not None:
        rec.check('rms-spot-vs-field-stored', bool(np.array_equal(np.asarray(stored, float), got, equal_nan=True)),
                  msg='plotted _spot_size differs from rms_spot_radius()')
    nfin = 0
    for i, f in enumerate(F):
        if not _finite(*[a for r in own[i] for a in r[:2]]):
            rec.cls('rays-failed-derived-skipped')
            continue
        sc = max(1.0, float(np.max(np.abs(own[i][0][1]))))
        if has:
            want_c = _centroid(*own[i][pos][:2])
            want = [_radii(own[i][j][0], own[i][j][1], want_c)[0] for j in range(len(W))]
            rec.close('rms-spot-vs-field', got[i], want, 1e-10, scale=sc,
                      msg=f'RMS spot size at field {f} != sqrt(mean r^2) about the primary-wavelength centroid',
                      detail=dict(W=W, primary_index=ctx.pi))
        else:
            # primary absent: reference not fixed by the statement; accept the rms about the centroid of any stored spot
            ok = False
            for jj in range(len(W)):
                cc = _centroid(*own[i][jj][:2])
                want = [_radii(own[i][j][0], own[i][j][1], cc)[0] for j in range(len(W))]
                if np.all(np.abs(got[i] - np.asarray(want)) <= 1e-10 * sc):
                    ok = True
            rec.check('rms-spot-vs-field', ok, msg='rms is not about the centroid of any stored spot (primary absent)')
        nfin += int(np.sum(np.isfinite(got[i])))
    return nfin, {}


def fam_fan(ctx, rec, c):
    from optiland.analysis import RayFan
    Farg, F = ctx.fields_arg(c.get('fields', 'all'))
    Warg, W = ctx.wl_arg(c.get('wavelengths', 'all'))
    npts = c['num_points']
    try:
        obj = RayFan(ctx.A, fields=Farg, wavelengths=Warg, num_points=npts)
    except (IndexError, KeyError) as e:
        if Warg == 'all':
            raise
        _list_exception(rec, 'RayFan', W, ctx, e)
        return 0, {}
    if Warg != 'all':
        rec.check('explicit-list-no-exception', True)
    ne = npts + 1 if npts % 2 == 0 else npts
    d = obj.data
    want_ax = np.linspace(-1, 1, ne)
    ok = (np.shape(d['Px']) == (ne,) and np.shape(d['Py']) == (ne,) and bool(np.allclose(d['Px'], want_ax, atol=1e-15))
          and bool(np.allclose(d['Py'], want_ax, atol=1e-15)) and abs(float(d['Px'][ne // 2])) < 1e-15)
    rec.check('ray-fan-axis', bool(ok), msg='Px/Py axes are not linspace(-1, 1, odd num_points) with a sample at P=0')
    nfin = 0
    # the chief ray is traced on its own: a closed-form lens reproduces it to round-off; an iterated surface
    # (even asphere, Newton-Raphson to |dz| < 1e-10 with a batch-wide stopping rule) only to ~1e-10 x lever arm,
    # measured <= 1e-8 on the image: 1e-6 is 100x that and still 1e3 below lateral colour / fan size effects
    iterated = any(s_.get('type', 'standard') != 'standard' for s_ in ctx.spec['surfaces'])
    tol_fan = 1e-6 if iterated else 1e-10
    rec.cls('fan-iterated-surface' if iterated else 'fan-closed-form')
    if len(set(W)) < len(W):
        rec.cls('fan-duplicate-wavelength')
    if len(set(F)) < len(F):
        rec.cls('fan-duplicate-field')
    for f in F:
        Pc, _, _ = ctx.generic(float(f[0]), float(f[1]), 0.0, 0.0, ctx.wp)
        xref, yref = float(Pc[-1, 0, 0]), float(Pc[-1, 0, 1])
        for w in W:
            e = d[f'{f}'][f'{w}']
            x, _, ix = ctx.spot(f, w, ne, 'line_x', 0)
            _, y, iy = ctx.spot(f, w, ne, 'line_y', 0)
            rec.event('rays_recomputed', 2 * ne)
            sc = max(1.0, abs(yref))
            got = np.concatenate([np.asarray(e['x'], float), np.asarray(e['y'], float)])
            want = np.concatenate([x - xref, y - yref])
            rec.close('ray-fan', got, want, tol_fan, scale=sc,
                      msg=f'ray fan (field {f}, wavelength {w}) != line_x/line_y image coordinates minus the '
                          f'primary-wavelength chief ray', detail=dict(xref=xref, yref=yref, W=W, F=F))
            rec.check('ray-fan-intensity', bool(np.array_equal(e['intensity_x'], ix, equal_nan=True)
                                                and np.array_equal(e['intensity_y'], iy, equal_nan=True)),
                      msg='fan intensities differ from the traced rays')
            nfin += int(np.sum(np.isfinite(got)))
    return nfin, {}


def _capture_lines(obj):
    import matplotlib
    matplotlib.use('Agg')
    import matplotlib.pyplot as plt
    plt.close('all')
    obj.view()
    ax = plt.gcf().axes[0]
    out = [(np.asarray(l.get_xdata(), float).copy(), np.asarray(l.get_ydata(), float).copy()) for l in ax.lines]
    plt.close('all')
    return out


def apply_clip(ctx, rec, c, cls_name):
    if c.get('clip') and not ctx.sample:
        # a clipping aperture on one surface (fraction of the paraxial marginal height there): some rays lose
        # their energy, so that "total transmitted energy" differs from the number of rays
        k, frac = c['clip']
        spec = copy.deepcopy(ctx.spec)
        P = L.psys(spec)
        ya, _ = P.marginal(L.epd_of(spec, P))
        h = abs(float(ya[k + 1]))
        if h > 0:
            spec['surfaces'][k]['aperture'] = {'r_max': frac * h}
            ctx.spec = spec
            ctx.A, ctx.B = L.build(spec), L.build(spec)
            rec.cls(cls_name)


def fam_ee(ctx, rec, c):
    from optiland.analysis import EncircledEnergy
    apply_clip(ctx, rec, c, 'ee-clipping-aperture')
    Farg, F = ctx.fields_arg(c.get('fields', 'all'))
    n, dist, seed, npts = c['n'], c['dist'], c.get('dseed', 0), c['num_points']
    wl = c.get('wavelength', 'primary')
    w = ctx.wp if wl == 'primary' else wl
    obj = EncircledEnergy(ctx.A, fields=Farg, wavelength=wl, num_rays=n, distribution=_dist_arg(dist, n, seed),
                          num_points=npts)
    own = _spot_like(ctx, rec, obj, F, [w], n, dist, seed, 'all', clause_prefix='ee')
    if not all(_finite(r[0][0], r[0][1]) for r in own):
        rec.cls('rays-failed-derived-skipped')
        return 0, {}
    cents, geos = [], []
    for i in range(len(F)):
        x, y, it = own[i][0]
        cc = _centroid(x, y)
        cents.append(cc)
        geos.append(_radii(x, y, cc)[1])
    got_c = np.asarray(obj.centroid(), float)
    rec.close('encircled-energy-centroid', got_c, np.asarray(cents), 1e-12,
              scale=max(1.0, float(np.max(np.abs(got_c)))), msg='EncircledEnergy.centroid() != mean x, y of the spot')
    rmax = 1.2 * max(geos)
    lines = _capture_lines(obj)
    rec.check('encircled-energy-lines', len(lines) == len(F), msg=f'{len(lines)} curves for {len(F)} fields')
    nfin = 0
    for i, (r, e) in enumerate(lines[:len(F)]):
        x, y, it = own[i][0]
        rad = np.hypot(x - cents[i][0], y - cents[i][1])
        total = float(np.nansum(it))
        # (summation order of the growing subsets: allow round-off of the running sum)
        rec.check('encircled-energy-monotone', bool(np.all(np.diff(e) >= -1e-12 * max(1.0, total))),
                  msg='encircled energy decreases with radius', detail=dict(min_step=float(np.min(np.diff(e)))))
        rec.close('encircled-energy-total', float(e[-1]), total, 1e-9, scale=max(1.0, total),
                  msg='encircled energy at the largest radius is not the sum of the ray intensities')
        rec.close('encircled-energy-radius-axis', r, np.linspace(0, rmax, npts), 1e-9, scale=max(rmax, 1e-300),
                  msg='radius axis is not linspace(0, 1.2 x largest geometric radius, num_points)')
        eps = 1e-9 * max(rmax, 1e-300)
        lo = np.array([np.nansum(it[rad <= rr - eps]) for rr in r])
        hi = np.array([np.nansum(it[rad <= rr + eps]) for rr in r])
        ok = bool(np.all(e >= lo - 1e-9) and np.all(e <= hi + 1e-9))
        rec.check('encircled-energy-curve', ok,
                  msg='encircled energy at radius r is not the summed intensity of the rays within r of the centroid',
                  detail=dict(r=r[:6], got=e[:6], lo=lo[:6], hi=hi[:6], total=total))
        nfin += int(np.sum(np.isfinite(e)))
    return nfin, {}


def fam_distortion(ctx, rec, c):
    from optiland.analysis import Distortion
    Warg, W = ctx.wl_arg(c.get('wavelengths', 'all'))
    npts = c['num_points']
    Hy = np.linspace(1e-10, 1, npts)
    nfin = 0
    for dtype in ('f-tan', 'f-theta'):
        obj = Distortion(ctx.A, wavelengths=Warg, num_points=npts, distortion_type=dtype)
        rec.check('distortion-shape', len(obj.data) == len(W), msg='one curve per wavelength expected')
        for k, w in enumerate(W):
            P, _, _ = ctx.generic(np.zeros(npts), Hy.copy(), 0.0, 0.0, w)
            rec.event('rays_recomputed', npts)
            yr = P[-1, :, 1]
            unit = ctx.parax_chief_unit(w)
            if ctx.ftype == 'angle':
                th = Hy * math.radians(ctx.fmax)
                yp = unit * (np.tan(th) if dtype == 'f-tan' else th)
            else:
                # object-height field: the paraxial image height is linear in the object height
                yp = unit * Hy * ctx.fmax
            want = 100 * (yr - yp) / yp
            got = np.asarray(obj.data[k], float)
            rec.close('distortion', got, want, 1e-7,
                      msg=f'{dtype} distortion at wavelength {w} != 100 (y_chief - y_paraxial) / y_paraxial with the '
                          f'paraxial image height on the actual image surface (field type {ctx.ftype})',
                      detail=dict(dtype=dtype, field_type=ctx.ftype, max_field=ctx.fmax, unit=unit))
            nfin += int(np.sum(np.isfinite(got)))
    return nfin, {}


def fam_grid(ctx, rec, c):
    from optiland.analysis import GridDistortion
    npts, dtype = c['num_points'], c['dtype']
    wl = c.get('wavelength', 'primary')
    w = ctx.wp if wl == 'primary' else wl
    obj = GridDistortion(ctx.A, wavelength=wl, num_points=npts, distortion_type=dtype)
    d = obj.data
    ext = np.linspace(-math.sqrt(2) / 2, math.sqrt(2) / 2, npts)
    Hx, Hy = np.meshgrid(ext, ext)
    P, D, _ = ctx.generic(Hx.flatten(), Hy.flatten(), 0.0, 0.0, w)
    rec.event('rays_recomputed', npts * npts)
    xr = P[-1, :, 0].reshape(npts, npts)
    yr = P[-1, :, 1].reshape(npts, npts)
    _fin = np.concatenate([xr.ravel(), yr.ravel()])
    _fin = np.abs(_fin[np.isfinite(_fin)])
    # (no chief ray of the grid reaches the image: the paraxial grid alone sets the scale)
    sc = max(1e-300, float(np.max(_fin))) if _fin.size else None
    if sc is None:
        rec.cls('grid-no-real-ray-reaches-image')
        u_ = abs(float(ctx.parax_chief_unit(w)))
        sc = u_ if np.isfinite(u_) and u_ > 0 else 1.0
    rec.close('grid-distortion-real', np.stack([d['xr'], d['yr']]), np.stack([xr, yr]), 1e-12, scale=sc,
              msg='real grid != image coordinates of the chief rays of the (Hx, Hy) grid')
    unit = ctx.parax_chief_unit(w)
    if ctx.ftype == 'angle':
        # object-space direction of each launched chief ray: tan(theta_x) = L/N, tan(theta_y) = M/N
        tx = (D[0, :, 0] / D[0, :, 2]).reshape(npts, npts)
        ty = (D[0, :, 1] / D[0, :, 2]).reshape(npts, npts)
        if dtype == 'f-tan':
            xp, yp = unit * tx, unit * ty
        else:
            xp, yp = unit * np.arctan(tx), unit * np.arctan(ty)
    else:
        # object-height fields: paraxial image = magnification x object point (both reference types)
        xo = P[0, :, 0].reshape(npts, npts)
        yo = P[0, :, 1].reshape(npts, npts)
        xp, yp = unit * xo, unit * yo
    rec.close('grid-distortion-x', d['xp'], xp, 1e-9, scale=sc,
              msg=f'predicted grid x ({dtype}, {ctx.ftype} fields) != paraxial image of the launched field points')
    rec.close('grid-distortion-y', d['yp'], yp, 1e-9, scale=sc,
              msg=f'predicted grid y ({dtype}, {ctx.ftype} fields) != paraxial image of the launched field points')
    # largest relative departure over the grid points off the axis (the axial point of an odd grid is 0/0)
    rp = np.sqrt(xp ** 2 + yp ** 2)
    with np.errstate(all='ignore'):
        v = 100 * np.sqrt((xp - xr) ** 2 + (yp - yr) ** 2) / rp
    v = v[rp > 1e-9 * sc]
    want = float(np.max(v)) if len(v) else float('nan')
    rec.cls('grid-odd' if npts % 2 else 'grid-even')
    rec.close('grid-distortion-max', float(d['max_distortion']), want, 1e-6, scale=max(1.0, abs(want)),
              msg='max_distortion != largest relative departure of the real from the paraxial grid (points off axis)',
              detail=dict(num_points=npts, dtype=dtype, field_type=ctx.ftype))
    return int(np.sum(np.isfinite(d['xr']))), {}


def fam_fieldcurv(ctx, rec, c):
    from optiland.analysis import FieldCurvature
    Warg, W = ctx.wl_arg(c.get('wavelengths', 'all'))
    npts = c['num_points']
    obj = FieldCurvature(ctx.A, wavelengths=Warg, num_points=npts)
    Hy = np.linspace(0, 1, npts)
    f = abs(float(ctx.psys().f2()))
    f = f if np.isfinite(f) and f > 0 else 1.0
    surfs = ctx.spec['surfaces']
    nfin = 0
    it_tol = max([float(s_.get('tol', 1e-10)) for s_ in surfs if s_.get('type', 'standard') != 'standard'] + [0.0])
    it_allow = 0.0
    if it_tol:
        P0_ = ctx.psys()
        _, ua_ = P0_.marginal(L.epd_of(ctx.spec, P0_))
        it_allow = 8 * it_tol / (2e-5 * max(abs(float(ua_[-1])), 1e-12))
        rec.cls('fieldcurv-with-iterated-surfaces')
    for k, w in enumerate(W):
        P, D, _ = ctx.generic(np.zeros(npts), Hy.copy(), 0.0, 0.0, w)
        rec.event('rays_recomputed', npts)
        n_abs = [float(np.ravel(s.material_post.n(w))[0]) for s in ctx.B.surface_group.surfaces]
        dt, ds, info = COD.astigmatic_foci(P, D, surfs, ctx.zv, n_abs, ctx.obj_inf)
        if info['max_sagittal_offset'] > 1e-9:
            rec.cls('chief-ray-not-meridional-skipped')
            continue
        T, S = (np.asarray(a, float) for a in obj.data[k])
        for name, got, want in (('tangential', T, dt), ('sagittal', S, ds)):
            # the library intersects two parabasal rays: its error is absolute in vergence, i.e. ~ shift^2 / f
            scale = f + np.where(np.isfinite(want), want, 0.0) ** 2 / f
            # ... and it is a finite difference: where the focus runs away (next to a caustic at the edge of the field)
            # its error grows with the local variation of the curve; 1e-3 of the change to the neighbouring field points
            wz = np.where(np.isfinite(want), want, np.nan)
            var = np.zeros_like(wz)
            var[1:] = np.fmax(var[1:], np.abs(np.diff(wz)))
            var[:-1] = np.fmax(var[:-1], np.abs(np.diff(wz)))
            scale = scale + np.where(np.isfinite(var), var, 0.0) * (1e-3 / 5e-6)
            # ... and with iterated (sag-defined) surfaces each ray of the pair carries the intersection tolerance (1e-10
            # by default) while the two rays are only 2 delta |u'| = 2e-5 |u'| apart in angle: the crossing point is uncertain
            # by tol / (2 delta |u'|), which shows as isolated spikes where the two rays took different numbers of iterations
            if it_allow:
                scale = scale + it_allow / 5e-6
            # field points whose chief ray meets a conic surface (k <= -1) along its asymptotic direction: the quadratic
            # for the intersection loses its leading coefficient a = L^2 + M^2 + (1 + k) N^2 there and the textbook formula the
            # library uses cancels (C02 finding conic-intersection-cancellation); the 1e-9-size error of one ray of the pair
            # is amplified by 1/(2e-5) in the crossing point.  Those points are judged under that mechanism's key.
            amin = np.full(npts, np.inf)
            for j_, s_ in enumerate(surfs[:-1], start=1):
                if s_.get('type', 'standard') == 'standard' and s_.get('radius', 'inf') != 'inf' and float(s_.get('conic') or 0.0) <= -1.0 \
                        and not any(s_.get(q_) for q_ in ('rx', 'ry', 'rz', 'dx', 'dy')):
                    Din = D[j_ - 1]
                    amin = np.fmin(amin, np.abs(Din[:, 0] ** 2 + Din[:, 1] ** 2 + (1.0 + float(s_['conic'])) * Din[:, 2] ** 2))
            canc = amin < 1e-3
            if canc.any():
                rec.cls('fieldcurv-chief-ray-along-a-conic-asymptote')
                rec.close(f'field-curvature-{name}', got[canc], want[canc], 5e-6, scale=scale[canc],
                          key=f'field-curvature-{name}:conic-intersection-cancellation',
                          msg=f'{name} focus shift at wavelength {w}: field points whose chief ray runs along the asymptotic '
                              f'direction of a conic surface (min |a| = {float(np.min(amin)):.2e})', detail=dict(f=f, Hy=Hy[canc]))
            if (~canc).any():
                rec.close(f'field-curvature-{name}', got[~canc], want[~canc], 5e-6, scale=scale[~canc],
                          msg=f'{name} focus shift at wavelength {w} differs from Coddington\'s equations along the chief ray',
                          detail=dict(f=f, Hy=Hy[~canc]))
        nfin += int(np.sum(np.isfinite(T)) + np.sum(np.isfinite(S)))
    return nfin, {}


def fam_pupil(ctx, rec, c):
    from optiland.analysis import PupilAberration
    # (a ray cut off BEHIND the stop still has its stop coordinate: the pupil aberration is defined there)
    apply_clip(ctx, rec, c, 'pupil-clipping-aperture')
    Farg, F = ctx.fields_arg(c.get('fields', 'all'))
    Warg, W = ctx.wl_arg(c.get('wavelengths', 'all'))
    npts = c['num_points']
    obj = PupilAberration(ctx.A, fields=Farg, wavelengths=Warg, num_points=npts)
    ne = npts + 1 if npts % 2 == 0 else npts
    d = obj.data
    ax = np.linspace(-1, 1, ne)
    rec.check('pupil-aberration-axis', bool(np.shape(d['Px']) == (ne,) and np.allclose(d['Px'], ax, atol=1e-15)
                                            and np.allclose(d['Py'], ax, atol=1e-15)),
              msg='Px/Py axes are not linspace(-1, 1, odd num_points)')
    P0 = ctx.psys()
    spec_p = ctx.spec
    ya, _ = P0.marginal(L.epd_of(spec_p, P0))
    s = P0.stop                       # 1-based interface index == surface index in the library's records
    r_stop = float(ya[s])             # paraxial marginal-ray height at the stop, primary wavelength
    parax = ax * r_stop
    nfin = 0
    for f in F:
        for w in W:
            x, _, ix = ctx.spot(f, w, ne, 'line_x', 0, surface=s)
            _, y, iy = ctx.spot(f, w, ne, 'line_y', 0, surface=s)
            rec.event('rays_recomputed', 2 * ne)
            wx = (parax - x) / r_stop * 100
            wy = (parax - y) / r_stop * 100
            wx[ix == 0] = np.nan
            wy[iy == 0] = np.nan
            e = d[f'{f}'][f'{w}']
            got = np.concatenate([np.asarray(e['x'], float), np.asarray(e['y'], float)])
            want = np.concatenate([wx, wy])
            rec.close('pupil-aberration', got, want, 1e-8,
                      msg=f'pupil aberration (field {f}, wavelength {w}) != 100 (paraxial - real stop coordinate) / '
                          f'paraxial stop radius', detail=dict(r_stop=r_stop, stop=s))
            nfin += int(np.sum(np.isfinite(got)))
    return nfin, {}


def fam_operands(ctx, rec, c):
    from optiland.optimization.operand.ray import RayOperand
    k, Hy, Px, Py, w = c['surface'], c['Hy'], c['Px'], c['Py'], c['wl']
    P, D, _ = ctx.generic(0.0, float(Hy), float(Px), float(Py), w)
    rec.event('rays_recomputed', 1)
    want = dict(x_intercept=P[k, 0, 0], y_intercept=P[k, 0, 1], z_intercept=P[k, 0, 2],
                L=D[k, 0, 0], M=D[k, 0, 1], N=D[k, 0, 2])
    sc = max(1.0, float(np.nanmax(np.abs(np.where(np.isfinite(P), P, 0)))))
    nfin = 0
    for name, wv in want.items():
        got = float(getattr(RayOperand, name)(ctx.A, k, 0.0, float(Hy), float(Px), float(Py), w))
        rec.close('ray-operands', got, float(wv), 1e-12, scale=(sc if 'intercept' in name else 1.0),
                  msg=f'RayOperand.{name}(surface {k}) != record {k} of trace_generic',
                  detail=dict(operand=name, surface=k, K=ctx.K))
        nfin += int(np.isfinite(got))
    # rms spot size
    n, dist, seed, rw, ks = c['n'], c['dist'], c.get('dseed', 0), c['rms_wl'], c['rms_surface']
    if dist != 'random':
        got = float(RayOperand.rms_spot_size(ctx.A, ks, 0.0, float(Hy), n, rw, _dist_arg(dist, n, seed)))
        if rw == 'all':
            spots = [ctx.spot((0.0, float(Hy)), wl, n, dist, seed, surface=ks) for wl in ctx.lw]
            cc = _centroid(*spots[ctx.pi][:2])
            r2 = np.concatenate([(s_[0] - cc[0]) ** 2 + (s_[1] - cc[1]) ** 2 for s_ in spots])
        else:
            x, y, _ = ctx.spot((0.0, float(Hy)), rw, n, dist, seed, surface=ks)
            cc = _centroid(x, y)
            r2 = (x - cc[0]) ** 2 + (y - cc[1]) ** 2
        rec.event('rays_recomputed', len(r2))
        want_r = float(np.sqrt(np.mean(r2)))
        rec.close('rms-spot-operand', got, want_r, 1e-10, scale=sc,
                  msg=f'RayOperand.rms_spot_size(surface {ks}, wavelength {rw!r}) != sqrt(mean r^2) about the '
                      f'{"primary-wavelength" if rw == "all" else "own"} centroid')
        nfin += 5 * int(np.isfinite(got))
    else:
        rec.cls('rms-operand-unseeded-random-skipped')
    return nfin, {}


FAM = dict(spot=fam_spot, rmsfield=fam_rmsfield, fan=fam_fan, ee=fam_ee, distortion=fam_distortion, grid=fam_grid,
           fieldcurv=fam_fieldcurv, pupil=fam_pupil, operands=fam_operands)


def _sample_params(case, spec):
    import zlib
    rng = np.random.default_rng([zlib.crc32(case['name'].encode()), int(case.get('seed', 0))])
    p = _params(rng, case['family'], spec)
    for k in ('clip',):
        p.pop(k, None)
    return p


def check_case(case, rec):
    ctx = Ctx(case)
    fam = case['family']
    c = dict(case)
    if case['kind'] == 'sample':
        c.update(_sample_params(case, ctx.spec))
        rec.cls('sample')
    else:
        rec.cls(*L.class_names(case['info']))
        rec.cls('vignetting-factors' if case['info'].get('vig') else 'no-vignetting')
        rec.cls(case['info'].get('img', 'img-plane'))
        if case.get('edits'):
            rec.cls('edited-after-first-use')
        if case['info'].get('decorated'):
            rec.cls('lens-not-rotationally-symmetric')
    rec.cls(f'family-{fam}', f'field-{ctx.ftype}', f'nwl-{len(ctx.lw)}')
    if 'dist' in c:
        rec.cls(f'dist-{c["dist"]}')
    if 'wl_mode' in c:
        rec.cls(f'wl-list-{c["wl_mode"]}')
    if 'fields' in c:
        rec.cls('fields-all' if c['fields'] == 'all' else 'fields-explicit')
    nfin, extra = FAM[fam](ctx, rec, c)
    if ctx.powered() >= 2 and nfin >= 5:
        rec.nontrivial_case()
    rec.sample(dict(case={k: v for k, v in c.items() if k != 'info'}, finite_samples=nfin))
