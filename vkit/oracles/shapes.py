"""Independent surface shapes, frames and a closed-form reference tracer.

Nothing here imports optiland.  Shapes are described by the *spec* dict of a surface
(vkit/lens.py).  Frame convention (the library's documented one): a surface frame is the
global frame translated by (dx, dy, z) and then rotated about x by rx, then y by ry
(then z by rz); local = Rz(-rz) Ry(-ry) Rx(-rx) (p - o).
"""
import math

import numpy as np
from numpy.polynomial import chebyshev as Ch


def fnum(x):
    if isinstance(x, str):
        return {'inf': math.inf, '-inf': -math.inf}[x]
    return float(x)


def rot_x(a):
    c, s = math.cos(a), math.sin(a)
    return np.array([[1, 0, 0], [0, c, -s], [0, s, c]])


def rot_y(a):
    c, s = math.cos(a), math.sin(a)
    return np.array([[c, 0, s], [0, 1, 0], [-s, 0, c]])


def rot_z(a):
    c, s = math.cos(a), math.sin(a)
    return np.array([[c, -s, 0], [s, c, 0], [0, 0, 1]])


class Frame:
    def __init__(self, dx=0.0, dy=0.0, z=0.0, rx=0.0, ry=0.0, rz=0.0):
        self.o = np.array([dx, dy, z], dtype=float)
        # global -> local rotation
        self.R = rot_z(-rz) @ rot_y(-ry) @ rot_x(-rx)

    def to_local_p(self, P):
        return (P - self.o) @ self.R.T

    def to_local_d(self, D):
        return D @ self.R.T

    def to_global_p(self, P):
        return P @ self.R + self.o

    def to_global_d(self, D):
        return D @ self.R


class Shape:
    """z = sag(x, y) in the local frame, with analytic gradient."""

    def __init__(self, s):
        self.typ = s.get('type', 'standard')
        R = fnum(s.get('radius', 'inf'))
        self.c = 0.0 if math.isinf(R) else 1.0 / R
        self.k = float(s.get('conic', 0.0)) if self.c != 0 or self.typ != 'standard' else 0.0
        self.coeffs = s.get('coeffs')
        self.norm = s.get('norm', [1.0, 1.0])
        if self.typ in ('polynomial', 'chebyshev'):
            self.C = np.atleast_2d(np.array(self.coeffs, dtype=float)) if self.coeffs else np.zeros((1, 1))

    def is_conic(self):
        return self.typ == 'standard'

    def base(self, x, y):
        r2 = x * x + y * y
        if self.c == 0:
            return np.zeros_like(r2), np.zeros_like(r2), np.zeros_like(r2)
        arg = 1 - (1 + self.k) * self.c ** 2 * r2
        with np.errstate(invalid='ignore'):
            root = np.sqrt(arg)
        z = self.c * r2 / (1 + root)
        return z, self.c * x / root, self.c * y / root

    def sag_grad(self, x, y):
        """-> z, dz/dx, dz/dy (NaN outside the domain of the conic sheet)."""
        x = np.asarray(x, dtype=float)
        y = np.asarray(y, dtype=float)
        z, zx, zy = self.base(x, y)
        if self.typ == 'even_asphere' and self.coeffs:
            r2 = x * x + y * y
            for i, Ci in enumerate(self.coeffs):
                p = i + 1
                z = z + Ci * r2 ** p
                zx = zx + Ci * 2 * p * x * r2 ** (p - 1)
                zy = zy + Ci * 2 * p * y * r2 ** (p - 1)
        elif self.typ == 'polynomial':
            C = self.C
            for i in range(C.shape[0]):
                for j in range(C.shape[1]):
                    cij = C[i, j]
                    if cij == 0:
                        continue
                    z = z + cij * x ** i * y ** j
                    if i > 0:
                        zx = zx + cij * i * x ** (i - 1) * y ** j
                    if j > 0:
                        zy = zy + cij * j * x ** i * y ** (j - 1)
        elif self.typ == 'chebyshev':
            nx, ny = self.norm
            xn, yn = x / nx, y / ny
            C = self.C
            z = z + Ch.chebval2d(xn, yn, C)
            if C.shape[0] > 1:
                zx = zx + Ch.chebval2d(xn, yn, Ch.chebder(C, axis=0)) / nx
            if C.shape[1] > 1:
                zy = zy + Ch.chebval2d(xn, yn, Ch.chebder(C, axis=1)) / ny
        return z, zx, zy

    def normal(self, x, y):
        """Unit normal (gradient of F = sag(x,y) - z), local frame; shape (N,3)."""
        _, zx, zy = self.sag_grad(x, y)
        n = np.stack([zx, zy, -np.ones_like(zx)], axis=-1)
        return n / np.linalg.norm(n, axis=-1, keepdims=True)

    # closed-form intersection for planes and conics -------------------------------
    def intersect_conic(self, P, D):
        """Forward intersection (t >= 0) of rays P + t D with the *sag sheet* of the conic (the
        connected sheet through the vertex), nearest the vertex plane when there are two:
        returns t (NaN when there is none)."""
        x, y, z = P[:, 0], P[:, 1], P[:, 2]
        L, M, N = D[:, 0], D[:, 1], D[:, 2]
        c, k = self.c, self.k
        with np.errstate(all='ignore'):
            if c == 0:
                t = -z / N
                t = np.where(t >= 0, t, np.nan)
                return t
            # F = c (x^2 + y^2 + (1+k) z^2) - 2 z = 0
            A = c * (L * L + M * M + (1 + k) * N * N)
            B = 2 * (c * (x * L + y * M + (1 + k) * z * N) - N)
            Cq = c * (x * x + y * y + (1 + k) * z * z) - 2 * z
            disc = B * B - 4 * A * Cq
            sq = np.sqrt(disc)
            # numerically stable roots
            q = -0.5 * (B + np.where(B >= 0, 1.0, -1.0) * sq)
            t1 = q / A
            t2 = Cq / q
            lin = np.abs(A) < 1e-300
            t1 = np.where(lin, -Cq / B, t1)
            t2 = np.where(lin, np.nan, t2)
            best = np.full_like(x, np.nan)
            bestz = np.full_like(x, np.inf)
            for t in (t1, t2):
                zz = z + t * N
                xx, yy = x + t * L, y + t * M
                r2 = xx * xx + yy * yy
                arg = 1 - (1 + k) * c * c * r2
                sheet = c * r2 / (1 + np.sqrt(arg))
                # on the vertex sheet: z equals the sag formula (the other sheet / far side does not)
                ok = (t >= 0) & (arg >= 0) & (np.abs(zz - sheet) <= 1e-9 * (1 + np.abs(zz)))
                # two forward roots on the sheet can exist (ray entering and leaving a hemisphere):
                # the documented convention is the one nearest the vertex plane
                take = ok & (np.abs(zz) < bestz)
                best = np.where(take, t, best)
                bestz = np.where(take, np.abs(zz), bestz)
            return best


def refract(D, Nrm, n1, n2):
    """Vector Snell. D, Nrm: (N,3) unit. Returns refracted directions (NaN rows on TIR)."""
    cosi = np.sum(D * Nrm, axis=1)
    sgn = np.where(cosi < 0, -1.0, 1.0)
    Nn = Nrm * sgn[:, None]          # normal along the direction of travel
    cosi = np.abs(cosi)
    mu = n1 / n2
    with np.errstate(invalid='ignore'):
        cost = np.sqrt(1 - mu ** 2 * (1 - cosi ** 2))
    return mu[:, None] * D + (cost - mu * cosi)[:, None] * Nn if np.ndim(mu) else mu * D + (cost - mu * cosi)[:, None] * Nn


def reflect(D, Nrm):
    return D - 2 * np.sum(D * Nrm, axis=1)[:, None] * Nrm


def intersect_search(sh, P, D, n=400, iters=60):
    """Robust (slow) first forward intersection of rays with z = sag(x, y) for ANY shape:
    sign-change search of f(t) = z(t) - sag(x(t), y(t)) around the vertex plane, then bisection.
    Only used to *classify* failures (does an intersection exist at all?). NaN when none found."""
    x, y, z = P[:, 0], P[:, 1], P[:, 2]
    L, M, N = D[:, 0], D[:, 1], D[:, 2]
    with np.errstate(all='ignore'):
        tp = -z / N
        rho = np.hypot(x + tp * L, y + tp * M)
        span = 2 * rho + 1e-3 * (1 + np.abs(tp))
        lo = np.maximum(0.0, tp - span)
        hi = np.maximum(lo, tp + span)
        ts = lo[:, None] + (hi - lo)[:, None] * np.linspace(0, 1, n)[None, :]

        def f(t):
            zz, _, _ = sh.sag_grad(x[:, None] + t * L[:, None], y[:, None] + t * M[:, None])
            return (z[:, None] + t * N[:, None]) - zz
        F = f(ts)
        s = np.sign(F)
        change = (s[:, :-1] * s[:, 1:] < 0) & np.isfinite(F[:, :-1]) & np.isfinite(F[:, 1:])
        has = change.any(axis=1)
        idx = np.argmax(change, axis=1)
        rows = np.arange(len(x))
        a, b = ts[rows, idx], ts[rows, np.minimum(idx + 1, n - 1)]
        fa = F[rows, idx]
        for _ in range(iters):
            m = 0.5 * (a + b)
            fm = f(m[:, None])[:, 0]
            left = np.sign(fm) == np.sign(fa)
            a = np.where(left, m, a)
            fa = np.where(left, fm, fa)
            b = np.where(left, b, m)
        return np.where(has, 0.5 * (a + b), np.nan)
