"""Independent oracle for the refractiveindex.info catalogue bundled with optiland (property C18).

Written from the database documentation (`database/doc/Dispersion formulas.pdf`, RefractiveIndex.INFO
2014-06-29), not from optiland/materials/material_file.py.  With C1..C17 the coefficients listed in a
data file (files list fewer than the maximum; the missing ones are absent terms):

  1 Sellmeier             n^2 - 1 = C1 + sum_i C_{2i} L^2 / (L^2 - C_{2i+1}^2)            i = 1..8
  2 Sellmeier-2           n^2 - 1 = C1 + sum_i C_{2i} L^2 / (L^2 - C_{2i+1})              i = 1..8
  3 Polynomial            n^2     = C1 + sum_i C_{2i} L^C_{2i+1}                          i = 1..8
  4 RefractiveIndex.INFO  n^2     = C1 + C2 L^C3/(L^2 - C4^C5) + C6 L^C7/(L^2 - C8^C9) + sum_{i=5..8} C_{2i} L^C_{2i+1}
  5 Cauchy                n       = C1 + sum_i C_{2i} L^C_{2i+1}                          i = 1..5
  6 Gases                 n - 1   = C1 + sum_i C_{2i} / (C_{2i+1} - L^-2)                 i = 1..5
  7 Herzberger            n       = C1 + C2/(L^2-0.028) + C3 (1/(L^2-0.028))^2 + C4 L^2 + C5 L^4 + C6 L^6
  8 Retro                 (n^2-1)/(n^2+2) = C1 + C2 L^2/(L^2 - C3) + C4 L^2
  9 Exotic                n^2     = C1 + C2/(L^2 - C3) + C4 (L - C5)/((L - C5)^2 + C6)

L in micrometres.  A term whose amplitude coefficient is zero or absent contributes exactly zero (this matters
for formula 4, where a zeroed term "0 0 0 0" would otherwise read 0 * L^0 / (L^2 - 0^0) = 0/0 at L = 1).

Tabulated data ('tabulated n', 'tabulated nk', 'tabulated k'): the piecewise-linear function through the
points (L_i, v_i) of the table *ordered by wavelength* (stable order; a repeated wavelength is a jump: the
segment on its left ends at the first listed value, the one on its right starts at the last listed value, and
at the node itself any of the listed values is admissible).

Everything is read from the YAML data file itself with yaml.safe_load.
"""
import csv
import math
import os
import re

import numpy as np
import yaml

try:
    _Loader = yaml.CSafeLoader          # same safe_load semantics, C speed
except AttributeError:                  # pragma: no cover
    _Loader = yaml.SafeLoader

LINE_d, LINE_F, LINE_C = 0.5875618, 0.4861327, 0.6562725       # Fraunhofer lines, micrometres

FORMULA_NAMES = {1: 'Sellmeier', 2: 'Sellmeier-2', 3: 'Polynomial', 4: 'RefractiveIndex.INFO', 5: 'Cauchy',
                 6: 'Gases', 7: 'Herzberger', 8: 'Retro', 9: 'Exotic'}
MAX_COEFFS = {1: 17, 2: 17, 3: 17, 4: 17, 5: 11, 6: 11, 7: 6, 8: 4, 9: 6}

REGEX_META = set('.^$*+?{}[]\\|()')


def repo_root():
    return os.environ.get('VERIF_REPO', '/repo')


def data_dir():
    return os.path.join(repo_root(), 'database', 'data-nk')


_CAT = {}


def catalogue():
    """Rows of database/catalog_nk.csv as dicts of strings (no NaN conversion), in file order."""
    root = repo_root()
    if root not in _CAT:
        with open(os.path.join(root, 'database', 'catalog_nk.csv'), encoding='utf-8', newline='') as f:
            _CAT[root] = list(csv.DictReader(f))
    return _CAT[root]


# --------------------------------------------------------------------------------------------------
# dispersion formulas
# --------------------------------------------------------------------------------------------------

def _pad(c, n):
    c = [float(x) for x in c]
    if len(c) > n:
        raise ValueError(f'{len(c)} coefficients given, formula takes at most {n}')
    return c + [0.0] * (n - len(c))


def _powL(L, e):
    """L**e for an array L > 0 and a real exponent e."""
    return np.power(L, float(e))


def formula_n(number, coeffs, L):
    """Refractive index of formula `number` with the file's coefficient list at wavelengths L (um).

    Returns a float64 array; NaN where the formula has no real value (n^2 < 0) and +-inf/NaN at true poles.
    """
    L = np.atleast_1d(np.asarray(L, dtype=float))
    C = [None] + _pad(coeffs, MAX_COEFFS[number])        # 1-based, like the documentation
    L2 = L * L
    with np.errstate(all='ignore'):
        if number in (1, 2):
            s = np.full_like(L, 1.0 + C[1])
            for i in range(1, 9):
                a, b = C[2 * i], C[2 * i + 1]
                if a != 0.0:
                    s = s + a * L2 / (L2 - (b * b if number == 1 else b))
            return np.sqrt(s)
        if number == 3:
            s = np.full_like(L, C[1])
            for i in range(1, 9):
                if C[2 * i] != 0.0:
                    s = s + C[2 * i] * _powL(L, C[2 * i + 1])
            return np.sqrt(s)
        if number == 4:
            s = np.full_like(L, C[1])
            for a, p, q, r in ((C[2], C[3], C[4], C[5]), (C[6], C[7], C[8], C[9])):
                if a != 0.0:
                    s = s + a * _powL(L, p) / (L2 - _real_pow(q, r))
            for i in range(5, 9):
                if C[2 * i] != 0.0:
                    s = s + C[2 * i] * _powL(L, C[2 * i + 1])
            return np.sqrt(s)
        if number == 5:
            s = np.full_like(L, C[1])
            for i in range(1, 6):
                if C[2 * i] != 0.0:
                    s = s + C[2 * i] * _powL(L, C[2 * i + 1])
            return s
        if number == 6:
            s = np.full_like(L, 1.0 + C[1])
            for i in range(1, 6):
                if C[2 * i] != 0.0:
                    s = s + C[2 * i] / (C[2 * i + 1] - 1.0 / L2)
            return s
        if number == 7:
            d = 1.0 / (L2 - 0.028)
            return C[1] + C[2] * d + C[3] * d * d + C[4] * L2 + C[5] * L2 * L2 + C[6] * L2 * L2 * L2
        if number == 8:
            rhs = C[1] + C[4] * L2
            if C[2] != 0.0:
                rhs = rhs + C[2] * L2 / (L2 - C[3])
            # (n^2-1)/(n^2+2) = rhs  =>  n^2 = (1 + 2 rhs)/(1 - rhs)
            return np.sqrt((1.0 + 2.0 * rhs) / (1.0 - rhs))
        if number == 9:
            s = np.full_like(L, C[1])
            if C[2] != 0.0:
                s = s + C[2] / (L2 - C[3])
            if C[4] != 0.0:
                s = s + C[4] * (L - C[5]) / ((L - C[5]) ** 2 + C[6])
            return np.sqrt(s)
    raise ValueError(f'unknown dispersion formula {number}')


def _real_pow(q, r):
    """q**r for real coefficients (0**0 = 1 by the usual convention; negative base with fractional power: NaN)."""
    if r == 0.0:
        return 1.0
    if q == 0.0:
        return 0.0 if r > 0 else math.inf
    if q < 0 and r != int(r):
        return math.nan
    return math.pow(q, r)


def formula4_dead_poles(coeffs):
    """Wavelengths at which a *zero-amplitude* rational term of formula 4 has a vanishing denominator
    (L^2 = C4^C5 or C8^C9).  The documented formula has no singularity there (the term is absent)."""
    C = [None] + _pad(coeffs, 17)
    out = []
    for a, q, r in ((C[2], C[4], C[5]), (C[6], C[8], C[9])):
        if a == 0.0:
            v = _real_pow(q, r)
            if v == v and 0 < v < math.inf:
                out.append(math.sqrt(v))
    return out


# --------------------------------------------------------------------------------------------------
# tabulated data
# --------------------------------------------------------------------------------------------------

def parse_table(text):
    """'w v [v2]' lines -> list of float rows (no numpy parser involved)."""
    rows = []
    for line in str(text).splitlines():
        line = line.split('#', 1)[0].strip()
        if line:
            rows.append([float(t) for t in line.replace(',', ' ').split()])
    return rows


class Table:
    """Piecewise-linear interpolant through (w_i, v_i), ordered by wavelength (see module docstring)."""

    def __init__(self, w, v):
        self.raw_w = np.asarray(w, dtype=float)
        self.raw_v = np.asarray(v, dtype=float)
        order = np.argsort(self.raw_w, kind='stable')
        self.w = self.raw_w[order]
        self.v = self.raw_v[order]
        d = np.diff(self.raw_w)
        self.unsorted = bool(np.any(d < 0))
        self.has_repeats = bool(np.any(np.diff(self.w) == 0))
        self.lo, self.hi = float(self.w[0]), float(self.w[-1])

    def __len__(self):
        return len(self.w)

    def admissible(self, x):
        """-> list (one entry per wavelength) of arrays of admissible values; inside [lo, hi] only."""
        x = np.atleast_1d(np.asarray(x, dtype=float))
        out = []
        w, v = self.w, self.v
        for xi in x:
            if not (self.lo <= xi <= self.hi):
                out.append(np.array([math.nan]))
                continue
            jl = int(np.searchsorted(w, xi, side='left'))
            jr = int(np.searchsorted(w, xi, side='right'))
            if jr > jl:                                   # xi is a node: every value listed for it
                out.append(np.unique(v[jl:jr]))
            else:                                         # w[jl-1] < xi < w[jl]
                w0, w1, v0, v1 = w[jl - 1], w[jl], v[jl - 1], v[jl]
                t = (xi - w0) / (w1 - w0)
                out.append(np.array([v0 + t * (v1 - v0)]))
        return out

    def want(self, x, got=None):
        """Oracle values at x; at a repeated node the admissible value nearest to `got` (if given)."""
        adm = self.admissible(x)
        res = np.empty(len(adm))
        g = None if got is None else np.atleast_1d(np.asarray(got, dtype=float))
        for i, a in enumerate(adm):
            if len(a) == 1 or g is None or not np.isfinite(g[i]):
                res[i] = a[0]
            else:
                res[i] = a[int(np.argmin(np.abs(a - g[i])))]
        return res

    def local_scale(self, x):
        """max |v| over the nodes bracketing each x (the magnitude that bounds the rounding error of the
        interpolation there; k tables span many decades)."""
        x = np.atleast_1d(np.asarray(x, dtype=float))
        w, a = self.w, np.abs(self.v)
        jl = np.clip(np.searchsorted(w, x, side='left'), 0, len(w) - 1)
        jr = np.clip(np.searchsorted(w, x, side='right'), 0, len(w) - 1)
        lo = np.clip(jl - 1, 0, len(w) - 1)
        return np.maximum(np.maximum(a[lo], a[jl]), a[jr])

    def nodes_and_midpoints(self, limit=None):
        """Distinct nodes and the midpoints between consecutive distinct nodes (optionally an even subset)."""
        u = np.unique(self.w)
        pts = np.concatenate([u, 0.5 * (u[:-1] + u[1:])]) if len(u) > 1 else u
        pts = np.unique(pts)
        if limit and len(pts) > limit:
            idx = np.unique(np.round(np.linspace(0, len(pts) - 1, limit)).astype(int))
            pts = pts[idx]
        return pts


# --------------------------------------------------------------------------------------------------
# data files
# --------------------------------------------------------------------------------------------------

class Entry:
    """One data file: which n relation(s) and k table it defines."""

    def __init__(self, path):
        self.path = path
        with open(path, encoding='utf-8') as f:
            doc = yaml.load(f, Loader=_Loader)
        self.n_relations = []     # list of ('formula', number, coeffs, (lo, hi)) / ('table', kind, Table)
        self.k_tables = []
        for blk in doc.get('DATA') or []:
            typ = ' '.join(str(blk.get('type', '')).split())
            m = re.fullmatch(r'formula (\d+)', typ)
            if m:
                coeffs = [float(t) for t in str(blk['coefficients']).split()]
                rng = [float(t) for t in str(blk['wavelength_range']).split()]
                self.n_relations.append(('formula', int(m.group(1)), coeffs, (rng[0], rng[1])))
            elif typ in ('tabulated n', 'tabulated k', 'tabulated nk'):
                rows = parse_table(blk['data'])
                w = [r[0] for r in rows]
                if typ == 'tabulated n':
                    self.n_relations.append(('table', typ, Table(w, [r[1] for r in rows])))
                elif typ == 'tabulated k':
                    self.k_tables.append(Table(w, [r[1] for r in rows]))
                else:
                    self.n_relations.append(('table', typ, Table(w, [r[1] for r in rows])))
                    self.k_tables.append(Table(w, [r[2] for r in rows]))
            else:
                raise ValueError(f'unknown DATA type {typ!r} in {path}')

    # -- classification ----------------------------------------------------
    @property
    def in_domain(self):
        return len(self.n_relations) == 1

    @property
    def kind(self):
        """'formula 3', 'tabulated n', 'tabulated nk', 'none' or 'multiple'."""
        if not self.n_relations:
            return 'none'
        if len(self.n_relations) > 1:
            return 'multiple'
        r = self.n_relations[0]
        return f'formula {r[1]}' if r[0] == 'formula' else r[1]

    @property
    def n_table(self):
        r = self.n_relations[0]
        return r[2] if r[0] == 'table' else None

    @property
    def k_table(self):
        return self.k_tables[0] if len(self.k_tables) == 1 else None

    @property
    def n_range(self):
        r = self.n_relations[0]
        if r[0] == 'formula':
            return r[3]
        return (r[2].lo, r[2].hi)

    def dead_poles(self):
        """see formula4_dead_poles; [] for every other relation."""
        r = self.n_relations[0]
        if r[0] == 'formula' and r[1] == 4:
            lo, hi = r[3]
            return [w for w in formula4_dead_poles(r[2]) if lo <= w <= hi]
        return []

    def covers(self, *wavelengths):
        lo, hi = self.n_range
        return all(lo <= w <= hi for w in wavelengths)

    # -- values --------------------------------------------------------------
    def n(self, L, got=None):
        """Oracle refractive index at L (inside the stated range); `got` only disambiguates repeated nodes."""
        r = self.n_relations[0]
        if r[0] == 'formula':
            return formula_n(r[1], r[2], L)
        return r[2].want(L, got)

    def abbe(self):
        """-> (n_d, V_d) with V_d = (n_d - 1)/(n_F - n_C); inf/nan when n_F == n_C."""
        nd, nF, nC = (np.float64(self.n([w])[0]) for w in (LINE_d, LINE_F, LINE_C))
        with np.errstate(all='ignore'):
            return float(nd), float((nd - 1.0) / (nF - nC))


_ENTRIES = {}


def entry(relpath):
    p = os.path.join(data_dir(), relpath)
    e = _ENTRIES.get(p)
    if e is None:
        e = _ENTRIES[p] = Entry(p)
    return e


def schott_glasses():
    """[(relpath, n_d, V_d)] for every distinct data file under glass/schott/ referenced by the catalogue
    whose n relation covers the F..C interval, from this oracle."""
    out, seen = [], set()
    for row in catalogue():
        f = row['filename']
        if f.startswith('glass/schott/') and f not in seen:
            seen.add(f)
            e = entry(f)
            if e.in_domain and e.covers(LINE_F, LINE_C):
                nd, vd = e.abbe()
                out.append((f, nd, vd))
    return out


# --------------------------------------------------------------------------------------------------
# catalogue lookup
# --------------------------------------------------------------------------------------------------

def has_regex_meta(s):
    return bool(s) and bool(set(s) & REGEX_META)


REF_FIELDS = ('category_name', 'category_name_full', 'reference', 'name', 'filename')


def exact_candidates(name, reference=None):
    """Indices of catalogue rows whose name or category_name equals `name` (case-insensitively) and, when a
    reference is given, one of whose descriptive fields contains it literally (case-insensitively)."""
    q = name.lower()
    r = reference.lower() if reference else None
    out = []
    for i, row in enumerate(catalogue()):
        if q == row['name'].lower() or q == row['category_name'].lower():
            if r is None or any(r in row[f].lower() for f in REF_FIELDS):
                out.append(i)
    return out


def regex_semantics_prediction(name, reference=None):
    """As-built model of the known defect 'query strings are used as regular expressions':
    -> ('error', None) if a pattern does not compile, else ('rows', [indices surviving the regex filters])."""
    try:
        pq = re.compile(name.lower())
        pr = re.compile(reference.lower()) if reference else None
    except re.error:
        return 'error', None
    out = []
    for i, row in enumerate(catalogue()):
        if pq.search(row['category_name'].lower()) or pq.search(row['name'].lower()):
            if pr is None or any(pr.search(row[f].lower()) for f in REF_FIELDS):
                out.append(i)
    return 'rows', out
