"""Shard fan-out, merge, verdict, evidence.

One check = N shard subprocesses (never multiprocessing.Pool: a dying child would
hang it), each running `python -m vkit.runner --shard ...`, each with its own
PCG64 stream derived from (VERIF_SEED, property number, shard).  A shard that hits
its watchdog or dies makes the run INCONCLUSIVE (exit 2), never "held".
"""
import argparse
import contextlib
import importlib
import io
import json
import os
import subprocess
import sys
import tempfile
import time
import traceback
import warnings

import numpy as np

from . import rec as recmod
from .rec import Recorder, jsonable

HERE = os.path.dirname(os.path.dirname(os.path.abspath(__file__)))
REPO = os.environ.get('VERIF_REPO', '/repo')


def load_prop(pid):
    return importlib.import_module(f'props.{pid.lower()}')


def lib_frames(tb):
    """Frames of a traceback that lie inside the repository's package."""
    out = []
    for fs in traceback.extract_tb(tb):
        fn = os.path.abspath(fs.filename)
        if '/optiland/' in fn and not fn.startswith(HERE):
            out.append(fs)
    return out


def classify_exception(e):
    """-> ('library', 'ExcType@function') if raised inside optiland, else ('harness', ...)."""
    frames = traceback.extract_tb(e.__traceback__)
    last = frames[-1] if frames else None
    libs = lib_frames(e.__traceback__)
    if libs:
        f = libs[-1]
        return 'library', f'{type(e).__name__}@{os.path.basename(f.filename)}:{f.name}'
    return 'harness', f'{type(e).__name__}@{last.name if last else "?"}'


def run_shard(pid, tier, seed, shard, nshards, ncases, out_path, replay=None):
    warnings.filterwarnings('ignore')
    np.seterr(all='ignore')
    prop = load_prop(pid)
    rec = Recorder(pid)
    from . import monitors
    reach = monitors.Reach(getattr(prop, 'ANCHORS', []))
    rng = np.random.default_rng([int(seed) & 0xFFFFFFFF, int(pid[1:]), int(shard)])
    t0 = time.time()
    budget = float(os.environ.get('VERIF_SHARD_BUDGET_S', '0') or 0)
    sink = io.StringIO()
    setup = getattr(prop, 'shard_setup', None)
    teardown = None
    reach.start()
    try:
        with contextlib.redirect_stdout(sink):
            if setup:
                teardown = setup(rec)
            if replay is not None:
                cases = [replay]
            else:
                cases = None
            fixed = []
            if cases is None and hasattr(prop, 'fixed_cases'):
                allfixed = prop.fixed_cases(tier)
                fixed = [c for i, c in enumerate(allfixed) if i % nshards == shard]
            i = 0
            while True:
                if cases is not None:
                    if i >= len(cases):
                        break
                    case = cases[i]
                elif i < len(fixed):
                    case = fixed[i]
                elif i < len(fixed) + ncases:
                    try:
                        case = prop.gen_case(rng, tier, i)
                    except Exception as e:
                        i += 1
                        if type(e).__name__ == 'GeneratorExhausted':
                            rec.event('generator_exhausted_case_skipped')
                            continue
                        rec.begin_case(dict(gen_failed=True))
                        rec.harness_error('gen_case', traceback.format_exc())
                        continue
                else:
                    break
                i += 1
                if case is None:
                    continue
                rec.begin_case(case)
                sink.seek(0); sink.truncate()
                try:
                    prop.check_case(case, rec)
                except Exception as e:
                    kind, where = classify_exception(e)
                    if kind == 'library':
                        rec.check('no-unexpected-exception', False, key=f'exception:{where}',
                                  msg=f'library raised {type(e).__name__}: {e}',
                                  detail=dict(tb=traceback.format_exc()[-1500:]))
                    else:
                        rec.harness_error(where, traceback.format_exc()[-3000:])
                if budget and time.time() - t0 > budget:
                    rec.event('budget_stop')
                    break
            if hasattr(prop, 'shard_finish'):
                prop.shard_finish(rec)
            if teardown:
                teardown()
    finally:
        reach.stop()
    d = rec.dump()
    d['anchor_reach'] = reach.dump()
    d['wall_s'] = time.time() - t0
    with open(out_path, 'w') as f:
        json.dump(jsonable(d), f)


def known_findings(pid):
    """Open findings of this property: mechanism -> entry."""
    p = os.path.join(HERE, 'known_findings.json')
    try:
        data = json.load(open(p))
    except FileNotFoundError:
        return {}
    out = {}
    for e in data.get('findings', []):
        if e.get('property') == pid and e.get('status', 'open') == 'open':
            out[e['mechanism']] = e
    return out


def match_known(key, known):
    """A violation key is `clause` or `clause:mech1+mech2`.  It is covered only when every
    mechanism named in it has an open finding that lists this clause (or, for a bare key,
    when a finding's mechanism is the key itself).  `clause:unexplained` is never covered."""
    if ':' in key:
        clause, mechs = key.split(':', 1)
        mechs = mechs.split('+')
        if not mechs or 'unexplained' in mechs:
            return None
        ents = []
        for m in mechs:
            e = known.get(m)
            if e is None or clause not in e.get('clauses', []):
                return None
            ents.append(e)
        return ents
    e = known.get(key)
    return [e] if e is not None else None


def main_check(pid, tier, seed, replay_path=None):
    prop = load_prop(pid)
    t0 = time.time()
    cfg = dict(getattr(prop, 'TIERS')[tier])
    nshards = int(os.environ.get('VERIF_SHARDS', cfg.get('shards', 4)))
    ncases = int(os.environ.get('VERIF_CASES', cfg.get('cases', 50)))
    watchdog = int(cfg.get('watchdog_s', 1800 if tier == 'thorough' else 1200))
    # soft time budget per shard: a shard stops generating cases when it is used up and reports what it
    # observed so far (load on the machine then reduces coverage, recorded in the evidence, instead of
    # turning the run inconclusive); the hard watchdog above still makes a hung shard inconclusive
    budget = int(os.environ.get('VERIF_SHARD_BUDGET_S') or cfg.get('budget_s', 900 if tier == 'thorough' else 400))
    os.environ['VERIF_SHARD_BUDGET_S'] = str(budget)
    replay = None
    if replay_path:
        replay = json.load(open(replay_path))
        replay = replay.get('case', replay)
        nshards = 1
    tmp = tempfile.mkdtemp(prefix=f'vkit-{pid}-', dir=os.environ.get('VERIF_TMP') or None)
    procs = []
    for s in range(nshards):
        out = os.path.join(tmp, f'shard{s}.json')
        cmd = [sys.executable, '-m', 'vkit.runner', '--shard', pid, tier, str(seed), str(s), str(nshards),
               str(ncases), out]
        if replay is not None:
            rp = os.path.join(tmp, 'replay.json')
            json.dump(replay, open(rp, 'w'))
            cmd.append(rp)
        log = open(os.path.join(tmp, f'shard{s}.log'), 'w')
        # every shard gets its own numba cache directory: the library's jitted scatter functions are cached on disk
        # (cache=True) next to the source by default, and many concurrent writers corrupt that index - in the
        # repository tree that would break the repository's own scatter tests afterwards
        env = dict(os.environ, NUMBA_CACHE_DIR=os.path.join(tmp, f'numba{s}'))
        procs.append((s, out, subprocess.Popen(cmd, stdout=log, stderr=subprocess.STDOUT, cwd=HERE, env=env), log))
    dumps, inconclusive = [], []
    deadline = t0 + watchdog
    for s, out, p, log in procs:
        try:
            p.wait(timeout=max(1, deadline - time.time()))
        except subprocess.TimeoutExpired:
            p.kill()
            inconclusive.append(f'shard {s}: watchdog ({watchdog}s) fired')
            continue
        finally:
            log.close()
        if p.returncode != 0 or not os.path.exists(out):
            tail = open(os.path.join(tmp, f'shard{s}.log')).read()[-1500:]
            inconclusive.append(f'shard {s}: exited {p.returncode}: {tail}')
            continue
        dumps.append(json.load(open(out)))
    merged = recmod.merge(dumps, pid)
    shard_wall = [round(d.get('wall_s', 0), 1) for d in dumps]
    import shutil
    shutil.rmtree(tmp, ignore_errors=True)

    # ---- verdict ---------------------------------------------------------
    inconclusive += merged['inconclusive']
    if merged['harness_errors']:
        he = merged['harness_errors'][0]
        inconclusive.append(f"{len(merged['harness_errors'])} harness error(s), first at {he['where']}: "
                            + he['tb'][-600:])
    if replay is None:
        for clause, minimum in getattr(prop, 'MIN_EVALS', {}).items():
            got = merged['clauses'].get(clause, {}).get('evals', 0)
            if got < minimum[tier] if isinstance(minimum, dict) else got < minimum:
                inconclusive.append(f'deciding monitor {clause!r} evaluated {got} times (< minimum)')
        min_nt = getattr(prop, 'MIN_NONTRIVIAL', {}).get(tier, 2)
        if len(merged['nontrivial']) < min_nt:
            inconclusive.append(f'only {len(merged["nontrivial"])} distinct non-trivial cases (< {min_nt})')
    known = known_findings(pid)
    new_keys, known_hits = {}, {}
    per_mech = {}
    for key, n in merged['viol_counts'].items():
        ents = match_known(key, known)
        if ents:
            known_hits[key] = n
            for e in ents:
                per_mech.setdefault(e['mechanism'], [e, 0, set()])
                per_mech[e['mechanism']][1] += n
                per_mech[e['mechanism']][2].add(key.split(':')[0])
        else:
            new_keys[key] = n
    lines = []
    replay_dir = os.path.join(os.environ.get('VERIF_REPLAY_DIR') or os.path.join(HERE, 'replays'), pid)
    for mech, e in sorted(known.items()):
        _, n, clauses = per_mech.get(mech, (e, 0, set()))
        lines.append(f"KNOWN-FINDING: property={pid} {e.get('what', mech)} "
                     f"[mechanism={mech}; {n} hit(s) this run on clause(s) {','.join(sorted(clauses)) or '-'}]")
    first_replay = None
    for key, n in sorted(new_keys.items()):
        wit = [v for v in merged['violations'] if v['key'] == key]
        os.makedirs(replay_dir, exist_ok=True)
        safe = ''.join(ch if ch.isalnum() or ch in '-_.' else '_' for ch in key)[:80]
        path = os.path.join(replay_dir, f'{safe}.json')
        json.dump(dict(property=pid, key=key, count=n, what=merged['viol_what'].get(key),
                       case=wit[0]['case'] if wit else None, witnesses=wit), open(path, 'w'), indent=1)
        first_replay = first_replay or path
        lines.append(f"VIOLATION property={pid} replay={path} key={key} count={n} :: "
                     f"{(merged['viol_what'].get(key) or '')[:300]}")
    wall = time.time() - t0
    status = 'violated' if new_keys else ('inconclusive' if inconclusive else 'held')

    # ---- evidence --------------------------------------------------------
    if replay is None:
        reach = {fn: dict(calls=r['calls'], distinct_lines=len(r['lines']))
                 for fn, r in merged['anchor_reach'].items()}
        samples = merged['samples'] or [dict(note='no sample recorded')]
        ev = dict(
            property_id=pid, tier=tier, seed=int(seed), level='exploration',
            coverage=dict(
                evaluations=int(merged['evaluations']),
                distinct_nontrivial=len(merged['nontrivial']),
                rule=getattr(prop, 'RULE', ''),
                samples=samples,
                exhaustive=False,
                classes=dict(sorted(merged['classes'].items())),
                clauses={k: dict(evaluations=c['evals'], violations=c['violations'],
                                 worst_residual_over_tol=c['worst'], tol=c['tol'])
                         for k, c in sorted(merged['clauses'].items())},
                events=dict(sorted(merged['events'].items())),
                anchor_reach=reach,
                known_finding_hits=known_hits,
                new_violation_keys=new_keys,
                inconclusive=inconclusive,
                verdict=status,
                shards=nshards, shard_wall_s=shard_wall, shard_budget_s=budget, cases_per_shard_cap=ncases,
                repo=REPO,
            ),
            assumptions=list(getattr(prop, 'ASSUMPTIONS', [])),
            wall_s=round(wall, 2),
            violations=int(sum(new_keys.values())),
        )
        if hasattr(prop, 'evidence_extra'):
            ev['coverage'].update(prop.evidence_extra(merged))
        evdir = os.environ.get('VERIF_EVIDENCE_DIR') or os.path.join(HERE, 'evidence')
        os.makedirs(evdir, exist_ok=True)
        with open(os.path.join(evdir, f'{pid}.json'), 'w') as f:
            json.dump(jsonable(ev), f, indent=1)

    for ln in lines:
        print(ln)
    nclause = sum(c['evals'] for c in merged['clauses'].values())
    print(f"{pid} {tier} seed={seed}: {status}; cases={merged['evaluations']} "
          f"nontrivial={len(merged['nontrivial'])} monitor-evaluations={nclause} "
          f"known-hits={sum(known_hits.values())} new-violations={sum(new_keys.values())} wall={wall:.1f}s")
    if status == 'violated':
        return 1
    if status == 'inconclusive':
        for r in inconclusive:
            print(f'INCONCLUSIVE property={pid} reason={r}')
        return 2
    return 0


if __name__ == '__main__':
    if len(sys.argv) > 1 and sys.argv[1] == '--shard':
        a = sys.argv[2:]
        replay = json.load(open(a[7])) if len(a) > 7 else None
        run_shard(a[0], a[1], int(a[2]), int(a[3]), int(a[4]), int(a[5]), a[6], replay)
        sys.exit(0)
