"""C07 -- results transform correctly under symmetries and re-descriptions (metamorphic monitor).

Every case applies ONE relation to a generated lens and compares the per-surface ray
records of the original and of the transformed lens / coordinates.
"""
import copy
import math

import numpy as np

from vkit import lens as L
from props.c01 import snapshot

ID = 'C07'
RULE = ('random lenses x one metamorphic relation each: mirror about the xz-plane / yz-plane / both (rotationally symmetric '
        'lenses), tilt of a spherical surface about its own centre of curvature by up to 0.3 rad (identical explicit rays), '
        'dummy plane between equal media at a random gap, wavelength change on a dispersion-free lens, all lengths x s with '
        's in [0.01,100] (rebuilt from the scaled spec), and Optic.scale_system(s) vs the lens built from the scaled spec '
        '(planes/conics, angular fields), and a lens edited (set_index/set_radius/set_conic/set_thickness) after its first use vs the '
        'edited prescription built from scratch; non-trivial = >= 2 powered surfaces and >= 5 finite rays at the image; '
        'distinct = distinct case hash')
TIERS = {'quick': dict(shards=8, cases=150), 'thorough': dict(shards=16, cases=2500)}
MIN_NONTRIVIAL = {'quick': 400, 'thorough': 4000}
MIN_EVALS = {'mirror-symmetry': 30, 'tilt-about-centre-of-curvature': 20, 'dummy-surface': 20, 'wavelength-invariance': 20,
             'length-scaling': 20, 'scale_system-prescription': 15, 'scale_system-rays': 15, 'length-scaling-seidel-f2': 15, 'edited-equals-rebuilt': 15}
ASSUMPTIONS = ['comparisons at 1e-9 relative to the system scale (closed-form surfaces) or the surface intersection tolerance (iterated shapes)',
               'the tilt relation launches identical explicit rays because ray aiming legitimately sees the moved vertex through the paraxial model']
ANCHORS = [('optiland.rays.real_rays', 'RealRays.rotate_x'), ('optiland.rays.real_rays', 'RealRays.rotate_y'),
           ('optiland.rays.real_rays', 'RealRays.rotate_z'), ('optiland.coordinate_system', 'CoordinateSystem.localize'),
           ('optiland.coordinate_system', 'CoordinateSystem.globalize'), ('optiland.optic', 'Optic.scale_system'),
           ('optiland.physical_apertures', 'RadialAperture.scale'), ('optiland.rays.ray_generator', 'RayGenerator.generate_rays')]
RELS = ['mirror', 'tilt', 'dummy', 'wavelength', 'scale', 'scale_system', 'edited']


def gen_case(rng, tier, i):
    rel = RELS[int(rng.integers(len(RELS)))]
    a = L.loguniform(rng, 1.0, 12.0)
    kw = dict(semi=a, nsurf=(2, 8), image='any', neg_power_p=0.2, asphere_p=0.15, conic_p=0.3,
              mirrors_p=(0.25 if rng.random() < 0.2 else 0.0))
    if rel == 'wavelength':
        kw['glass_p'] = 0.0
        kw['nwl'] = (2, 3)
    elif rel == 'scale_system':
        kw.update(asphere_p=0.0, field_types=('angle',), ap_kinds=('EPD', 'imageFNO', 'objectNA'))   # (an NA is scale-free)
    elif rel == 'tilt':
        kw.update(conic_p=0.15)
    else:
        kw['glass_p'] = 0.15
    spec, info = L.gen_axial(rng, **kw)
    case = dict(rel=rel, spec=spec, info=info)
    n = 12
    rr = np.sqrt(rng.uniform(0, 1, n)); th = rng.uniform(0, 2 * np.pi, n)
    rr[:3] = 1.0
    case['Px'], case['Py'] = (rr * np.cos(th)).tolist(), (rr * np.sin(th)).tolist()
    case['Hy'] = float(rng.choice([0.0, 1.0, rng.uniform(-1, 1)]))
    case['Hx'] = float(rng.uniform(-0.5, 0.5)) if rel == 'mirror' else 0.0
    K = len(spec['surfaces'])
    if rel == 'mirror' and len(spec['fields']) > 1 and rng.random() < 0.3:
        # vignetting factors on the off-axis fields: they depend on the field HEIGHT, so the mirrored field gets the same
        for f_ in spec['fields']:
            if f_[0] != 0:
                f_[1], f_[2] = round(float(rng.uniform(0.05, 0.4)), 4), round(float(rng.uniform(0.05, 0.4)), 4)
        case['vig'] = True
    if rel == 'edited':
        case['edits'] = L.gen_edits(rng, spec)
        if not case['edits']:
            return None
    if rel == 'mirror':
        case['which'] = str(rng.choice(['x', 'y', 'xy']))
    elif rel == 'tilt':
        cand = [k for k in range(2, K) if spec['surfaces'][k - 1].get('radius', 'inf') != 'inf'
                and spec['surfaces'][k - 1].get('type', 'standard') == 'standard'
                and not spec['surfaces'][k - 1].get('conic')]
        if not cand:
            return None
        case['k'] = int(rng.choice(cand))
        amp = 0.3 if rng.random() < 0.5 else 0.03
        case['rx'] = float(rng.uniform(-amp, amp))
        case['ry'] = float(rng.uniform(-amp, amp)) if rng.random() < 0.6 else 0.0
        case['post'] = bool(rng.random() < 0.5)
    elif rel == 'dummy':
        # only gaps where the dummy plane clears both neighbouring surfaces inside the beam (otherwise some rays
        # meet it behind themselves and are, as documented, reported non-finite)
        P = L.psys(spec)
        ya, _ = P.marginal(L.epd_of(spec, P))
        yb, _, _, _ = P.chief(spec['field_type'], max(f[0] for f in spec['fields']))
        h = np.abs(np.asarray(ya, float)[1:]) + np.abs(np.asarray(yb, float))
        sag = [1.5 * abs(L.vertex_curvature(s_)) * h[j] ** 2 for j, s_ in enumerate(spec['surfaces'])]
        cand = []
        for g in range(1, K):
            t = abs(spec['surfaces'][g - 1]['t'])
            if t > 4 * (sag[g - 1] + sag[g]) + 1e-6:
                lo = (sag[g - 1] * 2) / t
                hi = 1 - (sag[g] * 2) / t
                cand.append((g, lo, hi))
        if not cand:
            return None
        g, lo, hi = cand[int(rng.integers(len(cand)))]
        case['gap'] = g
        case['frac'] = float(rng.uniform(lo, hi))
        case['beyond'] = False
    elif rel in ('scale', 'scale_system'):
        case['s'] = float(L.loguniform(rng, 0.01, 100.0))
        # physical apertures (also on flat surfaces) must scale with the lens: they decide which rays survive
        P = L.psys(spec)
        ya, _ = P.marginal(L.epd_of(spec, P))
        yb, _, _, _ = P.chief(spec['field_type'], max(f[0] for f in spec['fields']))
        h = np.abs(np.asarray(ya, float)[1:]) + np.abs(np.asarray(yb, float))
        if rng.random() < 0.7:
            for j, s_ in enumerate(spec['surfaces'][:-1]):
                if rng.random() < 0.4:
                    rmax = float(max(1e-3, h[j]) * rng.uniform(0.5, 1.1))
                    s_['aperture'] = {'r_max': rmax}
                    if rng.random() < 0.3:
                        s_['aperture']['r_min'] = 0.2 * rmax
                        if rng.random() < 0.4:
                            s_['aperture']['r_max'] = 'inf'      # a pure central obscuration (no outer rim)
    return case


def scaled_spec(spec, s):
    sp = copy.deepcopy(spec)
    if sp['obj_t'] != 'inf':
        sp['obj_t'] = sp['obj_t'] * s
    for su in sp['surfaces']:
        if su.get('radius', 'inf') != 'inf':
            su['radius'] = su['radius'] * s
        su['t'] = su.get('t', 0.0) * s
        if su.get('type') == 'even_asphere' and su.get('coeffs'):
            su['coeffs'] = [c * s ** (1 - 2 * (i + 1)) for i, c in enumerate(su['coeffs'])]
        for q in ('dx', 'dy'):
            if su.get(q):
                su[q] = su[q] * s
        if su.get('aperture'):
            su['aperture'] = {k_: (v_ if v_ == 'inf' else v_ * s) for k_, v_ in su['aperture'].items()}
    if sp['aperture'][0] == 'EPD':
        sp['aperture'] = ['EPD', sp['aperture'][1] * s]
    if sp['field_type'] == 'object_height':
        sp['fields'] = [[f[0] * s, f[1], f[2]] for f in sp['fields']]
    return sp


def records(lens):
    sg = lens.surface_group
    return dict(x=sg.x.copy(), y=sg.y.copy(), z=sg.z.copy(), L=sg.L.copy(), M=sg.M.copy(), N=sg.N.copy(), opd=sg.opd.copy(),
                I=sg.intensity.copy())


def cmp_records(rec, clause, A, B, scale, tol, msg, sx=1.0, sy=1.0, lens_scale=1.0, skipA=None, key=None, iterated=False):
    """B must equal A with x,L multiplied by sx; y,M by sy; positions and opd by lens_scale."""
    worst = 0.0
    same = True
    # rays that travel steeper than ~84 deg to the axis somewhere are outside the conditioning of the tracer (the
    # iterated intersection steps by dz/N): whether such a ray converges flips with rounding, so it is compared in
    # neither lens (same column in both; counted)
    if A['N'].shape[1] == B['N'].shape[1]:
        with np.errstate(invalid='ignore'):
            steep = np.any(np.abs(A['N']) < 0.1, axis=0) | np.any(np.abs(B['N']) < 0.1, axis=0)
        if steep.any() and not steep.all():
            rec.event('rays_excluded_steep', int(steep.sum()))
            A = {f: np.where(steep[None, :], np.nan, v) for f, v in A.items()}
            B = {f: np.where(steep[None, :], np.nan, v) for f, v in B.items()}
    if lens_scale != 1.0 and iterated and A['x'].shape == B['x'].shape:
        # a lens and its scaled copy stop the Newton iteration of their sag-defined surfaces at the same ABSOLUTE
        # tolerance, i.e. at different relative accuracy; a ray that one of the lenses loses further down (total
        # reflection, miss) runs next to that limit and amplifies the difference without bound.  Such rays must be lost
        # in the same places in both lenses (pattern), their numbers are not compared.
        patt = bool(np.array_equal(np.isfinite(A['x']), np.isfinite(B['x'])))
        same = same and patt
        lostcol = ~(np.isfinite(A['x'][-1]) & np.isfinite(B['x'][-1]))
        if lostcol.any() and not lostcol.all():
            rec.event('rays_lost_downstream_not_compared', int(lostcol.sum()))
            A = {f: np.where(lostcol[None, :], np.nan, v) for f, v in A.items()}
            B = {f: np.where(lostcol[None, :], np.nan, v) for f, v in B.items()}
    _posA = A['x'] if (skipA is None or A['x'].shape[0] == B['x'].shape[0]) else np.delete(A['x'], skipA, axis=0)
    for f in ('x', 'y', 'z', 'L', 'M', 'N', 'opd', 'I'):
        if f not in A or f not in B:
            continue
        a, b = A[f], B[f]
        if f == 'I':
            # the intensity of a lost ray is not specified: compare where the recorded point exists
            a = np.where(np.isfinite(a) & np.isfinite(_posA), a, np.nan)
            b = np.where(np.isfinite(b) & np.isfinite(B['x']), b, np.nan)
        if f == 'I' and lens_scale != 1.0:
            # absorption depends on absolute thickness, so only the survival pattern (which rays the scaled
            # apertures let through) is comparable between a lens and its scaled copy
            a, b = (a > 0).astype(float), (b > 0).astype(float)
        if skipA is not None:
            a = np.delete(a, skipA, axis=0) if a.shape[0] != b.shape[0] else a
        m = {'x': sx, 'L': sx, 'y': sy, 'M': sy}.get(f, 1.0)
        ls = lens_scale if f in ('x', 'y', 'z', 'opd') else 1.0
        want = a * m * ls
        # a lost ray is 'non-finite' whether recorded as inf or NaN
        b = np.where(np.isfinite(b), b, np.nan)
        want = np.where(np.isfinite(want), want, np.nan)
        sc = scale * ls if f in ('x', 'y', 'z', 'opd') else 1.0
        r, s_ = rec.resid(b, want, sc)
        same = same and s_
        worst = max(worst, r)
    ok = same and worst <= tol
    rec.check(clause, ok, key=key, resid=worst, tol=tol, msg=msg + (f' (worst {worst:.3e})' if same else ' (non-finite pattern differs)'))
    return ok


def check_case(case, rec):
    spec, rel = case['spec'], case['rel']
    rec.cls(f'relation-{rel}')
    lens = L.build(spec)
    wl = L.primary_wavelength(spec)
    Px, Py = np.array(case['Px']), np.array(case['Py'])
    n = len(Px)
    Hx, Hy = np.full(n, case['Hx']), np.full(n, case['Hy'])
    P = L.psys(spec)
    scale = max(1.0, float(np.max(np.abs(P.z))), abs(float(P.f2())) if np.isfinite(P.f2()) else 1.0)
    iter_tol = max([2 * float(s.get('tol', 1e-6)) for s in spec['surfaces'] if s.get('type', 'standard') != 'standard'] + [0.0])
    tol = 1e-9 + iter_tol * 10 / scale
    lens.trace_generic(Hx.copy(), Hy.copy(), Px.copy(), Py.copy(), wl)
    A = records(lens)
    nfin = int(np.sum(np.isfinite(A['x'][-1])))
    powered = sum(1 for s in spec['surfaces'][:-1] if s.get('radius', 'inf') != 'inf')
    if powered >= 2 and nfin >= 5:
        rec.nontrivial_case()
    rec.event('rays_traced', n)
    if rel == 'mirror':
        w = case['which']
        sx = -1.0 if 'x' in w else 1.0
        sy = -1.0 if 'y' in w else 1.0
        lens.trace_generic(Hx * sx, Hy * sy, Px * sx, Py * sy, wl)
        B = records(lens)
        cmp_records(rec, 'mirror-symmetry', A, B, scale, tol, f'mirroring field and pupil about {w} does not mirror the ray coordinates',
                    sx=sx, sy=sy)
    elif rel == 'edited':
        # the lens has been used (trace above + pupil queries), is now edited through the public setters, and must behave
        # like a lens built from scratch with the edited prescription (same description reached by another route)
        lens.paraxial.EPL(); lens.paraxial.EPD(); lens.paraxial.f2()
        lens.update_paraxial()
        sp2 = L.apply_edits(lens, spec, case['edits'])
        lens.trace_generic(Hx.copy(), Hy.copy(), Px.copy(), Py.copy(), wl)
        B = records(lens)
        fresh = L.build(sp2)
        fresh.trace_generic(Hx.copy(), Hy.copy(), Px.copy(), Py.copy(), wl)
        A2 = records(fresh)
        cmp_records(rec, 'edited-equals-rebuilt', A2, B, scale, tol,
                    f'a lens edited by {case["edits"]} after its first use traces differently from the same prescription built from scratch')
    elif rel == 'wavelength':
        wls = [w_[0] for w_ in spec['wavelengths'] if w_[0] != wl]
        lens.trace_generic(Hx.copy(), Hy.copy(), Px.copy(), Py.copy(), wls[0])
        B = records(lens)
        cmp_records(rec, 'wavelength-invariance', A, B, scale, 1e-13, 'changing the wavelength of a dispersion-free lens changed the rays')
    elif rel == 'dummy':
        sp = copy.deepcopy(spec)
        g = case['gap']
        su = sp['surfaces'][g - 1]
        t = su['t']
        t1 = t * (1.3 if case['beyond'] and su.get('medium') != 'mirror' else case['frac'])
        med = su['medium']
        if med == 'mirror':
            # medium after a mirror is the medium in front of it: find it
            med = 'air'
            for s_ in sp['surfaces'][:g - 1]:
                if s_['medium'] != 'mirror':
                    med = s_['medium']
        su['t'] = t1
        sp['surfaces'].insert(g, dict(type='standard', radius='inf', medium=copy.deepcopy(med), t=t - t1))
        if case['beyond']:
            rec.cls('dummy-beyond-gap')
        lens2 = L.build(sp)
        lens2.trace_generic(Hx.copy(), Hy.copy(), Px.copy(), Py.copy(), wl)
        B = records(lens2)
        # rays that meet the dummy plane behind themselves are, as documented, reported non-finite there: they are
        # excluded from the comparison (but a dummy that loses most rays is itself a violation)
        lost = ~np.isfinite(B['x'][g + 1]) & np.isfinite(A['x'][g + 1] if g + 1 < A['x'].shape[0] else A['x'][-1])
        if g + 2 < B['x'].shape[0]:
            # ... or reach the dummy only after having passed the next surface (the plane cuts it inside the beam),
            # so that the next surface then lies behind them
            lost |= np.isfinite(B['x'][g + 1]) & ~np.isfinite(B['x'][g + 2]) & np.isfinite(A['x'][g + 1])
        # the loss rule speaks about rays that complete the sequence in the original lens (a ray that the original
        # lens itself loses further on may well be travelling backwards where the dummy stands)
        reach = np.isfinite(A['x'][-1])
        # a ray recorded on surface g beyond the dummy plane (far-sheet intersection of a strongly curved conic, known
        # C02 mechanism) has the plane behind it: that it is lost there is the documented behaviour, not a loss
        zd = float(np.ravel(lens2.surface_group.surfaces[g + 1].geometry.cs.z)[0])
        with np.errstate(invalid='ignore'):
            behind = (zd - A['z'][g]) * A['N'][g] < 0
        lost_img = lost & reach & ~behind
        if g + 1 < A['z'].shape[0]:
            # ... and a ray that meets the NEXT surface before it would reach the dummy plane (the plane cuts that
            # surface's sag at the ray's height) leaves the relation's domain too: behind the plane the tracer can only
            # find another root of that surface
            with np.errstate(invalid='ignore'):
                cut = (A['z'][g + 1] - zd) * A['N'][g] < 0
            lost = lost | (cut & np.isfinite(A['x'][g + 1]))
        rec.check('dummy-surface', reach.sum() < 6 or lost_img.sum() <= 0.5 * reach.sum(), key='dummy-surface:loses-rays',
                  msg=f'a dummy plane after surface {g} lost {int(lost_img.sum())} of {int(reach.sum())} rays that reach the image')
        B = {f: np.delete(v, g + 1, axis=0) for f, v in B.items()}
        if lost.any():
            rec.event('rays_excluded_lost_at_dummy', int(lost.sum()))
            A = {f: np.where(lost[None, :], np.nan, v) for f, v in A.items()}
            B = {f: np.where(lost[None, :], np.nan, v) for f, v in B.items()}
        # a dummy beyond the gap is reached only by going backwards: the tracer reports those rays as non-finite
        # (documented behaviour for intersections behind the ray); only forward dummies are compared
        if not case['beyond']:
            # the launch plane of an infinite-object lens is placed relative to the foremost vertex, which a dummy may
            # move: the launch record is not 'downstream', and accumulated paths are compared up to the common constant
            # that a shifted launch plane adds to all (parallel) rays of the field
            A2 = {f: v[1:] for f, v in A.items()}
            B2 = {f: v[1:] for f, v in B.items()}
            for R_ in (A2, B2):
                fin0 = np.isfinite(R_['opd'][0])
                ref = R_['opd'][0][fin0][0] if fin0.any() else 0.0
                R_['opd'] = R_['opd'] - ref
            cmp_records(rec, 'dummy-surface', A2, B2, scale, tol, f'a dummy plane between equal media after surface {g} changed the other records')
        else:
            return
    elif rel == 'tilt':
        from optiland.rays import RealRays
        k = case['k']
        sp = copy.deepcopy(spec)
        su = sp['surfaces'][k - 1]
        R = float(su['radius'])
        rx, ry = case['rx'], case['ry']
        ax = (math.sin(ry), -math.sin(rx) * math.cos(ry), math.cos(rx) * math.cos(ry))      # local z axis in global frame
        dx, dy, dz = -R * ax[0], -R * ax[1], R - R * ax[2]
        su['rx'], su['ry'], su['dx'], su['dy'] = rx, ry, dx, dy
        sp['surfaces'][k - 2]['t'] = sp['surfaces'][k - 2]['t'] + dz
        su['t'] = su['t'] - dz
        if case.get('post'):
            # the same re-description reached by EDITING the untilted lens afterwards (tilt / decentre variables and
            # thickness edits), as optimisation and tolerancing do
            from optiland.optimization.variable.variable import Variable
            lens2 = L.build(spec)
            Variable(lens2, 'tilt', surface_number=k, axis='x', apply_scaling=False).update(rx)
            if ry:
                Variable(lens2, 'tilt', surface_number=k, axis='y', apply_scaling=False).update(ry)
            Variable(lens2, 'decenter', surface_number=k, axis='x', apply_scaling=False).update(dx)
            Variable(lens2, 'decenter', surface_number=k, axis='y', apply_scaling=False).update(dy)
            lens2.set_thickness(sp['surfaces'][k - 2]['t'], k - 1)
            lens2.set_thickness(su['t'], k)
            rec.cls('tilt-by-editing')
        else:
            lens2 = L.build(sp)
        x0, y0, z0, L0, M0, N0 = (A[f][0] for f in ('x', 'y', 'z', 'L', 'M', 'N'))
        if not np.all(np.isfinite(x0)):
            return
        outs = []
        for ln in (lens, lens2):
            rays = RealRays(x0.copy(), y0.copy(), z0.copy(), L0.copy(), M0.copy(), N0.copy(), np.ones(n), np.full(n, wl))
            ln.surface_group.trace(rays)
            outs.append(records(ln))
        rec.cls('tilt-large' if max(abs(rx), abs(ry)) > 0.05 else 'tilt-small', 'tilt-both-axes' if rx and ry else 'tilt-one-axis')
        # the relation holds for rays that meet the spherical cap common to both descriptions: rays recorded off the
        # vertex sheet (C02 finding `conic-far-sheet-root`) or beyond 0.9|R| are excluded and counted
        zk = L.vertex_positions(spec)[k]
        xk, yk, zl = outs[0]['x'][k], outs[0]['y'][k], outs[0]['z'][k] - zk
        r2 = xk ** 2 + yk ** 2
        with np.errstate(all='ignore'):
            sag = r2 / (R * (1 + np.sqrt(1 - r2 / R ** 2)))
            odd = np.isfinite(zl) & ~((np.abs(zl - sag) <= 1e-9 * scale) & (r2 <= (0.9 * R) ** 2))
        if odd.any():
            rec.event('rays_excluded_off_common_cap', int(odd.sum()))
            outs = [{f: np.where(odd[None, :], np.nan, v) for f, v in o.items()} for o in outs]
        cmp_records(rec, 'tilt-about-centre-of-curvature', outs[0], outs[1], scale, 1e-9,
                    f'tilting spherical surface {k} about its centre of curvature by ({rx:.3f},{ry:.3f}) changed the rays')
    elif rel == 'scale':
        s = case['s']
        sp = scaled_spec(spec, s)
        lens2 = L.build(sp)
        lens2.trace_generic(Hx.copy(), Hy.copy(), Px.copy(), Py.copy(), wl)
        B = records(lens2)
        cmp_records(rec, 'length-scaling', A, B, scale, tol * 10 + iter_tol * 10 / (scale * min(1.0, s)),
                    f'lens with all lengths x {s:.4g}: heights/paths not x s or cosines changed', lens_scale=s, iterated=iter_tol > 0)
        f2a, f2b = float(lens.paraxial.f2()), float(lens2.paraxial.f2())
        se_a = np.asarray(lens.aberrations.seidels(), float)
        se_b = np.asarray(lens2.aberrations.seidels(), float)
        sc = float(np.max(np.abs(se_a)))      # sums below 1e-12 focal lengths are rounding noise (e.g. all-zero mirror sums)
        ok = abs(f2b - s * f2a) <= 1e-9 * abs(s * f2a) and bool(np.all(np.abs(se_b - s * se_a) <= 1e-7 * sc * s + 1e-12 * abs(f2a) * s))
        rec.check('length-scaling-seidel-f2', ok, msg=f'scaling all lengths by {s:.4g}: f2 {f2a}->{f2b}, Seidel sums {se_a}->{se_b} (expected x s)')
    elif rel == 'scale_system':
        s = case['s']
        sp = scaled_spec(spec, s)
        lens2 = L.build(sp)
        f2_0 = float(lens.paraxial.f2())
        se_0 = np.asarray(lens.aberrations.seidels(), float)
        lens.scale_system(s)
        a, b = snapshot(lens), snapshot(lens2)
        diffs = []
        for k, (u, v) in enumerate(zip(a, b)):
            for f in ('z', 'radius', 'conic', 'x', 'y', 'rx', 'ry', 'stop'):
                va, vb = u[f], v[f]
                if isinstance(va, float) and isinstance(vb, float):
                    if math.isinf(va) or math.isinf(vb):
                        same = va == vb
                    else:
                        same = abs(va - vb) <= 1e-9 * max(1.0, abs(vb), scale * s if f == 'z' else 0.0)
                else:
                    same = va == vb
                if not same:
                    diffs.append((k, f, va, vb))
        ap_ok = abs(float(lens.aperture.value) - float(lens2.aperture.value)) <= 1e-12 * abs(float(lens2.aperture.value))
        rec.check('scale_system-prescription', not diffs and ap_ok,
                  msg=f'scale_system({s:.4g}) differs from the lens built from the scaled prescription at {diffs[:4]}; aperture ok={ap_ok}')
        lens.trace_generic(Hx.copy(), Hy.copy(), Px.copy(), Py.copy(), wl)
        B1 = records(lens)
        lens2.trace_generic(Hx.copy(), Hy.copy(), Px.copy(), Py.copy(), wl)
        B2 = records(lens2)
        cmp_records(rec, 'scale_system-rays', B2, B1, scale * s, tol * 10, f'rays through scale_system({s:.4g}) differ from the rebuilt scaled lens')
        f2_1 = float(lens.paraxial.f2())
        se_1 = np.asarray(lens.aberrations.seidels(), float)
        sc = float(np.max(np.abs(se_0)))
        ok = abs(f2_1 - s * f2_0) <= 1e-9 * abs(s * f2_0) and bool(np.all(np.abs(se_1 - s * se_0) <= 1e-7 * sc * s + 1e-12 * abs(f2_0) * s))
        rec.check('length-scaling-seidel-f2', ok, msg=f'scale_system({s:.4g}): f2 {f2_0}->{f2_1}, Seidel sums {se_0}->{se_1} (expected x s)')
    rec.sample(dict(case={k: v for k, v in case.items() if k != 'info'}, image_y=A['y'][-1][:4]))
