#!/usr/bin/env python3
"""tools/seedmeta.py <seeded dir> [--missed-first] [--note text]: write confirmed_by_verif into meta.json from confirm.log
(the LAST run of every check in the log decides 'caught_by'; earlier runs that held are listed as first_version_held)."""
import json, os, re, subprocess, sys
d = sys.argv[1].rstrip('/')
missed = '--missed-first' in sys.argv
note = sys.argv[sys.argv.index('--note') + 1] if '--note' in sys.argv else None
log = open(os.path.join(d, 'confirm.log')).read().splitlines()
runs, cur, chk = [], None, None
demo_wo = demo_w = suite = None
for ln in log:
    if ln.startswith('== '):
        cur = dict(head=ln, checks={})
        runs.append(cur)
    elif ln.startswith('demo_without_patch_exit='):
        demo_wo = ln.split('=')[1]
    elif ln.startswith('demo_with_patch_exit='):
        demo_w = ln.split('=')[1]
    elif re.search(r'\d+ passed', ln) and 'failed' not in ln:
        suite = re.search(r'(\d+ passed)', ln).group(1)
    elif re.search(r'\d+ failed', ln):
        suite = re.search(r'(\d+ failed[^ ]*( \d+ passed)?)', ln).group(1)
    elif ln.startswith('--- '):
        chk = ln.split()[1]
        cur['checks'].setdefault(chk, [])
    elif ln.startswith('VIOLATION') and cur is not None and chk:
        m = re.search(r'key=(\S+)', ln)
        cur['checks'][chk].append(m.group(1) if m else '?')
last, held_first = {}, set()
for r in runs:
    for c, keys in r['checks'].items():
        if c in last and not last[c] and keys:
            held_first.add(c)
        last[c] = keys
m = json.load(open(os.path.join(d, 'meta.json')))
m['confirmed_by_verif'] = dict(
    repo_head=subprocess.check_output(['git', '-C', '/repo', 'log', '-1', '--format=%h']).decode().strip(),
    demo_without_patch=f'exit {demo_wo}', demo_with_patch=f'exit {demo_w}', suite=suite,
    caught_by=sorted(c for c, k in last.items() if k), held=sorted(c for c, k in last.items() if not k),
    violation_keys=sorted({k for ks in last.values() for k in ks})[:8],
    missed_by_first_version=bool(missed or held_first), first_version_held=sorted(held_first),
    how='tools/seedcheck.sh: scratch worktree of /repo HEAD, patch applied there, checks run with VERIF_REPO=<scratch>; worktree removed')
if note:
    m['confirmed_by_verif']['note'] = note
json.dump(m, open(os.path.join(d, 'meta.json'), 'w'), indent=1)
print(os.path.basename(d), m['confirmed_by_verif']['caught_by'], 'missed_first=', m['confirmed_by_verif']['missed_by_first_version'], suite, demo_wo, demo_w)
