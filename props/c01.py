"""C01 -- prescription consistency under edit histories (history monitor + shadow model).

A shadow prescription (plain Python lists) is advanced operation by operation next to
the live lens; after EVERY operation the live lens is snapshotted through its public
getters and compared field by field with the shadow (frame condition: everything an
operation does not name is unchanged).  icontract postconditions on
SurfaceGroup.add_surface / WavelengthGroup.add_wavelength watch the stop and primary
clauses on every call made anywhere in the workload.
"""
import copy
import math

import numpy as np

from vkit import lens as L
from vkit import monitors, suite_monitor

ID = 'C01'
RULE = ('random prescriptions appended in index order (1-12 interfaces, every surface type, infinite/finite object, '
        'with and without tilts/decentres) followed by histories of 5-60 operations drawn from set_radius / set_conic / '
        'set_thickness / set_index / set_asphere_coeff / Variable.update (all nine kinds, scaled and unscaled) / '
        'pickups.add / solves.add / update / image_solve / add_wavelength with log-uniform values over 6 decades and '
        'both signs; some histories end with mid-list insertions and removals (stop / primary clauses only); '
        'non-trivial = >= 3 surfaces and >= 2 distinct operation kinds; distinct = distinct (spec, history) hash')
TIERS = {'quick': dict(shards=6, cases=50), 'thorough': dict(shards=16, cases=1500)}
MIN_NONTRIVIAL = {'quick': 100, 'thorough': 1000}
MIN_EVALS = {'construction': 100, 'frame+readback': 1000, 'pickup-satisfied': 20, 'solve-height-reached': 20,
             'image-solve': 10, 'C01.at-most-one-stop': 100, 'C01.exactly-one-primary': 100}
ASSUMPTIONS = ['media are compared by index at three wavelengths', 'the conic of a plane is not observable and is not edited',
               'pickup chains are generated source-first (a source may be the target of a pickup added earlier, never of a later '
               'one) and solves are added in increasing surface order (one-pass application in the order of addition is the '
               'documented semantics)']
ANCHORS = [('optiland.surfaces.surface_factory', 'SurfaceFactory._configure_cs'),
           ('optiland.surfaces.surface_factory', 'SurfaceFactory._configure_material'),
           ('optiland.surfaces.surface_group', 'SurfaceGroup.add_surface'),
           ('optiland.optic', 'Optic.set_thickness'), ('optiland.optic', 'Optic.set_index'),
           ('optiland.optic', 'Optic.set_radius'), ('optiland.optic', 'Optic.set_conic'),
           ('optiland.optic', 'Optic.set_asphere_coeff'), ('optiland.optic', 'Optic.image_solve'),
           ('optiland.pickup', 'Pickup.apply'), ('optiland.solves', 'MarginalRayHeightSolve.apply'),
           ('optiland.wavelength', 'WavelengthGroup.add_wavelength'),
           ('optiland.optimization.variable.variable', 'Variable.update')]
WLS = (0.48, 0.55, 0.65)


def shard_setup(rec):
    log = monitors.MonitorLog()
    rec._mlog = log
    return monitors.install_contracts(log, which=('stop', 'primary'))


def shard_finish(rec):
    log = rec._mlog
    for name, n in log.evals.items():
        bad = [b for b in log.bad if b[0] == name]
        rec.check(name, not bad, n=n, msg=f'{name} broken: {bad[:2]}')


# ---------------------------------------------------------------------------
def sval(rng, lo, hi, signed=True):
    v = L.loguniform(rng, lo, hi)
    return float(-v if signed and rng.random() < 0.5 else v)


def fixed_cases(tier):
    return [dict(kind='repo-suite', tests=(['tests'] if tier == 'thorough' else ['tests/test_rays.py', 'tests/test_optic.py', 'tests/test_standard_surface.py', 'tests/test_wavelength.py', 'tests/test_coatings.py']))]


def gen_case(rng, tier, i):
    a = L.loguniform(rng, 1.0, 10.0)
    spec, info = L.gen_axial(rng, semi=a, nsurf=(1, 12), asphere_p=0.25, glass_p=0.2, mirrors_p=(0.2 if rng.random() < 0.25 else 0),
                             image='any', ap_kinds=('EPD',), neg_power_p=0.3)
    classes = []
    if rng.random() < 0.5:
        classes = L.decorate(spec, rng, a, tilt_p=0.3, decenter_p=0.3, freeform_p=0.3, big_tilt_p=0.0)
    K = len(spec['surfaces'])            # interfaces incl. image
    nops = int(rng.integers(5, 61))
    ops = []
    use_thickness_pickups = rng.random() < 0.5
    hostile_obj_thickness = rng.random() < 0.06
    stop_idx = 1 + [bool(s.get('stop')) for s in spec['surfaces']].index(True)
    pick_sources, pick_targets = set(), set()
    last_solve_surface = 0
    n_solves = 0
    types = [s.get('type', 'standard') for s in spec['surfaces']]
    plane = [s.get('radius', 'inf') == 'inf' and s.get('type', 'standard') == 'standard' for s in spec['surfaces']]
    mirror = [s.get('medium') == 'mirror' for s in spec['surfaces']]
    finite = spec['obj_t'] != 'inf'
    for _ in range(nops):
        r = rng.random()
        k = int(rng.integers(1, K + 1))          # surface number 1..K
        if r < 0.14:
            if rng.random() < 0.06 and not plane[k - 1]:
                # a curved surface made flat for a while (radius = inf is how a flat surface is written): only the radius
                # changes - conic, coefficients, tilts stay and are there again when a finite radius comes back
                ops.append(['set_radius', float(rng.choice([math.inf, -math.inf])), k])
                plane[k - 1] = True        # (no conic edits / pickups are generated on it while it is flat)
            else:
                ops.append(['set_radius', sval(rng, 1e-1, 1e4), k])
                plane[k - 1] = False
        elif r < 0.24:
            cand = [j + 1 for j in range(K) if not plane[j]]
            if cand:
                ops.append(['set_conic', float(rng.uniform(-5, 5)), int(rng.choice(cand))])
        elif r < 0.40:
            kk = int(rng.integers(0 if finite else 1, K))
            if hostile_obj_thickness and rng.random() < 0.1:
                kk = 0                                      # hostile: object thickness (also of an infinite object)
            ops.append(['set_thickness', sval(rng, 1e-3, 1e3, signed=(rng.random() < 0.2 and kk > 0)), kk])
        elif r < 0.50:
            cand = [j + 1 for j in range(K - 1) if not mirror[j]]
            if cand:
                ops.append(['set_index', float(rng.uniform(1.0, 4.0)), int(rng.choice(cand))])
        elif r < 0.56:
            cand = [j + 1 for j in range(K) if types[j] == 'even_asphere' and spec['surfaces'][j].get('coeffs')]
            if cand:
                kk = int(rng.choice(cand))
                ci = int(rng.integers(len(spec['surfaces'][kk - 1]['coeffs'])))
                ops.append(['set_asphere_coeff', sval(rng, 1e-9, 1e-3), kk, ci])
        elif r < 0.76:
            kind = str(rng.choice(['radius', 'conic', 'thickness', 'index', 'asphere_coeff', 'tilt', 'decenter',
                                   'polynomial_coeff', 'chebyshev_coeff']))
            scaled = bool(rng.random() < 0.5)
            op = None
            if kind == 'radius':
                op = ['var', kind, scaled, sval(rng, 1e-1, 1e3), dict(surface_number=k)]
                plane[k - 1] = False
            elif kind == 'conic':
                cand = [j + 1 for j in range(K) if not plane[j]]
                if cand:
                    op = ['var', kind, scaled, float(rng.uniform(-5, 5)), dict(surface_number=int(rng.choice(cand)))]
            elif kind == 'thickness':
                op = ['var', kind, scaled, sval(rng, 1e-2, 1e2, signed=False), dict(surface_number=int(rng.integers(1, K)))]
            elif kind == 'index':
                cand = [j + 1 for j in range(K - 1) if not mirror[j]]
                if cand:
                    op = ['var', kind, scaled, float(rng.uniform(-0.4, 2.0) if scaled else rng.uniform(1, 4)),
                          dict(surface_number=int(rng.choice(cand)), wavelength=0.55)]
            elif kind == 'asphere_coeff':
                cand = [j + 1 for j in range(K) if types[j] == 'even_asphere' and spec['surfaces'][j].get('coeffs')]
                if cand:
                    kk = int(rng.choice(cand))
                    op = ['var', kind, scaled, sval(rng, 1e-6, 1e1), dict(
                        surface_number=kk, coeff_number=int(rng.integers(len(spec['surfaces'][kk - 1]['coeffs']))))]
            elif kind in ('tilt', 'decenter'):
                op = ['var', kind, scaled, float(rng.normal() * (0.05 if kind == 'tilt' else 0.5)),
                      dict(surface_number=k, axis=str(rng.choice(['x', 'y'])))]
            else:
                want = 'polynomial' if kind == 'polynomial_coeff' else 'chebyshev'
                cand = [j + 1 for j in range(K) if types[j] == want]
                if cand:
                    kk = int(rng.choice(cand))
                    C = spec['surfaces'][kk - 1]['coeffs']
                    op = ['var', kind, scaled, sval(rng, 1e-7, 1e-2),
                          dict(surface_number=kk, coeff_index=[int(rng.integers(len(C))), int(rng.integers(len(C[0])))])]
            if op:
                ops.append(op)
        elif r < 0.82 and K >= 3:
            attr = str(rng.choice(['radius', 'conic', 'thickness'] if use_thickness_pickups else ['radius', 'conic']))
            src = int(rng.integers(1, K))
            tgt = int(rng.integers(1, K))
            if attr == 'conic' and (plane[src - 1] or plane[tgt - 1]):
                continue
            # chains are allowed in the order one pass can satisfy: the source may be the target of a pickup added EARLIER
            # (pickups are applied in the order they were added); a target is never a source of an earlier pickup
            if src == tgt or tgt in pick_sources or tgt in pick_targets:
                continue
            if attr == 'radius' and plane[src - 1]:
                continue            # scale*inf+offset
            pick_sources.add(src); pick_targets.add(tgt)
            if attr == 'radius':
                plane[tgt - 1] = False
            ops.append(['pickup', src, attr, tgt, float(rng.choice([1.0, -1.0, rng.uniform(-2, 2)])),
                        float(rng.choice([0.0, rng.normal()]))])
        elif r < 0.87 and not use_thickness_pickups and n_solves < 2:
            lo = max(2, last_solve_surface + 1)
            if finite and rng.random() < 0.85:
                lo = max(lo, stop_idx + 1)      # behind the stop: the solve cannot move the entrance pupil
            kk = int(rng.integers(lo, K + 1)) if K + 1 > lo else None
            if kk:
                ops.append(['solve', kk, float(rng.choice([0.0, rng.uniform(-2, 2) * a]))])
                last_solve_surface = kk
                n_solves += 1
        elif r < 0.92:
            ops.append(['update'])
        elif r < 0.95:
            ops.append(['image_solve'])
        else:
            if rng.random() < 0.3:
                # a value that is already in the list, asked for as primary: the only way to move the primary flag
                ops.append(['add_wavelength', float(spec['wavelengths'][int(rng.integers(len(spec['wavelengths'])))][0]), True])
            else:
                ops.append(['add_wavelength', round(float(rng.uniform(0.4, 0.8)), 5), bool(rng.random() < 0.4)])
    ops.append(['update'])
    tail = []
    if rng.random() < 0.3:
        for _ in range(int(rng.integers(1, 5))):
            r_ = rng.random()
            if r_ < 0.2:
                # a ready-made Surface object (copy of an existing one, flagged as stop) handed to add_surface(new_surface=...)
                tail.append(['insert_object', int(rng.integers(1, K + 1)), int(rng.integers(1, K + 1))])
            elif r_ < 0.6:
                tail.append(['insert', int(rng.integers(1, K + 1)), bool(rng.random() < 0.5)])
            else:
                tail.append(['remove', int(rng.integers(1, K))])
    return dict(spec=spec, info=info, classes=classes, ops=ops, tail=tail)


# ---------------------------------------------------------------------------
def snapshot(lens):
    sg = lens.surface_group
    out = []
    for s in sg.surfaces:
        g = s.geometry
        cs = g.cs
        d = dict(z=float(np.ravel(cs.z)[0]), x=float(np.ravel(cs.x)[0]), y=float(np.ravel(cs.y)[0]),
                 rx=float(np.ravel(cs.rx)[0]), ry=float(np.ravel(cs.ry)[0]),
                 radius=float(g.radius), conic=(float(g.k) if hasattr(g, 'k') and type(g).__name__ != 'Plane' else None),
                 coeffs=(np.asarray(g.c, dtype=float).tolist() if hasattr(g, 'c') else None),
                 n_pre=[float(np.ravel(s.material_pre.n(w))[0]) for w in WLS],
                 n_post=[float(np.ravel(s.material_post.n(w))[0]) for w in WLS],
                 stop=bool(s.is_stop), gtype=type(g).__name__)
        out.append(d)
    return out


def shadow_from_spec(spec, lens):
    """Shadow prescription built from the spec alone (media indices through make_material, so that the
    chaining clause is decided against what was *given*, not against what the lens stored)."""
    zs = L.vertex_positions(spec)
    sh = []
    mats = [L.make_material(spec.get('obj_n', 'air'))]

    def nvals(m, prev):
        if m == 'air':
            return [1.0] * 3
        if m == 'mirror':
            return list(prev)
        if isinstance(m, dict) and 'n' in m:
            return [float(m['n'])] * 3
        mat = L.make_material(m)
        return [float(np.ravel(mat.n(w))[0]) for w in WLS]
    prev = nvals(spec.get('obj_n', 'air'), None)
    sh.append(dict(z=zs[0], x=0.0, y=0.0, rx=0.0, ry=0.0, radius=math.inf, conic=None, coeffs=None,
                   n_pre=list(prev), n_post=list(prev), stop=False))
    for k, s in enumerate(spec['surfaces'], start=1):
        typ = s.get('type', 'standard')
        R = L.fnum(s.get('radius', 'inf'))
        post = nvals(s.get('medium', 'air'), prev)
        d = dict(z=zs[k], x=float(s.get('dx', 0.0)), y=float(s.get('dy', 0.0)), rx=float(s.get('rx', 0.0)),
                 ry=float(s.get('ry', 0.0)), radius=R,
                 conic=(None if (typ == 'standard' and math.isinf(R)) else float(s.get('conic', 0.0))),
                 coeffs=(None if typ == 'standard' else
                         ([float(c) for c in s.get('coeffs', [])] if typ == 'even_asphere'
                          else np.atleast_2d(np.array(s['coeffs'], dtype=float)).tolist())),
                 n_pre=list(prev), n_post=list(post), stop=bool(s.get('stop', False)))
        sh.append(d)
        prev = post
    return sh


FIELDS = ('z', 'x', 'y', 'rx', 'ry', 'radius', 'conic', 'coeffs', 'n_pre', 'n_post', 'stop')


def compare(rec, clause, live, shadow, scale, what, key=None):
    """Field-by-field; returns list of differing (surface, field)."""
    diffs = []
    for k, (a, b) in enumerate(zip(live, shadow)):
        for f in FIELDS:
            va, vb = a[f], b[f]
            if f == 'z':
                if math.isinf(vb) or math.isinf(va) or math.isnan(va):
                    same = (va == vb)
                else:
                    same = abs(va - vb) <= 1e-9 * max(1.0, scale, abs(vb))
            elif f in ('n_pre', 'n_post'):
                same = np.allclose(va, vb, rtol=0, atol=1e-12)
            elif f == 'coeffs':
                same = (va is None and vb is None) or (va is not None and vb is not None and
                                                       np.shape(va) == np.shape(vb) and np.array_equal(va, vb))
            elif f == 'conic' and (va is None or vb is None):
                same = True    # conic of a plane is not observable
            elif f == 'radius' and isinstance(va, float) and isinstance(vb, float) and math.isinf(va) and math.isinf(vb):
                same = True    # a plane is a plane whatever the sign of its infinite radius
            else:
                same = (va == vb) or (isinstance(va, float) and isinstance(vb, float) and math.isnan(va) and math.isnan(vb))
            if not same:
                diffs.append((k, f, va, vb))
    ok = not diffs and len(live) == len(shadow)
    rec.check(clause, ok, key=key, msg=f'{what}: live lens differs from the shadow prescription at (surface, field, live, expected) '
                                       f'{diffs[:4]}' + ('' if len(live) == len(shadow) else ' surface count differs'))
    return diffs


def check_case(case, rec):
    if case.get('kind') == 'repo-suite':
        suite_monitor.record(rec, suite_monitor.run(('stop', 'primary'), case['tests']),
                             ['C01.at-most-one-stop', 'C01.exactly-one-primary'])
        return
    spec = case['spec']
    rec.cls(*(case.get('classes') or ['axial']))
    rec.cls('object-infinite' if spec['obj_t'] == 'inf' else 'object-finite', f"K-{min(len(spec['surfaces']), 12)}")
    lens = L.build(spec)
    sh = shadow_from_spec(spec, lens)
    scale = max(1.0, max(abs(d['z']) for d in sh[1:]))
    live = snapshot(lens)
    compare(rec, 'construction', live, sh, scale, 'after construction')
    # medium chaining on the live objects
    chain = all(np.allclose(live[k]['n_pre'], live[k - 1]['n_post'], rtol=0, atol=0) for k in range(1, len(live)))
    rec.check('medium-chaining', chain, msg='medium in front of a surface differs from the medium behind its predecessor')
    prim = [bool(w[1]) for w in spec['wavelengths']]
    wl_shadow = [[w[0], False] for w in spec['wavelengths']]
    # add_wavelength semantics: first is primary; a later primary clears the others
    for i, w in enumerate(spec['wavelengths']):
        if w[1]:
            for x in wl_shadow:
                x[1] = False
        wl_shadow[i][1] = bool(w[1]) or i == 0 and not any(x[1] for x in wl_shadow)
    kinds = set()
    pickups, solves = [], []
    nK = len(sh)

    def wl_check(what):
        got = [[float(w.value), bool(w.is_primary)] for w in lens.wavelengths.wavelengths]
        npri = sum(1 for g in got if g[1])
        rec.check('exactly-one-primary', npri == 1, msg=f'{what}: {npri} primary wavelengths')

    wl_check('after construction')
    def stop_moved_to_object_image():
        # a solve at or in front of the stop of a finite-object lens moves the stop (known mechanism
        # solve-moves-entrance-pupil); when it lands on the image of the axial object point the entrance pupil is
        # the object plane and no marginal ray exists any more: nothing later in this history is defined
        if not (solves and not math.isinf(sh[0]['z']) and any(s_[1] <= [d['stop'] for d in sh].index(True) for s_ in solves)):
            return False
        with np.errstate(all='ignore'):
            ya_, ua_ = lens.paraxial.marginal_ray()
        return not (np.all(np.isfinite(ya_)) and np.all(np.isfinite(ua_)))

    for op in case['ops']:
        name = op[0]
        if stop_moved_to_object_image():
            rec.cls('marginal-ray-undefined-after-solve-moved-the-stop:history-ended')
            break
        kinds.add(name if name != 'var' else f'var-{op[1]}')
        before = snapshot(lens)
        expect = copy.deepcopy(sh)
        key = None
        rigid_from = None
        rec.event('operations')
        if name == 'set_radius':
            _, v, k = op
            v = L.fnum(v)                      # replay files carry +-inf as strings
            lens.set_radius(v, k)
            expect[k]['radius'] = v
            if expect[k]['conic'] is None:
                expect[k]['conic'] = 0.0
            rb = float(lens.surface_group.radii[k])
            # (a flat surface is the same surface whatever the sign of its infinite radius)
            rec.check('frame+readback', rb == v or (math.isinf(v) and math.isinf(rb)), msg=f'set_radius({v},{k}) reads back {rb}')
        elif name == 'set_conic':
            _, v, k = op
            lens.set_conic(v, k)
            expect[k]['conic'] = v
            rb = float(lens.surface_group.conic[k])
            rec.check('frame+readback', rb == v, msg=f'set_conic({v},{k}) reads back {rb}')
        elif name == 'set_thickness':
            _, v, k = op
            lens.set_thickness(v, k)
            if k == 0:
                # (a lens whose object was at infinity gets a finite object distance: the mechanism
                #  set-thickness-object-infinite was repaired in the repository, nothing is special-cased any more)
                expect[0]['z'] = -v
            else:
                delta = v - (expect[k + 1]['z'] - expect[k]['z'])
                for j in range(k + 1, nK):
                    expect[j]['z'] += delta
            rb = float(np.ravel(lens.surface_group.get_thickness(k))[0])
            rec.check('frame+readback', abs(rb - v) <= 1e-9 * max(1.0, scale, abs(v)),
                      key=('frame+readback:' + key) if key else None,
                      msg=f'set_thickness({v},{k}) reads back {rb}')
        elif name == 'set_index':
            _, v, k = op
            lens.set_index(v, k)
            expect[k]['n_post'] = [v] * 3
            expect[k + 1]['n_pre'] = [v] * 3
            rb = float(lens.n(0.55)[k])
            rec.check('frame+readback', rb == v, msg=f'set_index({v},{k}) reads back {rb}')
        elif name == 'set_asphere_coeff':
            _, v, k, ci = op
            lens.set_asphere_coeff(v, k, ci)
            expect[k]['coeffs'][ci] = v
        elif name == 'var':
            _, kind, scaled, v, kw = op
            from optiland.optimization.variable.variable import Variable
            kw2 = dict(kw)
            if 'coeff_index' in kw2:
                kw2['coeff_index'] = tuple(kw2['coeff_index'])
            var = Variable(lens, kind, apply_scaling=scaled, **kw2)
            var.update(v)
            rb = float(np.ravel(var.value)[0])
            # a thickness is read back as a difference of vertex positions: its rounding scales with the positions
            tol_rb = 1e-12 * max(1.0, abs(v), scale if kind == 'thickness' else 0.0) + (1e-13 if scaled else 0.0)
            rec.check('frame+readback', abs(rb - v) <= tol_rb,
                      msg=f'Variable({kind}, scaled={scaled}).update({v}) reads back {rb}')
            k = kw['surface_number']
            after = snapshot(lens)
            # the one quantity named by the variable is taken from the live lens when scaled (the scaling map is
            # the library's private convention); unscaled updates must store exactly v
            if kind == 'radius':
                expect[k]['radius'] = v if not scaled else after[k]['radius']
                if expect[k]['conic'] is None:
                    expect[k]['conic'] = 0.0
            elif kind == 'conic':
                # (read through surface_group.conic: a conic given to a still-flat surface is kept by the plane and must
                #  survive a later set_radius; the snapshot shows no conic for planes)
                expect[k]['conic'] = v if not scaled else float(lens.surface_group.conic[k])
            elif kind == 'thickness':
                newt = v if not scaled else (after[k + 1]['z'] - after[k]['z'])
                delta = newt - (expect[k + 1]['z'] - expect[k]['z'])
                for j in range(k + 1, nK):
                    expect[j]['z'] += delta
            elif kind == 'index':
                nv = v if not scaled else after[k]['n_post'][1]
                expect[k]['n_post'] = [nv] * 3
                expect[k + 1]['n_pre'] = [nv] * 3
            elif kind == 'asphere_coeff':
                expect[k]['coeffs'][kw['coeff_number']] = v if not scaled else after[k]['coeffs'][kw['coeff_number']]
            elif kind == 'tilt':
                f = 'rx' if kw['axis'] == 'x' else 'ry'
                expect[k][f] = v if not scaled else after[k][f]
            elif kind == 'decenter':
                f = 'x' if kw['axis'] == 'x' else 'y'
                expect[k][f] = v if not scaled else after[k][f]
            else:
                i, j = kw['coeff_index']
                expect[k]['coeffs'][i][j] = v if not scaled else after[k]['coeffs'][i][j]
        elif name == 'pickup':
            _, src, attr, tgt, sc, off = op
            lens.pickups.add(src, attr, tgt, sc, off)
            pickups.append(op)
            apply_pickup_shadow(expect, op, nK)
        elif name == 'solve':
            _, k, h = op
            ya0, ua0 = lens.paraxial.marginal_ray()
            ya0, ua0 = np.ravel(ya0).copy(), np.ravel(ua0).copy()
            with np.errstate(all='ignore'):
                ws = (h - ya0[k]) / ua0[k - 1]
            if not np.isfinite(ws) or abs(ws) > 1e4 * scale:
                rec.cls('solve-unsatisfiable-skipped')      # no finite position reaches that height: not a valid request
                continue
            lens.solves.add('marginal_ray_height', k, h)
            shift = float(np.ravel(lens.surface_group.surfaces[k].geometry.cs.z)[0]) - before[k]['z']
            want_shift = (h - ya0[k]) / ua0[k - 1]
            solve_onepass_exact = bool(np.isfinite(want_shift) and abs(shift - want_shift) <= 1e-9 * max(1.0, abs(want_shift)))
            solves.append(op)
            rigid_from = k
        elif name == 'update':
            lens.update()
            for p in pickups:
                apply_pickup_shadow(expect, p, nK)
            if solves:
                rigid_from = min(s[1] for s in solves)
        elif name == 'image_solve':
            ya0, ua0 = lens.paraxial.marginal_ray()
            ya0, ua0 = np.ravel(ya0), np.ravel(ua0)
            with np.errstate(all='ignore'):
                off = ya0[-1] / ua0[-2]
            if not np.isfinite(off) or abs(off) > 1e4 * scale:
                rec.cls('image-solve-nearly-afocal-skipped')      # focus (almost) at infinity: not a valid request
                continue
            lens.image_solve()
            rigid_from = nK - 1
        elif name == 'add_wavelength':
            _, v, pri = op
            lens.add_wavelength(v, is_primary=pri)
            wl_check(f'after add_wavelength({v},{pri})')
        if name in ('solve', 'update') and stop_moved_to_object_image():
            rec.cls('marginal-ray-undefined-after-solve-moved-the-stop:history-ended')
            break
        after = snapshot(lens)
        if rigid_from is not None:
            # a solve may move surfaces >= rigid_from along z (by amounts decided by the solve clauses below);
            # everything else is frame. z of moved surfaces is adopted from the live lens.
            for j in range(rigid_from, nK):
                expect[j]['z'] = after[j]['z']
        diffs = compare(rec, 'frame+readback', after, expect, scale, f'after {op}',
                        key=('frame+readback:' + key) if key else None)
        sh = expect if not diffs else [dict(e, **{f: a[f] for f in FIELDS}) for e, a in zip(expect, after)]
        # solve / pickup clauses, decided where the statement makes them observable: after update(), add and image_solve
        if name in ('update', 'solve', 'image_solve'):
            check_solves(rec, lens, solves if name != 'image_solve' else [], scale, name, nK,
                         finite_obj=not math.isinf(sh[0]['z']), stop_idx=[d['stop'] for d in sh].index(True),
                         onepass=(solve_onepass_exact if name == 'solve' else None))
        if name == 'update':
            check_pickups(rec, lens, pickups, scale)
    if len(sh) >= 4 and len(kinds) >= 2:
        rec.nontrivial_case()
    # tail: insertion / removal, stop and primary clauses only
    for op in case.get('tail', []):
        rec.event('operations')
        if op[0] == 'insert':
            lens.add_surface(index=min(op[1], len(lens.surface_group.surfaces)), radius=50.0, thickness=1.0, is_stop=op[2])
        elif op[0] == 'insert_object':
            nS = len(lens.surface_group.surfaces)
            src = lens.surface_group.surfaces[max(1, min(op[2], nS - 2))]
            obj = copy.deepcopy(src)
            obj.is_stop = True
            lens.add_surface(new_surface=obj, index=max(1, min(op[1], nS - 1)))
        else:
            if op[1] < len(lens.surface_group.surfaces) - 1:
                lens.surface_group.remove_surface(op[1])
        nstop = sum(1 for s in lens.surface_group.surfaces if s.is_stop)
        rec.check('at-most-one-stop', nstop <= 1, msg=f'{nstop} stop surfaces after {op}')
    rec.sample(dict(spec_surfaces=len(spec['surfaces']), ops=case['ops'][:12], final=snapshot(lens)[:3]))


def apply_pickup_shadow(expect, op, nK):
    _, src, attr, tgt, sc, off = op
    if attr == 'radius':
        expect[tgt]['radius'] = sc * expect[src]['radius'] + off
        if expect[tgt]['conic'] is None:
            expect[tgt]['conic'] = 0.0
    elif attr == 'conic':
        expect[tgt]['conic'] = sc * expect[src]['conic'] + off
    else:
        newt = sc * (expect[src + 1]['z'] - expect[src]['z']) + off
        delta = newt - (expect[tgt + 1]['z'] - expect[tgt]['z'])
        for j in range(tgt + 1, nK):
            expect[j]['z'] += delta


def check_pickups(rec, lens, pickups, scale):
    sg = lens.surface_group
    for _, src, attr, tgt, sc, off in pickups:
        if attr == 'radius':
            a, b = float(sg.radii[tgt]), sc * float(sg.radii[src]) + off
        elif attr == 'conic':
            a, b = float(sg.conic[tgt]), sc * float(sg.conic[src]) + off
        else:
            a = float(np.ravel(sg.get_thickness(tgt))[0])
            b = sc * float(np.ravel(sg.get_thickness(src))[0]) + off
        ok = (a == b) or abs(a - b) <= 1e-9 * max(1.0, abs(b), scale if attr == 'thickness' else 1.0)
        rec.check('pickup-satisfied', ok, msg=f'after update(): {attr} of surface {tgt} = {a}, expected {sc}*source+{off} = {b}')


def check_solves(rec, lens, solves, scale, opname, nK, finite_obj=False, stop_idx=None, onepass=None):
    try:
        ya, ua = lens.paraxial.marginal_ray()
    except Exception:
        raise
    ya, ua = np.ravel(ya), np.ravel(ua)
    if not (np.all(np.isfinite(ya)) and np.all(np.isfinite(ua))):
        rec.cls('marginal-ray-non-finite-skipped')
        return
    epd = float(lens.aperture.value)
    if opname == 'image_solve':
        # the height is ya + u*dz: its rounding scales with the height before the solve and with |u * dz|
        tol = 1e-9 * max(1.0, epd, float(np.max(np.abs(ya))), float(np.max(np.abs(ua))) * scale)
        rec.check('image-solve', abs(ya[-1]) <= tol, resid=abs(ya[-1]), tol=tol,
                  msg=f'after image_solve the marginal ray height at the image is {ya[-1]:.3e}')
        return
    # only the solve applied last is guaranteed after add(); after update() all are (increasing surface order)
    todo = solves if opname == 'update' else solves[-1:]
    for _, k, h in todo:
        tol = 1e-9 * max(1.0, abs(h), epd, float(np.max(np.abs(ya))))
        # a request that a LATER edit has made unsatisfiable (the marginal ray now runs parallel to the axis in front of
        # the solved surface, or a position 1e4 system lengths away would be needed) is not a valid request any more
        with np.errstate(all='ignore'):
            need = (h - ya[k]) / ua[k - 1]
        if abs(ya[k] - h) > tol and (not np.isfinite(need) or abs(need) > 1e4 * scale):
            rec.cls('solve-became-unsatisfiable-skipped')
            continue
        # known mechanism: a solve at or in front of the stop of a finite-object lens moves the entrance pupil and
        # with it the marginal ray itself; explained only if the applied shift is exactly the one-pass shift
        key = None
        if finite_obj and stop_idx is not None and k <= stop_idx and onepass in (None, True):
            key = 'solve-height-reached:solve-moves-entrance-pupil'
        elif finite_obj and stop_idx is not None and any(s2[1] <= stop_idx for s2 in solves) and opname == 'update':
            key = 'solve-height-reached:solve-moves-entrance-pupil'   # an earlier solve of that class moved the pupil
        rec.check('solve-height-reached', abs(ya[k] - h) <= tol, resid=abs(ya[k] - h), tol=tol, key=key,
                  msg=f'marginal ray height solve on surface {k}: height {ya[k]!r} instead of {h!r} after {opname}')
