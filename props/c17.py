"""C17 -- Fresnel energy conservation, polarization ray trace invariants, Jones element algebra.

Three clause families, chosen per case by gen_case:

A. `fresnel` : JonesFresnel(pre, post).calculate_matrix(rays, reflect, aoi) is called directly on
   RealRays built here.  s = entry [0,0], p = entry [1,1] (the matrix is written in the (s, p, k)
   basis that PolarizedRays.update builds; the Brewster clause confirms the assignment at run time:
   the entry called p must vanish at atan(n2/n1), which r_s never does for n1 != n2).
   R = |r|^2 from the reflect=True matrix, T = (n2 cos t / n1 cos i) |t|^2 from the reflect=False
   matrix with cos t from the oracle's own Snell computation.
B. `trace`   : a lens from the shared grammar is built with a PolarizationState and traced with
   Optic.trace; decided at rays.i / rays.p / rays.get_output_field after the call.
C. `element` : Jones* element classes, 2x2 block of calculate_matrix(rays).

Known defect mechanisms are modelled ("as-built") so that only a violation *explained* by the
mechanism gets the mechanism key; anything else comes out as `clause` or `clause:unexplained`:

* diattenuator-offdiag-precedence  (JonesLinearDiattenuator.calculate_matrix: off-diagonal term
  `t_max - t_min*cos*sin`; exact numeric prediction),
* tilted-surface-local-frame       (PolarizedRays.update is called in the surface's local frame and the
  operator is multiplied into rays.p as if it were global; exact numeric prediction from the recorded
  ray directions and the surface tilts; the field leaves the transverse plane, the intensity does not change),
* near-parallel-k-noise            (PolarizedRays.update normalises s = k0 x k1 unless it is exactly 0; on a
  curved surface with the same medium on both sides -- dummy surface, curved image surface -- k1 = k0 + O(eps)
  and s is normalised rounding noise: the operator is not orthogonal, intensity and transversality are lost;
  no numeric prediction, a failing ray is attributed only within the bound 100*eps/|k0 x k1|).
"""
import math

import numpy as np

from vkit import lens as L
from vkit.oracles import polarization as O

ID = 'C17'
RULE = ('case family drawn per case: 40% Fresnel batches (5 index pairs n1,n2 in [1,4] incl. equal indices and n=1, '
        '10 incidence angles each in [0, 90deg) resp. below the critical angle with cos(theta_t) >= 1e-3, clustered '
        'near 0, near the limit and uniform; both reflect=False/True), 30% Jones element cases (all six polarizers, '
        'linear/quarter/half-wave retarders and the linear diattenuator at a random angle in (-pi,pi) or a special '
        'angle, random retardance in [-4pi,4pi], 0<=t_min<=t_max<=1, 1-4 rays), 30% lens traces (axially symmetric '
        '2-7 interface lenses from the constraint-based generator, spheres/conics/even aspheres, optional mirrors, '
        'optional surface tilts, a share of curved dummy (air|air) surfaces and curved image surfaces, ideal '
        'non-absorbing media, no physical apertures; uncoated, or coated with Fresnel / '
        'SimpleCoating mixes; fields on and off axis; hexapolar/uniform/cross/line pupils; random (Ex,Ey,phase) '
        'states, the six named states and unpolarized). Non-trivial: a Fresnel batch with an angle > 20deg, an '
        'element case whose angle is not a multiple of 90deg, a trace with >= 2 refracting surfaces and >= 10 finite '
        'rays. distinct = distinct case hash')
TIERS = {'quick': dict(shards=8, cases=220), 'thorough': dict(shards=16, cases=1500)}
MIN_NONTRIVIAL = {'quick': 1200, 'thorough': 16000}
MIN_EVALS = {
    'fresnel-energy-s': {'quick': 1800, 'thorough': 30000}, 'fresnel-energy-p': {'quick': 1800, 'thorough': 30000},
    'fresnel-brewster': {'quick': 1800, 'thorough': 30000}, 'fresnel-normal': {'quick': 1800, 'thorough': 30000},
    'uncoated-intensity-preserved': {'quick': 1300, 'thorough': 18000},
    'field-transverse': {'quick': 130, 'thorough': 1800},
    'unpolarized-is-mean': {'quick': 800, 'thorough': 10000},
    'polarizer-idempotent': {'quick': 1600, 'thorough': 20000}, 'polarizer-hermitian': {'quick': 1600, 'thorough': 20000},
    'polarizer-rank1': {'quick': 1600, 'thorough': 20000}, 'polarizer-passes-own-state': {'quick': 1600, 'thorough': 20000},
    'polarizer-circular-complementary': {'quick': 500, 'thorough': 7000},
    'retarder-unitary': {'quick': 800, 'thorough': 10000}, 'retarder-retardance': {'quick': 800, 'thorough': 10000},
    'rotation-covariance': {'quick': 1000, 'thorough': 14000},
    'diattenuator-theta0-diagonal': {'quick': 250, 'thorough': 3500},
    'diattenuator-eigenvalues': {'quick': 250, 'thorough': 3500},
}
ASSUMPTIONS = [
    'Fresnel: T = (n2 cos(theta_t)/(n1 cos(theta_i)))|t|^2 with theta_t from the oracle\'s own Snell computation; '
    'tolerance 1e-12 absolute on quantities <= 1 (closed forms, a few rounding errors), widened to '
    '1e-12*(1 + 1e-3/cos^2(theta_t)) towards the critical angle because cos(theta_t) = sqrt(1 - sin^2(theta_t)) is only '
    'determined to a relative eps/(2 cos^2(theta_t)) by a float angle of incidence, in the oracle and in any implementation; '
    'angles are kept at cos(theta_t) >= 1e-3 (tolerance <= 1e-9 there)',
    'the Jones 2x2 is the upper-left block of the returned (N,3,3) array; s is entry [0,0], p entry [1,1] '
    '(confirmed at run time by the Brewster clause)',
    'trace clauses: the input state is normalised by PolarizationState, the launch intensity is 1, so "preserved" '
    'means rays.i == 1 within 1e-12 for every ray whose final position and direction are finite; transversality is '
    'decided on rays.get_output_field of two unit fields spanning the plane normal to the launch direction '
    '(|E.k| <= 1e-12 |E|)',
    'lenses have no physical apertures and no absorbing media (those losses are C16\'s subject)',
    'the rotation sense of element angles is read from the named polarizers (P_L45 = R(45 deg) P_H R(-45 deg)) and then '
    'required of the retarders and the diattenuator; '
    'either handedness convention is accepted for the circular polarizers',
    'as-built models: diattenuator-offdiag-precedence (off-diagonal = t_max - t_min*cos*sin), '
    'tilted-surface-local-frame (surface operators formed from local direction cosines are multiplied without '
    'transforming back to the global frame), near-parallel-k-noise (a ray with 0 < |k0 x k1| < 1e-3 at some '
    'surface: the s-vector is a normalised rounding residue; no numeric prediction possible, keyed per ray by that predicate)',
]
ANCHORS = [('optiland.jones', 'JonesFresnel.calculate_matrix'),
           ('optiland.rays.polarized_rays', 'PolarizedRays.update'),
           ('optiland.rays.polarized_rays', 'PolarizedRays.update_intensity'),
           ('optiland.rays.polarized_rays', 'PolarizedRays.get_output_field'),
           ('optiland.rays.polarized_rays', 'PolarizedRays._get_3d_electric_field'),
           ('optiland.coatings', 'BaseCoating._compute_aoi'),
           ('optiland.coatings', 'BaseCoatingPolarized.transmit'),
           ('optiland.coatings', 'BaseCoatingPolarized.reflect'),
           ('optiland.coatings', 'SimpleCoating.transmit'),
           ('optiland.jones', 'JonesLinearDiattenuator.calculate_matrix'),
           ('optiland.jones', 'JonesLinearRetarder.calculate_matrix'),
           ('optiland.jones', 'JonesPolarizerH.calculate_matrix'),
           ('optiland.jones', 'JonesPolarizerV.calculate_matrix'),
           ('optiland.jones', 'JonesPolarizerL45.calculate_matrix'),
           ('optiland.jones', 'JonesPolarizerL135.calculate_matrix'),
           ('optiland.jones', 'JonesPolarizerRCP.calculate_matrix'),
           ('optiland.jones', 'JonesPolarizerLCP.calculate_matrix')]

TOL = 1e-12
COS_T_MIN = 1e-3
NOISE_C = 100.0
NAMED = ['H', 'V', 'L+45', 'L-45', 'RCP', 'LCP']
M_DIAT = 'diattenuator-offdiag-precedence'
M_TILT = 'tilted-surface-local-frame'
M_NOISE = 'near-parallel-k-noise'


# ---------------------------------------------------------------------------------------------- generation

def _singlet(**kw):
    spec = dict(obj_t='inf', obj_n='air', surfaces=[
        dict(type='standard', radius=50.0, medium={'n': 1.5}, t=5.0, stop=True),
        dict(type='standard', radius=-50.0, medium='air', t=47.0),
        dict(type='standard', radius='inf', medium='air', t=0.0)],
        wavelengths=[[0.55, True]], telecentric=False, polarization='ignore', field_type='angle',
        aperture=['EPD', 10.0], fields=[[0.0, 0.0, 0.0], [5.0, 0.0, 0.0]])
    if 'image_radius' in kw:
        spec['surfaces'][2]['radius'] = kw['image_radius']
    if 'rx' in kw:
        spec['surfaces'][1]['rx'] = kw['rx']
    if kw.get('fresnel'):
        spec['surfaces'][0]['coating'] = spec['surfaces'][1]['coating'] = 'fresnel'
    st = [dict(is_polarized=True, Ex=1.0, Ey=0.0, phase_x=0.0, phase_y=0.0, gamma=0.0),
          dict(is_polarized=True, Ex=0.6, Ey=0.8, phase_x=0.3, phase_y=-1.1, gamma=0.7),
          dict(is_polarized=True, Ex=1.0, Ey=1.0, phase_x=0.0, phase_y=math.pi / 2, gamma=0.0)]
    return dict(kind='trace', mode='coated' if kw.get('fresnel') else 'uncoated', tilted='rx' in kw, spec=spec,
                info=dict(mirrors=0, finite=False), Hx=0.0, Hy=1.0, wavelength=0.55, distribution='hexapolar',
                num_rays=3, states=st)


def fixed_cases(tier):
    """Hand-written minimal cases: a plain biconvex singlet (uncoated / Fresnel), the same with a curved image
    surface and with a tilted second surface, the diattenuator of the repository's own test, an air-glass
    Fresnel batch through Brewster's angle."""
    tb = math.atan(1.5)
    return [_singlet(), _singlet(fresnel=True), _singlet(image_radius=-40.0), _singlet(rx=0.1),
            dict(kind='element', theta=0.5, retardance=0.5, t_min=0.2, t_max=1.0, nrays=1),
            dict(kind='element', theta=0.0, retardance=math.pi / 2, t_min=0.0, t_max=1.0, nrays=1),
            dict(kind='fresnel', wavelength=0.55, pairs=[
                dict(n1=1.0, n2=1.5, aoi=[0.0, 0.3, 0.6, tb, 1.0, 1.2, 1.4, 1.5, 1.55, 1.57]),
                dict(n1=1.5, n2=1.0, aoi=[0.0, 0.1, 0.2, 0.3, 0.4, 0.5, math.atan(1 / 1.5), 0.65, 0.7, 0.729])])]


def _gen_fresnel(rng):
    pairs = []
    for _ in range(5):
        n1, n2 = (round(float(x), 6) for x in rng.uniform(1.0, 4.0, 2))
        r = rng.random()
        if r < 0.08:
            n2 = n1
        elif r < 0.16:
            n1 = 1.0
        elif r < 0.24:
            n2 = 1.0
        # keep cos(theta_t) >= COS_T_MIN (this also bounds grazing incidence when n1 ~ n2, where the
        # critical angle *is* 90 deg); otherwise any angle below 90 deg
        lim = math.asin(min(1.0, n2 / n1 * math.sqrt(1 - COS_T_MIN ** 2)))
        aoi = []
        for _ in range(10):
            r = rng.random()
            if r < 0.7:
                u = rng.random()
            elif r < 0.85:
                u = 1.0 - 10.0 ** (-rng.uniform(1, 9))
            else:
                u = 10.0 ** (-rng.uniform(1, 9))
            th = u * lim
            if n1 <= n2:
                th = min(th, math.pi / 2 * (1 - 1e-10))
            aoi.append(float(th))
        pairs.append(dict(n1=n1, n2=n2, aoi=aoi))
    case = dict(kind='fresnel', pairs=pairs, wavelength=round(float(rng.uniform(0.4, 1.0)), 4))
    if rng.random() < 0.35:
        # dispersive media and ONE bundle whose rays carry different wavelengths: the index pair is a per-ray quantity
        gp = []
        for _ in range(2):
            def medium():
                r_ = rng.random()
                if r_ < 0.3:
                    return dict(n=1.0)
                if r_ < 0.9:
                    g = L.GLASSES[int(rng.integers(len(L.GLASSES)))]
                    return dict(glass=g[0], ref=g[1])
                return dict(abbe=[round(float(rng.uniform(1.45, 1.9)), 4), round(float(rng.uniform(25, 65)), 2)])
            m1, m2 = medium(), medium()
            gp.append(dict(m1=m1, m2=m2, wls=[round(float(w), 4) for w in rng.uniform(0.4, 0.9, 8)],
                           u=[round(float(x), 6) for x in rng.uniform(0.0, 0.98, 8)]))
        case['glass_pairs'] = gp
    return case


def _gen_element(rng):
    r = rng.random()
    if r < 0.85:
        theta = float(rng.uniform(-math.pi, math.pi))
    else:
        theta = float(math.radians([0, 45, 90, 135, 180, -45, -90, 30, 60][int(rng.integers(9))]))
    r = rng.random()
    if r < 0.6:
        d = float(rng.uniform(0, 2 * math.pi))
    elif r < 0.9:
        d = float(rng.uniform(-4 * math.pi, 4 * math.pi))
    else:
        d = float([0.0, math.pi / 2, math.pi, 2 * math.pi, 1e-6][int(rng.integers(5))])
    a, b = sorted(float(x) for x in rng.uniform(0, 1, 2))
    r = rng.random()
    if r < 0.1:
        a = 0.0
    elif r < 0.2:
        b = 1.0
    elif r < 0.25:
        a = b
    return dict(kind='element', theta=theta, retardance=d, t_min=a, t_max=b, nrays=int(rng.integers(1, 5)))


def _rand_state(rng):
    st = dict(is_polarized=True, Ex=float(rng.uniform(-1, 1)), Ey=float(rng.uniform(-1, 1)),
              phase_x=float(rng.uniform(-math.pi, math.pi)), phase_y=float(rng.uniform(-math.pi, math.pi)))
    r = rng.random()
    if r < 0.1:
        st['Ex'], st['Ey'] = float(rng.uniform(0.5, 3)), 0.0     # unnormalised on purpose
    elif r < 0.2:
        st['Ex'] *= 5.0
        st['Ey'] *= 5.0
    if abs(st['Ex']) + abs(st['Ey']) < 1e-3:
        st['Ex'] = 1.0
    return st


def matched_curved(spec):
    """Indices (1-based) of curved, non-reflecting surfaces with the same medium on both sides."""
    out, prev = [], L.medium_index(spec.get('obj_n', 'air'), 0.55)
    for j, s in enumerate(spec['surfaces'], start=1):
        m = s.get('medium', 'air')
        n = prev if m == 'mirror' else L.medium_index(m, 0.55, prev)
        if m != 'mirror' and n == prev and s.get('radius', 'inf') != 'inf':
            out.append(j)
        prev = n
    return out


def _gen_trace(rng):
    mirrors_p = 0.25 if rng.random() < 0.3 else 0.0
    keep_matched = rng.random() < 0.2      # curved dummy surfaces (air|air) stay a class, not the bulk
    for _ in range(50):
        spec, info = L.gen_axial(rng, nsurf=(2, 8), mirrors_p=mirrors_p, conic_p=0.3, asphere_p=0.1, glass_p=0.0,
                                 stop='any', image='any' if rng.random() < 0.3 else 'paraxial')
        if keep_matched or not matched_curved(spec):
            break
    if rng.random() < 0.08:
        # curved image surface (a field-flattened detector): radius of the order of the back focal distance
        bfd = abs(float(spec['surfaces'][-2]['t'])) + 1.0
        spec['surfaces'][-1]['radius'] = round(float(L.loguniform(rng, 3 * bfd, 300 * bfd) * (1 if rng.random() < 0.5 else -1)), 4)
    mode = 'coated' if rng.random() < 0.5 else 'uncoated'
    optical = spec['surfaces'][:-1]
    tilted = False
    if rng.random() < 0.15:
        tilted = True
        for k in rng.choice(len(optical), size=min(len(optical), int(rng.integers(1, 3))), replace=False):
            optical[int(k)]['rx'] = round(float(rng.uniform(-0.04, 0.04)), 5)
            if rng.random() < 0.5:
                optical[int(k)]['ry'] = round(float(rng.uniform(-0.04, 0.04)), 5)
    if mode == 'coated':
        style = rng.random()
        ncoat = 0
        for s in optical:
            if s['medium'] == 'mirror':
                r = rng.random()
                if r < 0.5:
                    s['coating'] = dict(T=0.0, R=round(float(rng.uniform(0.5, 1.0)), 4))
                    ncoat += 1
                elif r < 0.65:
                    s['coating'] = 'fresnel'     # same medium on both sides of the mirror: r_s = r_p = 0
                    ncoat += 1
                continue
            r = rng.random()
            if style < 0.4 or r < 0.6:
                s['coating'] = 'fresnel'
                ncoat += 1
            elif r < 0.85:
                T = round(float(rng.uniform(0.5, 1.0)), 4)
                s['coating'] = dict(T=T, R=round(float(rng.uniform(0, 1 - T)), 4))
                ncoat += 1
        if ncoat == 0:
            for s in optical:
                if s['medium'] != 'mirror':
                    s['coating'] = 'fresnel'
                    break
            else:
                optical[0]['coating'] = dict(T=0.0, R=0.9)
    r = rng.random()
    if r < 0.3:
        Hx, Hy = 0.0, 0.0
    elif r < 0.6:
        Hx, Hy = 0.0, 1.0
    else:
        rr, ph = math.sqrt(rng.random()), rng.uniform(0, 2 * math.pi)
        Hx, Hy = round(rr * math.cos(ph), 4), round(rr * math.sin(ph), 4)
    dist, num = [('hexapolar', int(rng.integers(2, 5))), ('uniform', int(rng.integers(5, 9))),
                 ('cross', int(rng.integers(7, 16))), ('line_y', int(rng.integers(10, 21)))][
        int(rng.choice(4, p=[0.5, 0.25, 0.15, 0.1]))]
    wl = spec['wavelengths'][int(rng.integers(len(spec['wavelengths'])))][0]
    case = dict(kind='trace', mode=mode, tilted=tilted, spec=spec, info=info, Hx=Hx, Hy=Hy, wavelength=wl,
                distribution=dist, num_rays=num)
    if mode == 'uncoated':
        case['states'] = [_rand_state(rng) for _ in range(3)]
    else:
        sts = []
        for _ in range(3):
            st = _rand_state(rng)
            st['gamma'] = float(rng.uniform(-math.pi, math.pi))
            sts.append(st)
        r = rng.random()
        if r < 0.15:
            sts[0] = dict(is_polarized=True, Ex=1.0, Ey=0.0, phase_x=0.0, phase_y=0.0, gamma=0.0)
        elif r < 0.3:
            sts[0] = dict(is_polarized=True, Ex=1.0, Ey=1.0, phase_x=0.0, phase_y=math.pi / 2, gamma=0.0)
        case['states'] = sts
    return case


def gen_case(rng, tier, i):
    r = rng.random()
    if r < 0.4:
        return _gen_fresnel(rng)
    if r < 0.7:
        return _gen_element(rng)
    return _gen_trace(rng)


# ---------------------------------------------------------------------------------------------- helpers

def _rays(n, wl=0.55):
    from optiland.rays import RealRays
    z = np.zeros(n)
    return RealRays(z.copy(), z.copy(), z.copy(), z.copy(), z.copy(), np.ones(n), np.ones(n), np.full(n, wl))


def _c(M):
    """complex array -> real array (re, im stacked) for Recorder.close."""
    M = np.asarray(M, complex)
    return np.stack([M.real, M.imag])


def _block(M):
    return np.asarray(M)[:, :2, :2]


# ---------------------------------------------------------------------------------------------- A. Fresnel

def check_fresnel(case, rec):
    from optiland.jones import JonesFresnel
    from optiland.materials import IdealMaterial
    npts = 0
    oblique = False
    for p in case['pairs']:
        n1, n2 = p['n1'], p['n2']
        aoi = np.asarray(p['aoi'], float)
        jf = JonesFresnel(IdealMaterial(n=n1), IdealMaterial(n=n2))
        rays = _rays(aoi.size, case['wavelength'])
        Mt = jf.calculate_matrix(rays, reflect=False, aoi=aoi.copy())
        Mr = jf.calculate_matrix(rays, reflect=True, aoi=aoi.copy())
        tag = f'n1={n1} n2={n2}'
        for name, idx in (('s', 0), ('p', 1)):
            R, T = O.power_RT(n1, n2, aoi, Mr[:, idx, idx], Mt[:, idx, idx])
            rec.close(f'fresnel-energy-{name}', R + T, np.ones_like(aoi), TOL,
                      scale=1.0 + 1e-3 / O.snell_cos_t(n1, n2, aoi) ** 2,
                      msg=f'R_{name}+T_{name} != 1 ({tag})', detail=dict(R=R, T=T, aoi=aoi))
        # Brewster: r_p = 0 at atan(n2/n1)
        tb = np.array([O.brewster_angle(n1, n2)])
        r1 = _rays(1, case['wavelength'])
        Mb = jf.calculate_matrix(r1, reflect=True, aoi=tb.copy())
        rec.close('fresnel-brewster', np.abs(Mb[:, 1, 1]), np.zeros(1), TOL, scale=1.0,
                  msg=f'r_p does not vanish at Brewster\'s angle ({tag})',
                  detail=dict(theta_B=tb, r_s=np.abs(Mb[:, 0, 0])))
        if n1 != n2:
            rec.cls('brewster-rs-nonzero' if abs(Mb[0, 0, 0]) > 1e-6 else 'brewster-rs-zero')
        # normal incidence
        z = np.zeros(1)
        M0t = jf.calculate_matrix(r1, reflect=False, aoi=z.copy())
        M0r = jf.calculate_matrix(r1, reflect=True, aoi=z.copy())
        R0 = O.normal_incidence_R(n1, n2)
        got = []
        for idx in (0, 1):
            R, T = O.power_RT(n1, n2, z, M0r[:, idx, idx], M0t[:, idx, idx])
            got += [float(R[0]), float(T[0])]
        rec.close('fresnel-normal', np.array(got), np.array([R0, 1 - R0, R0, 1 - R0]), TOL, scale=1.0,
                  msg=f'normal incidence (R_s,T_s,R_p,T_p) vs ((n1-n2)/(n1+n2))^2 ({tag})')
        npts += 2 * aoi.size + 4
        oblique = oblique or bool(np.any(aoi > math.radians(20)))
        rec.cls('fresnel-n1<n2' if n1 < n2 else 'fresnel-n1>n2(TIR-limited)' if n1 > n2 else 'fresnel-n1==n2')
        if np.any(aoi > math.radians(85)):
            rec.cls('fresnel-grazing(>85deg)')
        if n1 > n2 and np.any(O.snell_cos_t(n1, n2, aoi) < 0.05):
            rec.cls('fresnel-near-critical(cos_t<0.05)')
    for gp in case.get('glass_pairs', []):
        from optiland.rays import RealRays
        m1, m2 = L.make_material(gp['m1']), L.make_material(gp['m2'])
        wls = np.asarray(gp['wls'], float)
        # per-ray indices from the library's own material objects (C18 judges those), one wavelength at a time
        n1 = np.array([float(np.ravel(m1.n(float(w)))[0]) for w in wls])
        n2 = np.array([float(np.ravel(m2.n(float(w)))[0]) for w in wls])
        lim = np.arcsin(np.minimum(1.0, n2 / n1 * math.sqrt(1 - COS_T_MIN ** 2)))
        aoi = np.minimum(np.asarray(gp['u'], float) * lim, math.pi / 2 * (1 - 1e-6))
        n = wls.size
        z = np.zeros(n)
        rays = RealRays(z.copy(), z.copy(), z.copy(), z.copy(), z.copy(), np.ones(n), np.ones(n), wls.copy())
        jf = JonesFresnel(m1, m2)
        Mt = jf.calculate_matrix(rays, reflect=False, aoi=aoi.copy())
        Mr = jf.calculate_matrix(rays, reflect=True, aoi=aoi.copy())
        M0t = jf.calculate_matrix(rays, reflect=False, aoi=z.copy())
        M0r = jf.calculate_matrix(rays, reflect=True, aoi=z.copy())
        tag = f"{gp['m1']} -> {gp['m2']}, one bundle with wavelengths {gp['wls']}"
        R0 = O.normal_incidence_R(n1, n2)
        for name, idx in (('s', 0), ('p', 1)):
            R, T = O.power_RT(n1, n2, aoi, Mr[:, idx, idx], Mt[:, idx, idx])
            rec.close(f'fresnel-energy-{name}', R + T, np.ones(n), TOL, scale=1.0 + 1e-3 / O.snell_cos_t(n1, n2, aoi) ** 2,
                      msg=f'R_{name}+T_{name} != 1 ({tag})', detail=dict(R=R, T=T, aoi=aoi, n1=n1, n2=n2))
            R, T = O.power_RT(n1, n2, z, M0r[:, idx, idx], M0t[:, idx, idx])
            rec.close('fresnel-normal', np.concatenate([R, T]), np.concatenate([R0, 1 - R0]), TOL, scale=1.0,
                      msg=f'normal incidence (R_{name},T_{name}) vs ((n1-n2)/(n1+n2))^2 per ray ({tag})',
                      detail=dict(n1=n1, n2=n2))
        rec.cls('fresnel-dispersive-mixed-wavelength-bundle')
        rec.event('fresnel_points', 4 * n)
    rec.event('fresnel_points', npts)
    if oblique:
        rec.nontrivial_case()
    rec.sample(dict(family='fresnel', pair=case['pairs'][0]))


# ---------------------------------------------------------------------------------------------- C. elements

_SENSE = {}


def rotation_sense():
    """Sense of element angles, anchored on the library's NAMED linear polarizers (the only elements whose angle is
    part of their name): +1 if P_L45 == R(+45 deg) P_H R(-45 deg), i.e. angles run from +x towards +y, -1 for the
    opposite sense, 0 if the named polarizers are not rotations of each other (judged by the polarizer clauses).
    Retarders and the diattenuator are then required to turn the same way."""
    if 'v' not in _SENSE:
        from optiland.jones import JonesPolarizerH, JonesPolarizerL45
        r = _rays(1)
        PH = _block(JonesPolarizerH().calculate_matrix(r))[0]
        P45 = _block(JonesPolarizerL45().calculate_matrix(r))[0]
        ep = np.max(np.abs(P45 - O.rotated(PH, math.pi / 4, 1)))
        em = np.max(np.abs(P45 - O.rotated(PH, math.pi / 4, -1)))
        _SENSE['v'] = 1 if (ep < 1e-9 < em) else (-1 if (em < 1e-9 < ep) else 0)
    return _SENSE['v']


def check_element(case, rec):
    from optiland import jones as J
    from optiland.rays import create_polarization
    n = case['nrays']
    rays = _rays(n)
    theta, d, tmin, tmax = case['theta'], case['retardance'], case['t_min'], case['t_max']
    I2 = np.eye(2)
    sq = math.sqrt(0.5)
    nmat = 0

    # --- polarizers
    stated = {'H': [np.array([1, 0])], 'V': [np.array([0, 1])],
              'L45': [np.array([sq, sq])], 'L135': [np.array([sq, -sq])],
              'RCP': [np.array([sq, -1j * sq]), np.array([sq, 1j * sq])],
              'LCP': [np.array([sq, 1j * sq]), np.array([sq, -1j * sq])]}
    hands, P = {}, {}
    for name, cands in stated.items():
        M = _block(getattr(J, 'JonesPolarizer' + name)().calculate_matrix(rays))
        nmat += n
        P[name] = M
        rec.close('polarizer-idempotent', _c(np.matmul(M, M)), _c(M), TOL, scale=1.0, msg=f'{name}: P@P != P')
        rec.close('polarizer-hermitian', _c(M), _c(np.conj(np.swapaxes(M, 1, 2))), TOL, scale=1.0,
                  msg=f'{name}: P != P^dagger')
        sv = np.linalg.svd(M, compute_uv=False)
        ratio = float(np.max(sv[:, 1] / np.maximum(sv[:, 0], 1e-300)))
        rec.check('polarizer-rank1', bool(ratio <= TOL and np.all(sv[:, 0] > 1e-6)), resid=ratio, tol=TOL,
                  msg=f'{name}: singular values {sv[0]} (rank != 1)')
        res = [float(np.max(np.abs(np.matmul(M, e.astype(complex)) - e))) for e in cands]
        k = int(np.argmin(res))
        hands[name] = k
        rec.check('polarizer-passes-own-state', res[k] <= TOL, resid=res[k], tol=TOL,
                  msg=f'{name}: P e != e for the stated state {cands[0]}', detail=dict(P=_c(M[0]), resid=res))
    # circular pair: each other's orthogonal complement, whatever the handedness convention
    rec.close('polarizer-circular-complementary', _c(P['RCP'] + P['LCP']), _c(np.tile(I2, (n, 1, 1))), TOL, scale=1.0,
              msg='P_RCP + P_LCP != I (not orthogonal complements)')
    rec.check('polarizer-circular-complementary', hands['RCP'] == hands['LCP'],
              msg='RCP and LCP polarizers pass the same circular state')
    # information only: does the polarizer naming agree with create_polarization's naming?
    for pname, sname in (('H', 'H'), ('V', 'V'), ('L45', 'L+45'), ('L135', 'L-45'), ('RCP', 'RCP'), ('LCP', 'LCP')):
        st = create_polarization(sname)
        e = O.jones_vector(dict(Ex=st.Ex, Ey=st.Ey, phase_x=st.phase_x, phase_y=st.phase_y))
        ok = np.max(np.abs(P[pname][0] @ e - e)) < 1e-9
        rec.cls(f'polarizer-{pname}-{"passes" if ok else "does-not-pass"}-create_polarization({sname})')

    # --- retarders
    sense = rotation_sense()
    rec.cls(f'rotation-sense-of-named-polarizers-{"ccw" if sense > 0 else "cw" if sense < 0 else "undetermined"}')
    if sense == 0:
        rec.check('rotation-covariance', False, msg='the named polarizers L45 and H are not rotations of each other by 45 deg')
        sense = 1
    fams = [('linear', lambda t: J.JonesLinearRetarder(d, t), d),
            ('quarter', lambda t: J.JonesQuarterWaveRetarder(t), math.pi / 2),
            ('half', lambda t: J.JonesHalfWaveRetarder(t), math.pi)]
    for fam, make, ret in fams:
        U = _block(make(theta).calculate_matrix(rays))
        U0 = _block(make(0.0).calculate_matrix(rays))
        nmat += 2 * n
        rec.close('retarder-unitary', _c(np.matmul(np.conj(np.swapaxes(U, 1, 2)), U)), _c(np.tile(I2, (n, 1, 1))),
                  TOL, scale=1.0, msg=f'{fam} retarder: U^dagger U != I')
        mis = max(O.retardance_mismatch(U[i], ret) for i in range(n))
        rec.check('retarder-retardance', mis <= TOL, resid=mis, tol=TOL,
                  msg=f'{fam} retarder: eigenphase difference differs from the stated retardance {ret!r} by {mis:.3e}',
                  detail=dict(U=_c(U[0])))
        want = np.stack([O.rotated(U0[i], theta, sense) for i in range(n)])
        rec.close('rotation-covariance', _c(U - want), _c(np.zeros_like(U)), TOL, scale=1.0,
                  msg=f'{fam} retarder: M(theta) != R(theta) M(0) R(-theta)')

    # --- diattenuator
    D = _block(J.JonesLinearDiattenuator(tmin, tmax, theta).calculate_matrix(rays))
    D0 = _block(J.JonesLinearDiattenuator(tmin, tmax, 0.0).calculate_matrix(rays))
    nmat += 2 * n
    ab_t, ab_0 = O.diattenuator_asbuilt(tmin, tmax, theta), O.diattenuator_asbuilt(tmin, tmax, 0.0)
    tile = lambda A: np.tile(A, (n, 1, 1))
    fl = (M_DIAT,)
    rec.close('diattenuator-theta0-diagonal', _c(D0), _c(tile(np.diag([tmax, tmin]))), TOL, scale=1.0,
              alt=_c(tile(ab_0)), flags=fl, msg='diattenuator at theta=0 is not diag(t_max, t_min)')

    def eig_sorted(A):
        if np.max(np.abs(A - A.conj().T)) <= 1e-15:       # Hermitian: well-conditioned eigenvalues
            ev = np.linalg.eigvalsh(A).astype(complex)
        else:
            ev = np.linalg.eigvals(A)
        ev = ev[np.argsort(ev.real)]
        return np.concatenate([ev.real, ev.imag])
    rec.close('diattenuator-eigenvalues', np.stack([eig_sorted(D[i]) for i in range(n)]),
              np.tile(np.array([tmin, tmax, 0.0, 0.0]), (n, 1)), TOL, scale=1.0, alt=np.tile(eig_sorted(ab_t), (n, 1)), flags=fl,
              msg='diattenuator eigenvalues are not (t_min, t_max)')
    want = np.stack([O.rotated(D0[i], theta, sense) for i in range(n)])
    rec.close('rotation-covariance', _c(D - want), _c(np.zeros_like(D)), TOL, scale=1.0,
              alt=_c(tile(ab_t - O.rotated(ab_0, theta, sense))), flags=fl,
              msg='diattenuator: M(theta) != R(theta) M(0) R(-theta)')
    # the oracle's own statement of the element, for the sample/evidence
    rec.event('matrices', nmat)
    deg = math.degrees(theta)
    if abs(deg / 90.0 - round(deg / 90.0)) > 1e-9:
        rec.nontrivial_case()
    else:
        rec.cls('element-angle-multiple-of-90deg')
    rec.sample(dict(family='element', case=case, diattenuator_library=_c(D[0]),
                    diattenuator_expected=_c(O.diattenuator_true(tmin, tmax, theta, sense)),
                    linear_retarder_library=_c(_block(J.JonesLinearRetarder(d, theta).calculate_matrix(rays))[0])))


# ---------------------------------------------------------------------------------------------- B. traces

def _trace(lens, case, state):
    from optiland.rays import PolarizationState
    lens.set_polarization(state if isinstance(state, PolarizationState) else PolarizationState(**state))
    return lens.trace(case['Hx'], case['Hy'], case['wavelength'], num_rays=case['num_rays'],
                      distribution=case['distribution'])


def _pol_kwargs(st):
    return {k: st[k] for k in ('is_polarized', 'Ex', 'Ey', 'phase_x', 'phase_y')}


def _finite_mask(rays):
    return (np.isfinite(rays.x) & np.isfinite(rays.y) & np.isfinite(rays.z)
            & np.isfinite(rays.L) & np.isfinite(rays.M) & np.isfinite(rays.N))


def _directions(lens):
    """Ray directions recorded by the library: row 0 = launch, row j = after surface j (global frame)."""
    sg = lens.surface_group
    Ls, Ms, Ns = sg.L, sg.M, sg.N
    return [np.stack([Ls[j], Ms[j], Ns[j]], axis=1) for j in range(Ls.shape[0])]


def _noise_bound(kd, tilted_surface):
    """Per ray: the size of error that mechanism `near-parallel-k-noise` can explain.

    PolarizedRays.update normalises s = k0 x k1 unless it is *exactly* zero; the computed cross
    product carries an absolute rounding error of ~eps, so for a surface that deviates the ray by
    sin(phi) = w the s-vector is off by ~eps/w and the surface operator is non-orthogonal by that
    much.  Bound: NOISE_C * eps / min_j w_j over the surfaces with w_j > 0.  At a tilted surface the
    library forms the product in the local frame, so a recorded (global) w_j = 0 does not prove the
    local one was: w_j < 1e-15 there counts as unbounded.  Capped so that non-finite values are never
    explained."""
    n = kd[0].shape[0]
    bound = np.zeros(n)
    eps = np.finfo(float).eps
    for j in range(1, len(kd)):
        w = np.linalg.norm(np.cross(kd[j - 1], kd[j]), axis=1)
        w = np.where(np.isfinite(w), w, np.inf)
        tl = tilted_surface[j - 1] if j - 1 < len(tilted_surface) else False
        with np.errstate(all='ignore'):
            b = np.where(w > 0, NOISE_C * eps / np.maximum(w, 1e-300), 1e6 if tl else 0.0)
        bound = np.maximum(bound, np.minimum(b, 1e6))
    return bound


def _decide(rec, clause, r, fin, nbound, msg, alt_dev=None, mech_possible=False):
    """One evaluation of `clause` over the finite rays of one trace, violations split by mechanism:
    a failing ray whose value equals the tilted-frame as-built prediction -> :tilted-surface-local-frame;
    else one whose residual is within the rounding-noise bound of its flattest refraction
    -> :near-parallel-k-noise; else unexplained."""
    r = np.where(np.isfinite(r), r, np.inf)[fin]
    if r.size == 0:
        return
    nb = nbound[fin]
    fail = r > TOL
    if not fail.any():
        rec.check(clause, True, resid=float(r.max()), tol=TOL)
        return
    tilt = np.zeros_like(fail)
    if alt_dev is not None:
        ad = np.where(np.isfinite(alt_dev), alt_dev, np.inf)[fin]
        tilt = fail & (ad <= np.maximum(TOL, 1e-3 * r))      # agrees with the prediction to 0.1% of the violation
    noise = fail & ~tilt & (r <= nb)
    other = fail & ~tilt & ~noise
    for sel, key in ((tilt, f'{clause}:{M_TILT}'), (noise, f'{clause}:{M_NOISE}'),
                     (other, f'{clause}:unexplained' if (mech_possible or tilt.any() or noise.any()) else clause)):
        if sel.any():
            rec.check(clause, False, key=key, resid=float(min(r[sel].max(), 1e300)), tol=TOL,
                      msg=f'{msg}: worst {min(float(r[sel].max()), 1e300):.3e} on {int(sel.sum())} of {r.size} finite rays',
                      detail=dict(resid=r[sel][:8], noise_bound=nb[sel][:8]))


def check_trace(case, rec):
    from optiland.rays import create_polarization
    spec = dict(case['spec'])
    spec['polarization'] = _pol_kwargs(case['states'][0])
    lens = L.build(spec)
    info = case['info']
    optical = spec['surfaces'][:-1]
    nrefr = sum(1 for s in optical if s['medium'] != 'mirror')
    rec.cls(f"trace-{case['mode']}", f"trace-dist-{case['distribution']}",
            'trace-on-axis' if (case['Hx'] == 0 and case['Hy'] == 0) else 'trace-off-axis',
            f"trace-mirrors-{min(info['mirrors'], 2)}", 'trace-object-finite' if info['finite'] else 'trace-object-infinite')
    if case['tilted']:
        rec.cls('trace-tilted-surfaces')
    mc = matched_curved(spec)
    if mc:
        rec.cls('trace-curved-image-surface' if mc == [len(spec['surfaces'])] else 'trace-index-matched-curved-surface')
    nfin_min = None
    ntr = 0

    if case['mode'] == 'uncoated':
        states = [('random', _pol_kwargs(s)) for s in case['states']]
        states += [(nm, create_polarization(nm)) for nm in NAMED] + [('unpolarized', create_polarization('unpolarized'))]
        tilted_surface = [bool(s.get('rx') or s.get('ry')) for s in spec['surfaces']]
        rays = kd = fin = nbound = None
        for nm, st in states:
            rays = _trace(lens, case, st)
            ntr += rays.x.size
            fin = _finite_mask(rays)
            kd = _directions(lens)
            nbound = _noise_bound(kd, tilted_surface)
            nfin_min = int(fin.sum()) if nfin_min is None else min(nfin_min, int(fin.sum()))
            _decide(rec, 'uncoated-intensity-preserved', np.abs(np.asarray(rays.i, float) - 1.0), fin, nbound,
                    f'uncoated lens, state {nm}: |final intensity - launch intensity 1|', mech_possible=case['tilted'])
        if np.any(nbound[fin] > 1e-6):
            rec.cls('trace-has-rays-with-noise-bound>1e-6')
        # transversality of the propagated field, for both unit fields spanning the launch plane
        k_in, k_out = kd[0], np.stack([rays.L, rays.M, rays.N], axis=1)
        e1, e2 = O.transverse_basis(np.where(np.isfinite(k_in), k_in, 1.0))
        dots = []
        for e in (e1, e2):
            Eo = rays.get_output_field(e.astype(complex))
            nr = np.linalg.norm(Eo, axis=1)
            dots.append(np.sum(Eo * k_out, axis=1) / np.where(nr > 0, nr, 1.0))
        dots = np.stack(dots, axis=1)                                  # (N, 2) complex
        alt_dev = None
        if case['tilted']:
            frames = [O.local_from_global(s.get('rx', 0.0), s.get('ry', 0.0)) if t else None
                      for s, t in zip(spec['surfaces'], tilted_surface)]
            Pab = O.chain_uncoated(kd[:len(frames) + 1], frames)
            cols = []
            for e in (e1, e2):
                Eo = np.einsum('nij,nj->ni', Pab, e)
                cols.append(np.sum(Eo * k_out, axis=1) / np.linalg.norm(Eo, axis=1))
            alt_dev = np.max(np.abs(dots - np.stack(cols, axis=1)), axis=1)
        _decide(rec, 'field-transverse', np.max(np.abs(dots), axis=1), fin, nbound,
                'uncoated lens: component of the propagated field along the final ray direction, |E.k|/|E|',
                alt_dev=alt_dev, mech_possible=case['tilted'])
        rec.sample(dict(family='trace-uncoated', spec=spec, Hx=case['Hx'], Hy=case['Hy'],
                        intensity_min_max=[float(np.nanmin(rays.i)), float(np.nanmax(rays.i))],
                        max_abs_E_dot_k=float(np.nanmax(np.abs(dots))) if dots.size else None))
    else:
        ru = _trace(lens, case, create_polarization('unpolarized'))
        iu = np.array(ru.i, float)
        fin_u = _finite_mask(ru)
        ntr += ru.x.size
        last = None
        for st in case['states']:
            a = _pol_kwargs(st)
            b = O.orthogonal_state(st)
            ov = abs(np.vdot(O.jones_vector(a), O.jones_vector(b)))
            if ov > 1e-14:
                raise AssertionError(f'harness: states not orthogonal ({ov})')
            ra = _trace(lens, case, a)
            ia, fa = np.array(ra.i, float), _finite_mask(ra)
            rb = _trace(lens, case, b)
            ib, fb = np.array(rb.i, float), _finite_mask(rb)
            ntr += 2 * ra.x.size
            fin = fin_u & fa & fb
            nfin_min = int(fin.sum()) if nfin_min is None else min(nfin_min, int(fin.sum()))
            same = bool(np.array_equal(fin_u, fa) and np.array_equal(fa, fb))
            rec.check('unpolarized-is-mean', same, key='unpolarized-is-mean:finite-pattern',
                      msg='the set of finite rays differs between the three traces of the same lens')
            if fin.any():
                sc = np.maximum(1.0, np.maximum(np.abs(iu[fin]), np.maximum(np.abs(ia[fin]), np.abs(ib[fin]))))
                rec.close('unpolarized-is-mean', iu[fin], 0.5 * (ia[fin] + ib[fin]), TOL, scale=sc,
                          msg='coated lens: unpolarized intensity != mean of the intensities of two orthogonal states')
            last = (a, b, ia, ib)
        # the NAMED orthogonal pairs as well (circular states carry a relative phase of 90 deg)
        for na_, nb_ in (('H', 'V'), ('L+45', 'L-45'), ('RCP', 'LCP')):
            ra = _trace(lens, case, create_polarization(na_))
            rb = _trace(lens, case, create_polarization(nb_))
            ia, ib = np.array(ra.i, float), np.array(rb.i, float)
            ntr += 2 * ra.x.size
            fin = fin_u & _finite_mask(ra) & _finite_mask(rb)
            if fin.any():
                sc = np.maximum(1.0, np.maximum(np.abs(iu[fin]), np.maximum(np.abs(ia[fin]), np.abs(ib[fin]))))
                rec.close('unpolarized-is-mean', iu[fin], 0.5 * (ia[fin] + ib[fin]), TOL, scale=sc,
                          key=f'unpolarized-is-mean:named-pair-{na_}/{nb_}',
                          msg=f'coated lens: unpolarized intensity != mean of the intensities of the named states {na_} and {nb_}')
        cts = [('fresnel' if s.get('coating') == 'fresnel' else 'simple' if s.get('coating') else 'none') for s in optical]
        rec.cls('coat-all-fresnel' if all(c == 'fresnel' for c in cts) else
                'coat-mixed-fresnel+simple' if ('fresnel' in cts and 'simple' in cts) else
                'coat-simple-only' if 'fresnel' not in cts else 'coat-fresnel+uncoated')
        if 'simple' in cts and fin_u.any():
            # observation for the report (C16's subject, not decided here): are SimpleCoating losses visible at all?
            rec.cls('simple-coating-losses-visible' if ('fresnel' not in cts and np.nanmax(iu[fin_u]) < 1 - 1e-9)
                    else 'simple-coating-only-intensity-1' if 'fresnel' not in cts else 'simple+fresnel')
        if last is not None:
            rec.sample(dict(family='trace-coated', spec=spec, state_a=last[0], state_b=last[1],
                            unpolarized=iu[:5], i_a=last[2][:5], i_b=last[3][:5]))
    rec.event('rays_traced', ntr)
    if nrefr >= 2 and (nfin_min or 0) >= 10:
        rec.nontrivial_case()


def check_case(case, rec):
    kind = case['kind']
    rec.cls(f'family-{kind}')
    if kind == 'fresnel':
        check_fresnel(case, rec)
    elif kind == 'element':
        check_element(case, rec)
    else:
        check_trace(case, rec)
