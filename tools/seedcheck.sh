#!/bin/bash
# tools/seedcheck.sh <dir with patch.diff demo.py meta.json> <Cxx> [more Cxx...]
# Confirms a seeded break in a scratch worktree of /repo HEAD (never in /repo itself):
#   demo fails with the patch, passes without; the repository suite still passes with it;
#   then runs the named quick checks against the scratch copy and reports which fire.
# Result is appended to <dir>/confirm.log; the worktree is removed afterwards.
set -u
D=$(cd "$1" && pwd); shift
N=$(basename "$D")-$$
WT=/tmp/sc_$N
git -C /repo worktree add -q --detach "$WT" HEAD || exit 3
cd "$WT"
{
echo "== $(date -u +%FT%TZ) repo HEAD $(git -C /repo log -1 --format=%h)"
PYTHONPATH=$WT /venv/bin/python "$D/demo.py" >/dev/null 2>&1; echo "demo_without_patch_exit=$?"
if ! git apply "$D/patch.diff"; then echo "PATCH DOES NOT APPLY"; fi
PYTHONPATH=$WT /venv/bin/python "$D/demo.py" >/dev/null 2>&1; echo "demo_with_patch_exit=$?"
if [ "${SKIP_SUITE:-0}" != 1 ]; then
  PYTHONPATH=$WT /venv/bin/python -m pytest -q -p no:cacheprovider tests 2>&1 | grep -E "passed|failed" | tail -1
fi
for P in "$@"; do
  OUT=$(cd /verif && VERIF_REPO=$WT VERIF_TMP=/tmp VERIF_EVIDENCE_DIR=$WT/.ev VERIF_REPLAY_DIR=$WT/.rp ./vcheck "$P" --tier quick 2>&1 | grep -E "^VIOLATION|^INCONCLUSIVE|quick seed" | cut -c1-260)
  echo "--- $P against the patched copy:"; echo "$OUT"
done
} >> "$D/confirm.log" 2>&1
cd /; git -C /repo worktree remove --force "$WT"
tail -n 30 "$D/confirm.log"
