"""C15 -- tolerancing runs: recorded rows are reproducible on a fresh lens, the lens is restored.

For every generated tolerancing problem the library's SensitivityAnalysis / MonteCarlo is run on a lens
built from the spec; afterwards every row of get_results() is replayed on a FRESH lens built from the same
spec: the recorded perturbation values are applied through Variable(..., apply_scaling=False).update (the raw
quantity Perturbation.apply sets), the same compensation (CompensatorOptimizer with the same method / tol /
variables / operands+targets) is run, the operands are evaluated through Operand.value and compared with the
row.  The prescription (c01.snapshot through the public getters + class names of media and geometries) is
compared with the nominal one after run() and after reset().

One open defect mechanism is modelled ("as-built") on a fresh lens; only a deviation that equals the model's prediction
gets the mechanism key, anything else is the bare clause / `<clause>:unexplained`:
  index-perturbation-drops-dispersion  applying an index perturbation (set_index) replaces a catalogue glass by a constant-index
                                       IdealMaterial, even with the nominal value (nominal-perturbation clause only; model: apply
                                       it through the public setter)
Repaired since this check was built, now plain violations if they come back: MonteCarlo.run without final reset, index reset
losing the dispersion, radius reset turning a plane into an untraceable StandardGeometry(radius=inf).
"""
import math

import numpy as np

from vkit import lens as L
from vkit import monitors
from props.c01 import snapshot

ID = 'C15'
RULE = ('random small lenses (2-6 optical interfaces at their paraxial focus, EPD aperture; ideal and catalogue media, '
        'conics, even aspheres, some with tilts/decentres and xy-polynomial / Chebyshev surfaces) x operand sets '
        '(1-4 of f2/F2/EPL/XPL, real-ray x/y intercepts, rms spot size mono/polychromatic, OPD difference, Seidel terms '
        'and sums; targets = nominal values, sometimes 0 for spot size / OPD; a fifth of the normal runs and five fixed cases: image height of an axial zone/rim ray with an explicit target of exactly 0 / 0.0 / nominal +- a small offset under ONE image-distance compensator; a quarter of the distribution samplers seeded with 0) x perturbation sets (1-4 of radius, conic, thickness, index, '
        'asphere_coeff, tilt, decenter, polynomial_coeff, chebyshev_coeff; Range samplers for SensitivityAnalysis, '
        'Scalar / Range / Distribution normal & uniform, seeded, for MonteCarlo) x compensation (none, or thickness of '
        'the last gap with the generic / least-squares optimiser) x 1-20 trials; families: normal, nominal (every sampled '
        'value = nominal), extreme (tilt / radius so that rays fail), failpoint (NaN injected into Paraxial.f2 at chosen '
        'evaluations); non-trivial = (>= 2 perturbations or >= 5 rows) and an operand column that is not constant; '
        'distinct = distinct case hash')
TIERS = {'quick': dict(shards=16, cases=2, budget_s=240), 'thorough': dict(shards=16, cases=150, budget_s=440)}
MIN_NONTRIVIAL = {'quick': 15, 'thorough': 250}
MIN_EVALS = {
    'row-reproduced': {'quick': 150, 'thorough': 3000},
    'row-consistent-with-recorded-compensation': {'quick': 20, 'thorough': 500},
    'nominal-perturbation-reproduces-nominal': {'quick': 10, 'thorough': 150},
    'seeded-run-reproducible': {'quick': 15, 'thorough': 300},
    'lens-restored-after-run': {'quick': 25, 'thorough': 400},
    'lens-restored-after-reset': {'quick': 25, 'thorough': 400},
    'operands-restored-after-reset': {'quick': 25, 'thorough': 400},
    'sampler-contract': {'quick': 100, 'thorough': 2000},
    'table-layout': {'quick': 25, 'thorough': 400},
    'fault-run-completes': {'quick': 4, 'thorough': 60},
    'fault-row-records-nan': {'quick': 2, 'thorough': 20},
    'operand-target-stored': {'quick': 200, 'thorough': 3000},
}
ASSUMPTIONS = [
    'the fresh lens is built from the JSON spec through the public add_surface API (vkit.lens.build), never by copying the live lens',
    'a recorded perturbation value is the raw quantity Perturbation.apply hands to Variable(apply_scaling=False).update; '
    'a recorded compensator value is Variable.value of the (scaled) compensator variable',
    'the replayed compensation uses the library optimiser (CompensatorOptimizer.run) on the fresh lens: the optimiser itself is '
    'C14\'s subject; what is decided here is that the row is a function of (nominal lens, recorded values) only',
    'tolerances: 1e-10*max(1,|v|) without compensators (same arithmetic on a lens whose vertices differ in the last bit), '
    '1e-6*max(1,|v|) with compensators; OPD operands get + 1e3*eps*(track length / wavelength) waves because an OPD is a '
    'difference of optical paths of that many waves; restore clauses 1e-12*max(1,|x|)',
    'a compensated row that does not reproduce within 1e-6 is probed: the fresh replay is repeated with the optimiser start moved by '
    '+-2e-15 and 1.6e-14 (relative, a few ulp = the size of the legitimate last-bit differences between the live and the fresh lens); '
    'if that alone moves an operand by more than 1e-7 the re-optimised comparison is undecidable at 1e-6, the row is counted as '
    '`compensated-row-ill-conditioned-undecided` and decided only by row-consistent-with-recorded-compensation (1e-9, no optimiser)',
    'row-consistent-with-recorded-compensation reads "the same compensation" as the recorded compensator values: recorded perturbation + '
    'recorded compensator values applied to a fresh lens give the recorded operands (auxiliary tight form of row-reproduced)',
    'the nominal-perturbation clause is a verdict for uncompensated runs only (with compensation the optimiser may legitimately stop a '
    'finite-difference step away from the nominal state); its operands are compared with those of a fresh nominal lens',
    'NaN is injected with vkit.monitors.Failpoint on Paraxial.f2 (called once per evaluation of an f2 operand under an EPD aperture)',
]
ANCHORS = [('optiland.tolerancing.core', 'Tolerancing.reset'), ('optiland.tolerancing.core', 'Tolerancing.evaluate'),
           ('optiland.tolerancing.core', 'Tolerancing.apply_compensators'),
           ('optiland.tolerancing.perturbation', 'Perturbation.apply'), ('optiland.tolerancing.perturbation', 'Perturbation.reset'),
           ('optiland.optimization.variable.variable', 'Variable.reset'),
           ('optiland.tolerancing.sensitivity_analysis', 'SensitivityAnalysis.run'),
           ('optiland.tolerancing.monte_carlo', 'MonteCarlo.run'),
           ('optiland.tolerancing.perturbation', 'ScalarSampler.sample'), ('optiland.tolerancing.perturbation', 'RangeSampler.sample'),
           ('optiland.tolerancing.perturbation', 'DistributionSampler.sample'),
           ('optiland.tolerancing.compensator', 'CompensatorOptimizer.run'),
           ('optiland.optic', 'Optic.set_index'), ('optiland.tolerancing.core', 'Tolerancing.add_operand'),
           ('optiland.tolerancing.perturbation', 'DistributionSampler.__init__')]

M_SET = 'index-perturbation-drops-dispersion'      # the only open mechanism (the others found here have been repaired)
EPS = float(np.finfo(float).eps)


# ---------------------------------------------------------------------------------------------------------
# generation

def _gen_lens(rng, glass_p, asphere_p, nwl=(1, 3)):
    """gen_axial(image='paraxial') filtered to lenses whose image surface IS at the paraxial focus
    (vkit.lens.gen_axial's own 'paraxial_only' branch never accepts a candidate)."""
    for _ in range(200):
        spec, info = L.gen_axial(rng, nsurf=(2, 7), image='paraxial', ap_kinds=('EPD',), glass_p=glass_p,
                                 asphere_p=asphere_p, neg_power_p=0.0, max_field_deg=6.0, finite_p=0.35, nwl=nwl)
        P = L.psys(spec)
        ya, ua = P.marginal(L.epd_of(spec, P))
        a = spec['aperture'][1] / 2
        if abs(float(ya[-1])) <= 1e-6 * a:
            return spec, info, a
    raise RuntimeError('no lens at its paraxial focus generated')


def _nominal(spec, kind, kw):
    s = spec['surfaces'][kw['surface_number'] - 1] if kw['surface_number'] >= 1 else None
    if kind == 'radius':
        return L.fnum(s.get('radius', 'inf'))
    if kind == 'conic':
        return float(s.get('conic', 0.0))
    if kind == 'thickness':
        return float(s['t']) if s is not None else L.fnum(spec['obj_t'])
    if kind == 'index':
        return float(L.medium_index(s['medium'], kw['wavelength']))
    if kind == 'asphere_coeff':
        return float(s['coeffs'][kw['coeff_number']])
    if kind == 'tilt':
        return float(s.get('rx' if kw['axis'] == 'x' else 'ry', 0.0))
    if kind == 'decenter':
        return float(s.get('dx' if kw['axis'] == 'x' else 'dy', 0.0))
    i, j = kw['coeff_index']
    return float(s['coeffs'][i][j])


def _candidates(spec, rng, with_comp):
    K = len(spec['surfaces']) - 1          # optical interfaces 1..K, image = K+1
    wl0 = L.primary_wavelength(spec)
    out = {}

    def add(kind, **kw):
        out.setdefault(kind, []).append(kw)
    for k in range(1, K + 1):
        s = spec['surfaces'][k - 1]
        typ = s.get('type', 'standard')
        plane = typ == 'standard' and s.get('radius', 'inf') == 'inf'
        if not plane:
            add('radius', surface_number=k)
            add('conic', surface_number=k)
        elif rng.random() < 0.25:
            add('radius', surface_number=k)          # plane -> sphere and back
        if k < K or not with_comp:
            add('thickness', surface_number=k)
        if isinstance(s.get('medium'), dict):
            add('index', surface_number=k, wavelength=(wl0 if rng.random() < 0.6 else 0.55))
        if typ == 'even_asphere' and s.get('coeffs'):
            add('asphere_coeff', surface_number=k, coeff_number=int(rng.integers(len(s['coeffs']))))
        ax = 'x' if rng.random() < 0.5 else 'y'
        add('tilt', surface_number=k, axis=ax)
        add('decenter', surface_number=k, axis=('x' if rng.random() < 0.5 else 'y'))
        if typ in ('polynomial', 'chebyshev'):
            C = s['coeffs']
            add(typ + '_coeff', surface_number=k, coeff_index=[int(rng.integers(len(C))), int(rng.integers(len(C[0])))])
    if spec['obj_t'] != 'inf' and rng.random() < 0.3:
        add('thickness', surface_number=0)
    return out


def _spread(rng, spec, kind, kw, nom, a):
    if kind == 'radius':
        if math.isinf(nom):
            return None
        return abs(nom) * L.loguniform(rng, 0.002, 0.03)
    if kind == 'conic':
        return L.loguniform(rng, 0.01, 0.2)
    if kind == 'thickness':
        return abs(nom) * L.loguniform(rng, 0.01, 0.1)
    if kind == 'index':
        return L.loguniform(rng, 0.0005, 0.01)
    if kind == 'asphere_coeff':
        return abs(nom) * L.loguniform(rng, 0.05, 0.5) if nom != 0 else 0.002 / a ** (2 * kw['coeff_number'] + 1)
    if kind == 'tilt':
        return L.loguniform(rng, 0.001, 0.02)
    if kind == 'decenter':
        return a * L.loguniform(rng, 0.005, 0.05)
    return abs(nom) * 0.2 + 1e-5


def _sampler(rng, family, nom, d, a, seed_base, short=False, force_seed0=False):
    """JSON description of a sampler around the nominal value."""
    if d is None:        # plane: radius samples far from flat but finite
        lo, hi = sorted([float(a * L.loguniform(rng, 200, 2000)), float(a * L.loguniform(rng, 200, 2000))])
        sg = 1.0 if rng.random() < 0.5 else -1.0
        lo, hi = sg * lo, sg * hi
        nomv, d = 0.5 * (lo + hi), 0.5 * abs(hi - lo)
    else:
        nomv = nom
    kinds = ['range'] if family == 'SA' else ['normal', 'uniform'] if force_seed0 else ['scalar', 'range', 'normal', 'uniform']
    t = kinds[int(rng.integers(len(kinds)))]
    if t == 'scalar':
        return dict(type='scalar', value=float(nomv + d * rng.uniform(-1, 1)))
    if t == 'range':
        steps = int(rng.integers(2, (8 if family == 'SA' else 6) if not short else 5))
        if rng.random() < 0.3:
            return dict(type='range', start=float(nomv), end=float(nomv + d * (1 if rng.random() < 0.5 else -1)), steps=steps)
        return dict(type='range', start=float(nomv - d), end=float(nomv + d), steps=steps)
    u = rng.random()
    seed = 0 if (u < 0.25 or force_seed0) else int(seed_base + rng.integers(0, 10000)) if u < 0.92 else None      # seed 0 is a seed
    if t == 'normal':
        return dict(type='normal', loc=float(nomv), scale=float(d / 2), seed=seed)
    return dict(type='uniform', low=float(nomv - d), high=float(nomv + d), seed=seed)


def _operand_menu(rng, spec, need_ray, with_comp):
    wl0 = L.primary_wavelength(spec)
    nf = len(spec['fields'])
    fmax = max(f[0] for f in spec['fields'])
    hys = [0.0] + ([0.7, 1.0] if fmax > 0 else [])
    finite = spec['obj_t'] != 'inf'

    def hy():
        return float(hys[int(rng.integers(len(hys)))])
    par = [dict(type=t, kw={}) for t in ('f2', 'F2', 'EPL', 'XPL')] + ([dict(type='magnification', kw={})] if finite else [])
    ray = [
        lambda: dict(type='real_y_intercept', kw=dict(surface_number=-1, Hx=0.0, Hy=hy(), Px=0.0,
                                                      Py=float(rng.choice([0.0, 0.5, 0.8, -0.7])), wavelength=wl0)),
        lambda: dict(type='real_x_intercept', kw=dict(surface_number=-1, Hx=0.0, Hy=hy(), Px=float(rng.choice([0.6, -0.4])),
                                                      Py=0.0, wavelength=wl0)),
        lambda: dict(type='rms_spot_size', kw=dict(surface_number=-1, Hx=0.0, Hy=hy(), num_rays=int(rng.integers(3, 6)),
                                                   wavelength=('all' if rng.random() < 0.4 else wl0), distribution='hexapolar')),
        lambda: dict(type='OPD_difference', kw=dict(Hx=0.0, Hy=hy(), num_rays=int(rng.integers(2, 5)), wavelength=wl0,
                                                    distribution='gaussian_quad')),
    ]
    ab = [lambda: dict(type='seidel', kw=dict(seidel_number=int(rng.integers(1, 6)))),
          lambda: dict(type=str(rng.choice(['TSC_sum', 'CC_sum', 'TAC_sum', 'PC_sum', 'DC_sum', 'LchC_sum'])), kw={})]
    n = int(rng.integers(1, 5))
    ops = []
    if need_ray or with_comp or rng.random() < 0.7:
        ops.append(ray[int(rng.integers(len(ray)))]())
    while len(ops) < n:
        r = rng.random()
        if r < 0.35:
            ops.append(dict(par[int(rng.integers(len(par)))]))
        elif r < 0.8:
            ops.append(ray[int(rng.integers(len(ray)))]())
        else:
            ops.append(ab[int(rng.integers(len(ab)))]())
    for o in ops:
        o['weight'] = float(rng.choice([1.0, 1.0, 2.0, 0.5]))
        o['target'] = None
    return ops


FIXED = [(m, f, g) for m in ('normal', 'nominal', 'extreme', 'failpoint') for f in ('SA', 'MC') for g in (False,)] + \
        [('normal', 'SA', True), ('normal', 'SA', True), ('normal', 'MC', True), ('nominal', 'MC', True), ('nominal', 'SA', True)] + \
        [('normal', 'SA', 'plane'), ('normal', 'MC', 'plane')] + \
        [('normal', 'SA', 'targets'), ('normal', 'MC', 'targets'), ('normal', 'MC', 'targets'), ('normal', 'MC', 'seed0'),
         ('normal', 'MC', 'seed0')]


def fixed_cases(tier):
    """One deterministic case per (mode, family) + index perturbations on catalogue glasses: every clause is exercised in
    every tier whatever VERIF_SEED is."""
    out = []
    for j, (m, f, g) in enumerate(FIXED):
        rng = np.random.default_rng([15, j])
        c = None
        while c is None:
            c = gen_case(rng, tier, j, mode=m, family=f, index_on_glass=(g is True), radius_on_plane=(g == 'plane'),
                         explicit_targets=(True if g == 'targets' else False if g else None), seed0=(g == 'seed0'))
        c['fixed'] = j
        out.append(c)
    return out


def gen_case(rng, tier, i, mode=None, family=None, index_on_glass=None, radius_on_plane=False, explicit_targets=None,
             seed0=False):
    r = rng.random()
    mode = mode or ('normal' if r < 0.66 else 'nominal' if r < 0.78 else 'extreme' if r < 0.90 else 'failpoint')
    family = family or ('SA' if rng.random() < 0.45 else 'MC')
    glass_p = 0.5 if (rng.random() < 0.4 or index_on_glass) else 0.0
    if index_on_glass is None:
        index_on_glass = glass_p > 0 and rng.random() < 0.5
    while True:
        spec, info, a = _gen_lens(rng, glass_p, asphere_p=(0.4 if rng.random() < 0.4 else 0.0),
                                  nwl=((2, 3) if index_on_glass else (1, 3)))
        if not radius_on_plane or any(s_.get('radius', 'inf') == 'inf' for s_ in spec['surfaces'][:-1]):
            break
    classes = []
    if rng.random() < 0.35:
        classes = L.decorate(spec, rng, a, tilt_p=0.35, decenter_p=0.35,
                             freeform_p=(0.3 if rng.random() < 0.5 and mode != 'extreme' else 0.0), big_tilt_p=0.0)
        for s_ in spec['surfaces']:
            if s_.get('type') == 'chebyshev':
                # the Chebyshev geometry raises outside |x/norm| <= 1 (documented): keep every ray well inside
                s_['norm'] = [float(round(100 * a, 3))] * 2
    K = len(spec['surfaces']) - 1
    with_comp = bool(rng.random() < (0.4 if mode in ('normal', 'extreme') else 0.25 if mode == 'nominal' else 0.3))
    if explicit_targets is None:
        explicit_targets = bool(mode == 'normal' and rng.random() < 0.2)
    if explicit_targets:
        with_comp = True            # an explicit target is observable in a row only through the compensation
    cands = _candidates(spec, rng, with_comp)
    kinds = sorted(cands)
    nper = int(rng.integers(1, 5))
    perts, used = [], set()
    seed_base = int(rng.integers(0, 2 ** 20))
    forced = []
    if index_on_glass:
        gl = [kw for kw in cands.get('index', []) if 'glass' in spec['surfaces'][kw['surface_number'] - 1]['medium']]
        if not gl:
            return None
        forced = [('index', gl[int(rng.integers(len(gl)))])]
        nper = max(nper, 2)
    if radius_on_plane:
        pl = [k for k, s_ in enumerate(spec['surfaces'][:-1], start=1) if s_.get('radius', 'inf') == 'inf']
        forced = [('radius', dict(surface_number=pl[int(rng.integers(len(pl)))]))]
        nper = max(nper, 2)
    for _ in range(nper * 3):
        if len(perts) >= nper:
            break
        if forced:
            kind, kw = forced.pop()
            kw = dict(kw)
        else:
            kind = kinds[int(rng.integers(len(kinds)))]
            kw = dict(cands[kind][int(rng.integers(len(cands[kind])))])
        ident = (kind, kw['surface_number'], kw.get('axis'), kw.get('coeff_number'), str(kw.get('coeff_index')))
        if ident in used:
            continue
        used.add(ident)
        nom = _nominal(spec, kind, kw)
        d = _spread(rng, spec, kind, kw, nom, a)
        if mode == 'nominal':
            if math.isinf(nom):
                continue
            smp = dict(type='range', start=nom, end=nom, steps=int(rng.integers(1, 4))) if family == 'SA' else \
                dict(type='scalar', value=nom)
        else:
            smp = _sampler(rng, family, nom, d, a, seed_base, short=with_comp, force_seed0=(seed0 and family == 'MC'))
        perts.append(dict(kind=kind, kw=kw, sampler=smp, nominal=nom))
    fault = None
    if mode == 'extreme':
        k = int(rng.integers(1, K + 1))
        s = spec['surfaces'][k - 1]
        if rng.random() < 0.5 or s.get('radius', 'inf') == 'inf' or any(p['kind'] == 'radius' and p['kw']['surface_number'] == k
                                                                       for p in perts):
            ax = 'x' if rng.random() < 0.5 else 'y'
            perts = [p for p in perts if not (p['kind'] == 'tilt' and p['kw']['surface_number'] == k and p['kw']['axis'] == ax)]
            kind, kw = 'tilt', dict(surface_number=k, axis=ax)
            ext = float(rng.uniform(1.25, 1.5) * (1 if rng.random() < 0.5 else -1))
        else:
            kind, kw = 'radius', dict(surface_number=k)
            ext = float(a * rng.uniform(0.2, 0.6) * (1 if rng.random() < 0.5 else -1))
        nom = _nominal(spec, kind, kw)
        if family == 'SA' or rng.random() < 0.6:
            smp = dict(type='range', start=float(nom), end=ext, steps=int(rng.integers(2, 5)))
        else:
            smp = dict(type='scalar', value=ext)
        perts.insert(int(rng.integers(len(perts) + 1)), dict(kind=kind, kw=kw, sampler=smp, nominal=nom))
        perts = perts[:5]
        if not any(p['sampler'].get('end') == ext or p['sampler'].get('value') == ext for p in perts):
            perts[-1] = dict(kind=kind, kw=kw, sampler=smp, nominal=nom)
        fault = dict(type='extreme', kind=kind, value=ext)
    if not perts:
        return None
    ops = _operand_menu(rng, spec, need_ray=(mode == 'extreme'), with_comp=with_comp)
    if index_on_glass and len(spec['wavelengths']) > 1 and rng.random() < 0.8:
        ops = ops[:3] + [dict(type='rms_spot_size', kw=dict(surface_number=-1, Hx=0.0, Hy=0.0, num_rays=3, wavelength='all',
                                                             distribution='hexapolar'), weight=1.0, target=None)]
    if mode == 'failpoint' and not any(o['type'] == 'f2' for o in ops):
        ops = [o for o in ops if o['type'] != 'f2'][:3] + [dict(type='f2', kw={}, weight=1.0, target=None)]
    if mode == 'failpoint':
        # exactly one f2 operand so that call number <-> evaluation is unambiguous
        seen = False
        keep = []
        for o in ops:
            if o['type'] == 'f2':
                if seen:
                    continue
                seen = True
            keep.append(o)
        ops = keep
    if mode == 'normal' and rng.random() < 0.2:
        for o in ops:
            if o['type'] in ('rms_spot_size', 'OPD_difference') and rng.random() < 0.6:
                o['target'] = 0.0                       # explicit target (the compensator then minimises the operand)
    if explicit_targets:
        # well-conditioned explicit targets: the image height of an axial zone/rim ray is (to first order) linear in the image
        # distance, so the ONE thickness compensator reaches a target of exactly 0, or nominal +- a small offset, at a simple root
        u = rng.random()
        off = float(a * L.loguniform(rng, 1e-4, 1e-3) * (1 if rng.random() < 0.5 else -1))
        tgt = 0 if u < 0.3 else 0.0 if u < 0.6 else dict(nominal_plus=off) if u < 0.9 else dict(nominal_plus=0.0)
        rim = dict(type='real_y_intercept', kw=dict(surface_number=-1, Hx=0.0, Hy=0.0, Px=0.0, Py=float(rng.choice([0.7, 0.85, 1.0])),
                                                    wavelength=L.primary_wavelength(spec)), weight=1.0, target=tgt)
        extra = [o for o in ops if o['type'] not in ('rms_spot_size', 'OPD_difference', 'real_y_intercept', 'real_x_intercept')][:1]
        if rng.random() < 0.3:      # a second explicit target on an operand the compensator cannot move (constant merit term)
            extra = [dict(type='f2', kw={}, weight=float(rng.choice([1e-3, 1e-2])),
                          target=(0 if rng.random() < 0.5 else dict(nominal_plus=float(rng.uniform(-0.5, 0.5)))))]
        ops = [rim] + extra if mode != 'failpoint' else ops
    if family == 'SA':
        rows = sum(p['sampler']['steps'] for p in perts)
        trials = rows
    else:
        trials = int(rng.integers(1, 21)) if not with_comp else int(rng.integers(1, 9 if tier == 'quick' else 13))
        rows = trials
    comps = []
    if with_comp:
        comps = [dict(kind='thickness', kw=dict(surface_number=K))]
    if mode == 'failpoint':
        nat = int(rng.integers(1, min(3, rows) + 1))
        at = sorted(set(int(x) for x in rng.integers(1, rows + 1, nat)))
        fault = dict(type='failpoint', at=at)
    return dict(mode=mode, family=family, spec=spec, info=info, classes=classes, operands=ops, perts=perts, comps=comps,
                method=str(rng.choice(['generic', 'least_squares'])), tol=float(rng.choice([1e-5, 1e-5, 1e-7])),
                trials=trials, fault=fault, a=a)


# ---------------------------------------------------------------------------------------------------------
# helpers on the library side

def _kw(kw):
    kw = dict(kw)
    if 'coeff_index' in kw:
        kw['coeff_index'] = tuple(kw['coeff_index'])
    return kw


def make_sampler(sd):
    from optiland.tolerancing.perturbation import ScalarSampler, RangeSampler, DistributionSampler
    t = sd['type']
    if t == 'scalar':
        return ScalarSampler(sd['value'])
    if t == 'range':
        return RangeSampler(sd['start'], sd['end'], sd['steps'])
    if t == 'normal':
        return DistributionSampler('normal', seed=sd.get('seed'), loc=sd['loc'], scale=sd['scale'])
    return DistributionSampler('uniform', seed=sd.get('seed'), low=sd['low'], high=sd['high'])


def setup_run(case, lens):
    """The library objects of one run on `lens` (operands first, then perturbations in order, then compensators)."""
    from optiland.tolerancing.core import Tolerancing
    from optiland.tolerancing.sensitivity_analysis import SensitivityAnalysis
    from optiland.tolerancing.monte_carlo import MonteCarlo
    tol = Tolerancing(lens, method=case['method'], tol=case['tol'])
    for o in case['operands']:
        tol.add_operand(o['type'], dict(optic=lens, **o['kw']), target=o['target'], weight=o['weight'])
    for p in case['perts']:
        tol.add_perturbation(p['kind'], make_sampler(p['sampler']), **_kw(p['kw']))
    for c in case['comps']:
        tol.add_compensator(c['kind'], **_kw(c['kw']))
    ana = SensitivityAnalysis(tol) if case['family'] == 'SA' else MonteCarlo(tol)
    return tol, ana


def run_it(case, ana):
    if case['family'] == 'SA':
        ana.run()
    else:
        ana.run(case['trials'])
    return ana.get_results()


def media_types(lens):
    """class names of the medium behind and of the geometry of every surface"""
    return [type(s.material_post).__name__ for s in lens.surface_group.surfaces] + \
        ['geometry:' + type(s.geometry).__name__ for s in lens.surface_group.surfaces]


def snap_vec(lens, nom_types):
    """Prescription as one vector (+ scale vector): numbers through the public getters, then per surface one entry that is
    1 when the class of the medium behind it is the nominal class and one that is 1 when the geometry class is the nominal one."""
    v, sc, lab = [], [], []
    for k, d in enumerate(snapshot(lens)):
        nums = [d['z'], d['x'], d['y'], d['rx'], d['ry'], d['radius'], 0.0 if d['conic'] is None else d['conic']]
        v += nums
        sc += [1.0] * len(nums)
        lab += [f'S{k}.{n}' for n in ('z', 'dx', 'dy', 'rx', 'ry', 'radius', 'conic')]
        if d['coeffs'] is not None:
            c = [float(x) for x in np.ravel(np.asarray(d['coeffs'], dtype=float))]
            v += c
            sc += [0.0] * len(c)            # relative to the coefficient itself (filled in by the caller)
            lab += [f'S{k}.coeff[{i}]' for i in range(len(c))]
        v += list(d['n_pre']) + list(d['n_post']) + [1.0 if d['stop'] else 0.0]
        sc += [1.0] * 7
        lab += [f'S{k}.n_before({w})' for w in (0.48, 0.55, 0.65)] + [f'S{k}.n_behind({w})' for w in (0.48, 0.55, 0.65)] + [f'S{k}.stop']
    types = media_types(lens)
    v += [1.0 if x == y else 0.0 for x, y in zip(types, nom_types)]
    sc += [1.0] * len(types)
    n = len(types) // 2
    lab += [f'S{k}.medium-class-is-{nom_types[k]}' for k in range(n)] + [f'S{k}.{nom_types[n + k]}-class-kept' for k in range(n)]
    snap_vec.labels = lab
    return np.array(v, dtype=float), np.array(sc, dtype=float)


def _vec_scale(got, want, sc):
    if got.shape != want.shape:
        return None
    m = np.maximum(np.abs(np.where(np.isfinite(want), want, 0.0)), np.abs(np.where(np.isfinite(got), got, 0.0)))
    return np.where(sc > 0, np.maximum(1.0, m), np.maximum(m, 1e-300))


# ---------------------------------------------------------------------------------------------------------
# the fresh-lens oracle

class Fresh:
    """A lens built from the spec + the tolerancing problem restated on it with public pieces only."""

    def __init__(self, case):
        from optiland.optimization.operand import Operand
        self.case = case
        self.lens = L.build(case['spec'])
        self.ops = []
        for o in case['operands']:
            op = Operand(o['type'], o['target'], o['weight'], dict(optic=self.lens, **o['kw']))
            if o['target'] is None:
                op.target = op.value           # documented default: target = value on the nominal lens
            self.ops.append(op)
        self.comp = None
        if case['comps']:
            from optiland.tolerancing.compensator import CompensatorOptimizer
            self.comp = CompensatorOptimizer(method=case['method'], tol=case['tol'])
            for c in case['comps']:
                self.comp.add_variable(self.lens, c['kind'], **_kw(c['kw']))
            self.comp.operands = self.ops

    def perturb(self, idx_values):
        from optiland.optimization.variable import Variable
        for idx, v in idx_values:
            p = self.case['perts'][idx]
            Variable(self.lens, p['kind'], apply_scaling=False, **_kw(p['kw'])).update(v)
        return self

    def compensate(self, nudge=0.0):
        """run the compensation; nudge != 0 moves the optimiser's start by that relative amount (a few ulp): used only to
        find out whether the optimisation amplifies last-bit noise beyond the tolerance (conditioning probe)"""
        if self.comp is not None:
            if nudge:
                for v in self.comp.variables:
                    x = float(v.value)
                    v.update(x + nudge * max(1.0, abs(x)))
            self.comp.run()
        return self

    def set_compensators(self, values):
        from optiland.optimization.variable import Variable
        for c, v in zip(self.case['comps'], values):
            Variable(self.lens, c['kind'], **_kw(c['kw'])).update(v)     # recorded value = scaled Variable.value
        return self

    def values(self):
        return np.array([float(np.ravel(np.asarray(op.value, dtype=float))[0]) for op in self.ops], dtype=float)


def pert_names(case, lens):
    from optiland.optimization.variable import Variable
    return [str(Variable(lens, p['kind'], apply_scaling=False, **_kw(p['kw'])).variable) for p in case['perts']]


def comp_names(case, lens):
    from optiland.optimization.variable import Variable
    return [f"C{i}: {str(Variable(lens, c['kind'], **_kw(c['kw'])).variable)}" for i, c in enumerate(case['comps'])]


def op_names(case):
    return [f"{i}: {o['type'].replace('_', ' ')}" for i, o in enumerate(case['operands'])]


def opd_allowance(case):
    """tol*scale extra for OPD operands, as a scale term: 1e3*eps*(track/wavelength) / tol is added by the caller."""
    spec = case['spec']
    track = sum(abs(float(s.get('t', 0.0))) for s in spec['surfaces'])
    if spec['obj_t'] != 'inf':
        track += abs(float(spec['obj_t']))
    wl = min(w[0] for w in spec['wavelengths']) * 1e-3
    return 1e3 * EPS * track / wl


def op_scale(case, want, got, tol):
    sc = np.maximum(1.0, np.maximum(np.abs(np.where(np.isfinite(want), want, 0.0)), np.abs(np.where(np.isfinite(got), got, 0.0))))
    for i, o in enumerate(case['operands']):
        if o['type'] == 'OPD_difference':
            sc[i] += opd_allowance(case) / tol
    return sc


def close_mech(rec, clause, got, want, tol, scale, models, msg):
    """models: list of (flags, alt or callable -> alt) ordered from the fewest mechanisms; they are only evaluated when
    `got` differs from `want`; the first model that predicts `got` names the key, none -> `clause:unexplained`."""
    r, same = rec.resid(got, want, scale)
    if (same and r <= tol) or not models:
        return rec.close(clause, got, want, tol, scale=scale, msg=msg)
    flags = alt = None
    for flags, alt in models:
        if callable(alt):
            alt = alt()
        ra, sa = rec.resid(got, alt, scale)
        if sa and ra <= tol:
            break
    return rec.close(clause, got, want, tol, scale=scale, msg=msg, alt=alt, flags=flags)


# ---------------------------------------------------------------------------------------------------------
def sampler_contract(case, rec):
    """Direct contract of the sampler objects of this case (fresh instances)."""
    for p in case['perts']:
        sd = p['sampler']
        s = make_sampler(sd)
        if sd['type'] == 'scalar':
            got = [s.sample() for _ in range(3)]
            rec.check('sampler-contract', all(g == sd['value'] for g in got),
                      msg=f'ScalarSampler({sd["value"]}) returned {got}')
        elif sd['type'] == 'range':
            n = sd['steps']
            want = np.linspace(sd['start'], sd['end'], n)
            got = np.array([s.sample() for _ in range(2 * n + 1)], dtype=float)
            wantc = np.concatenate([want, want, want[:1]])
            rec.check('sampler-contract', bool(np.array_equal(got, wantc)) and s.size == n,
                      msg=f'RangeSampler({sd["start"]},{sd["end"]},{n}) does not cycle through linspace in order: '
                          f'got {got[:n + 2].tolist()} want {wantc[:n + 2].tolist()} size={s.size}')
        else:
            if sd.get('seed') is None:
                continue
            g1 = np.array([s.sample() for _ in range(40)], dtype=float)
            s2 = make_sampler(sd)
            g2 = np.array([s2.sample() for _ in range(40)], dtype=float)
            rec.check('sampler-contract', bool(np.array_equal(g1, g2)) and bool(np.all(np.isfinite(g1))),
                      msg=f'DistributionSampler({sd}) not reproducible for equal seeds')
            if sd['type'] == 'uniform':
                rec.check('sampler-contract', bool(np.all((g1 >= sd['low']) & (g1 <= sd['high']))),
                          msg=f'uniform sampler left [{sd["low"]},{sd["high"]}]')
                z = (np.mean(g1) - 0.5 * (sd['low'] + sd['high'])) / ((sd['high'] - sd['low']) / math.sqrt(12 * 40) + 1e-300)
            else:
                z = (np.mean(g1) - sd['loc']) / (sd['scale'] / math.sqrt(40) + 1e-300)
            # statistics are evidence, not a verdict
            rec.cls('sampler-mean-within-4-sigma' if abs(z) < 4 else 'sampler-mean-beyond-4-sigma')
            s3 = make_sampler(dict(sd, seed=sd['seed'] + 1))
            g3 = np.array([s3.sample() for _ in range(40)], dtype=float)
            rec.cls('different-seed-different-stream' if not np.array_equal(g1, g3) else 'different-seed-same-stream')


def expected_recorded(case, n_rows):
    """What the deterministic samplers must have produced, per perturbation: list of arrays (None = not predictable)."""
    out = []
    for p in case['perts']:
        sd = p['sampler']
        n = sd['steps'] if case['family'] == 'SA' else n_rows
        if sd['type'] == 'scalar':
            out.append(np.full(n, sd['value'], dtype=float))
        elif sd['type'] == 'range':
            out.append(np.resize(np.linspace(sd['start'], sd['end'], sd['steps']), n))
        else:
            out.append(None)
    return out


def table_array(df):
    cols = list(df.columns)
    num = [c for c in cols if c != 'perturbation_type']
    arr = df[num].to_numpy(dtype=float) if len(df) else np.zeros((0, len(num)))
    return cols, arr, (list(df['perturbation_type']) if 'perturbation_type' in cols else None)


def resolve_targets(case):
    """{'nominal_plus': d} -> nominal operand value (fresh nominal lens, Operand.value) + d; numbers and None stay as they are."""
    if not any(isinstance(o['target'], dict) for o in case['operands']):
        return case
    from optiland.optimization.operand import Operand
    lens = L.build(case['spec'])
    ops = []
    for o in case['operands']:
        if isinstance(o['target'], dict):
            v = float(np.ravel(np.asarray(Operand(o['type'], 0.0, 1.0, dict(optic=lens, **o['kw'])).value, dtype=float))[0])
            o = dict(o, target=v + float(o['target']['nominal_plus']))
        ops.append(o)
    return dict(case, operands=ops)


def target_stored(case, rec, nominal):
    """Tolerancing.add_operand keeps an explicit target as given (0 and 0.0 included) and replaces only None by the nominal value;
    observed at the public attributes Tolerancing.operands[i].target."""
    from optiland.tolerancing.core import Tolerancing
    t = Tolerancing(nominal.lens)
    for o, v0 in zip(case['operands'], nominal.values()):
        inp = dict(optic=nominal.lens, **o['kw'])
        xs = [0, 0.0, -0.0, float(v0), float(v0) * 1.5 + 0.123, -2.75] + ([o['target']] if o['target'] is not None else [])
        for x in xs:
            t.add_operand(o['type'], inp, target=x, weight=o['weight'])
            got = t.operands[-1].target
            rec.check('operand-target-stored', (got == x or (x != x and got != got)) and t.operands[-1].weight == o['weight'],
                      msg=f'add_operand({o["type"]!r}, target={x!r}) stored target {got!r}')
        t.add_operand(o['type'], inp, weight=o['weight'])
        got = float(np.ravel(np.asarray(t.operands[-1].target, dtype=float))[0])
        rec.check('operand-target-stored', (got == v0) or (got != got and v0 != v0) or abs(got - v0) <= 1e-12 * max(1.0, abs(v0)),
                  msg=f'add_operand({o["type"]!r}) without a target stored {got!r}, the nominal value is {v0!r}')


def check_case(case, rec):
    try:
        return _check_case(case, rec)
    except ValueError as e:
        # the Chebyshev geometry raises outside |x/norm| <= 1 (its documented precondition, not a tolerancing matter): a
        # perturbed or compensated trial - or this check's own replay of one - sent a ray outside that square
        if 'Chebyshev input coordinates' in str(e):
            rec.cls('chebyshev-out-of-norm-skipped')
            return
        raise


def _check_case(case, rec):
    case = resolve_targets(case)
    mode, family = case['mode'], case['family']
    spec = case['spec']
    nP, nO, nC = len(case['perts']), len(case['operands']), len(case['comps'])
    rec.cls(f'family-{family}', f'mode-{mode}', 'compensated' if nC else 'uncompensated',
            *(f'pert-{p["kind"]}' for p in case['perts']), *(f'sampler-{p["sampler"]["type"]}' for p in case['perts']),
            *(f'operand-{o["type"]}' for o in case['operands']), *(case.get('classes') or []),
            *([f'method-{case["method"]}'] if nC else []))
    if any(isinstance(s.get('medium'), dict) and 'glass' in s['medium'] for s in spec['surfaces']):
        rec.cls('catalogue-glass')

    sampler_contract(case, rec)

    # ---- nominal lens, nominal values -----------------------------------------------------------------
    try:
        nominal = Fresh(case)
        nom_vals = nominal.values()
    except ValueError as e:
        if 'Chebyshev input coordinates' in str(e):       # documented precondition of that geometry, not a tolerancing matter
            rec.cls('chebyshev-out-of-norm-skipped')
            return
        raise
    target_stored(case, rec, nominal)
    if any(o['target'] is not None for o in case['operands']):
        rec.cls('explicit-operand-target', *(f'target-{"zero" if o["target"] == 0 else "offset"}' for o in case['operands']
                                             if o['target'] is not None))
    if any(p['sampler'].get('seed') == 0 for p in case['perts']):
        rec.cls('sampler-seed-0')
    nom_types = media_types(nominal.lens)
    nom_vec, nom_sc = snap_vec(nominal.lens, nom_types)
    pnames = pert_names(case, nominal.lens)
    cnames = comp_names(case, nominal.lens)
    onames = op_names(case)
    dispersive_index = [j for j, p in enumerate(case['perts']) if p['kind'] == 'index' and
                        nom_types[p['kw']['surface_number']] != 'IdealMaterial']
    plane_radius = [j for j, p in enumerate(case['perts']) if p['kind'] == 'radius' and
                    nom_types[len(nom_types) // 2 + p['kw']['surface_number']] == 'geometry:Plane']
    if dispersive_index:
        rec.cls('index-perturbation-on-dispersive-medium')
    if plane_radius:
        rec.cls('radius-perturbation-on-plane')

    # ---- the library run ----------------------------------------------------------------------------
    lens = L.build(spec)
    tol, ana = setup_run(case, lens)
    fp = None
    if mode == 'failpoint':
        from optiland.paraxial import Paraxial
        fp = monitors.Failpoint(Paraxial, 'f2', case['fault']['at'], mode='nan')
    completed = True
    try:
        if fp is not None:
            with fp:
                df = run_it(case, ana)
        else:
            df = run_it(case, ana)
    except Exception as e:
        if isinstance(e, ValueError) and 'Chebyshev input coordinates' in str(e):
            rec.cls('chebyshev-out-of-norm-skipped')     # documented precondition of that geometry (a perturbed trial left it)
            return
        if mode in ('extreme', 'failpoint'):
            from vkit.runner import classify_exception
            kind, where = classify_exception(e)
            if kind != 'library':
                raise
            rec.check('fault-run-completes', False, key=f'fault-run-completes:{where}',
                      msg=f'run with an undefined operand ({case["fault"]}) raised {type(e).__name__}: {e}')
            completed = False
        else:
            raise
    if mode in ('extreme', 'failpoint') and completed:
        rec.check('fault-run-completes', True)
    if not completed:
        return
    after_run_vec, _ = snap_vec(lens, nom_types)
    cols, arr, ptypes = table_array(df)
    n_rows = len(df)
    rec.event('trials', n_rows)

    # ---- layout ---------------------------------------------------------------------------------------
    if family == 'SA':
        want_cols = ['perturbation_type', 'perturbation_value'] + onames + cnames
        want_rows = sum(p['sampler']['steps'] for p in case['perts'])
    else:
        want_cols = pnames + onames + cnames
        want_rows = case['trials']
    layout_ok = cols == want_cols and n_rows == want_rows
    if family == 'SA' and layout_ok:
        want_types = [nm for p, nm in zip(case['perts'], pnames) for _ in range(p['sampler']['steps'])]
        layout_ok = ptypes == want_types
    rec.check('table-layout', layout_ok, msg=f'results table has columns {cols} / {n_rows} rows; expected {want_cols} / {want_rows} rows'
              + (f' types {ptypes}' if family == 'SA' else ''))
    if not layout_ok:
        return
    numcols = [c for c in cols if c != 'perturbation_type']
    col = {c: arr[:, j] for j, c in enumerate(numcols)}
    op_tab = np.stack([col[c] for c in onames], axis=1) if n_rows else np.zeros((0, nO))
    comp_tab = np.stack([col[c] for c in cnames], axis=1) if nC and n_rows else np.zeros((n_rows, 0))

    def row_perts(r):
        """[(perturbation index, recorded value)] of row r."""
        if family == 'SA':
            j = 0
            acc = 0
            for j, p in enumerate(case['perts']):
                if r < acc + p['sampler']['steps']:
                    break
                acc += p['sampler']['steps']
            return [(j, float(col['perturbation_value'][r]))]
        return [(j, float(col[pnames[j]][r])) for j in range(nP)]

    # recorded values follow the deterministic samplers (sampler contract observed at the table)
    exp = expected_recorded(case, n_rows)
    acc = 0
    for j, e in enumerate(exp):
        if family == 'SA':
            got = col['perturbation_value'][acc:acc + case['perts'][j]['sampler']['steps']]
            acc += case['perts'][j]['sampler']['steps']
        else:
            got = col[pnames[j]]
        if e is not None:
            rec.check('sampler-contract', bool(np.array_equal(got, e)),
                      msg=f'recorded values of perturbation {pnames[j]} ({case["perts"][j]["sampler"]}) are {got[:6].tolist()}, '
                          f'the sampler sequence is {e[:6].tolist()}')
        elif case['perts'][j]['sampler']['type'] == 'uniform':
            sd = case['perts'][j]['sampler']
            rec.check('sampler-contract', bool(np.all((got >= sd['low']) & (got <= sd['high']))),
                      msg=f'recorded uniform samples leave [{sd["low"]},{sd["high"]}]')

    # ---- rows reproduced on a fresh lens ------------------------------------------------------------------
    tol_row = 1e-6 if nC else 1e-10
    injected = set(case['fault']['at']) if mode == 'failpoint' else set()
    f2col = [i for i, o in enumerate(case['operands']) if o['type'] == 'f2']
    n_rep = 0
    for r in range(n_rows):
        rp = row_perts(r)
        got = op_tab[r]
        inj_here = (r + 1) in injected and not nC

        def inject(v, mask):
            v = np.array(v, dtype=float)
            v[mask] = np.nan
            return v
        if not (mode == 'failpoint' and nC):
            mask = np.isin(np.arange(nO), f2col) if inj_here else np.zeros(nO, dtype=bool)
            def replay(nudge=0.0, mask=mask, rp=rp):
                return inject(Fresh(case).perturb(rp).compensate(nudge).values(), mask)
            want = replay()
            models = []
            undecided = False
            if nC:
                # Is the comparison decidable?  The library's lens at the start of a trial differs from the fresh one in the
                # last bit (vertex positions after set_thickness round trips, scaled compensator value); when the optimiser
                # amplifies a few-ulp change of its start beyond a tenth of the tolerance, "the same compensation" is not a
                # function of the recorded values at that tolerance: the row is then decided by the recorded-compensation
                # clause only and counted as undecided here.  Probed only when the row neither reproduces nor equals an
                # as-built prediction.
                sc_ = op_scale(case, want, got, tol_row)

                def agrees(v):
                    r_, same_ = rec.resid(got, v, sc_)
                    return bool(same_ and r_ <= tol_row)
                bases = [(replay, want)]
                if not any(agrees(v) for _, v in bases):
                    for fn_, base in bases:
                        for nudge in (2e-15, -2e-15, 1.6e-14):
                            rn, sn = rec.resid(fn_(nudge=nudge), base, sc_)
                            if not sn or rn > 0.1 * tol_row:
                                undecided = True
                                break
                        if undecided:
                            break
            if undecided:
                rec.cls('compensated-row-ill-conditioned-undecided')
                rec.event('rows_ill_conditioned')
            else:
                close_mech(rec, 'row-reproduced', got, want, tol_row, op_scale(case, want, got, tol_row), models,
                           msg=f'{family} row {r}: recorded operands {got.tolist()} but a fresh nominal lens with the recorded '
                               f'perturbation values {rp} ({[pnames[j] for j, _ in rp]})' + (' + compensation' if nC else '')
                               + f' gives {want.tolist()}')
                n_rep += 1
        if nC:
            # the recorded compensator state explains the recorded operands (no optimiser in the loop).  With NaN injection
            # the injected NaN may sit in the f2 column of any row (the number of evaluations inside the optimiser is not
            # part of the statement): a NaN there is accepted, their count is bounded by the injections that fired.
            mask = (np.isnan(got) & np.isin(np.arange(nO), f2col)) if mode == 'failpoint' else np.zeros(nO, dtype=bool)
            want2 = inject(Fresh(case).perturb(rp).set_compensators(comp_tab[r]).values(), mask)
            models = []
            close_mech(rec, 'row-consistent-with-recorded-compensation', got, want2, 1e-9,
                       op_scale(case, want2, got, 1e-9), models,
                       msg=f'{family} row {r}: recorded operands {got.tolist()} but the recorded perturbation {rp} + recorded '
                           f'compensator values {comp_tab[r].tolist()} on a fresh lens give {want2.tolist()}')
    if mode == 'failpoint':
        nan_rows = int(np.sum(np.isnan(op_tab[:, f2col]))) if f2col else 0
        rec.check('fault-row-records-nan', (nan_rows == len(injected)) if not nC else (nan_rows <= fp.fired),
                  msg=f'NaN injected into f2 at evaluations {sorted(injected)} ({fp.fired} fired): {nan_rows} NaN entries in the f2 column')
        rec.event('nan_injections_fired', fp.fired)
    if mode == 'extreme':
        rec.event('rows_with_nan_operand', int(np.sum(np.any(np.isnan(op_tab), axis=1))))
        if np.any(np.isnan(op_tab)):
            rec.cls('extreme-produced-nan')
    rec.event('rows_reproduced', n_rep)

    # ---- nominal perturbation -------------------------------------------------------------------------------
    if mode == 'nominal' and nC:
        # with compensation the operands return to nominal only as far as the optimiser's own stopping rule demands (it starts
        # at merit 0 and may stop a finite-difference step away): evidence, not a verdict -- these rows are decided by
        # row-reproduced / row-consistent-with-recorded-compensation
        dev = float(np.nanmax(np.abs(op_tab - nom_vals) / op_scale(case, nom_vals, op_tab[0], 1e-6))) if n_rows else 0.0
        rec.cls('nominal-compensated-within-1e-6' if dev <= 1e-6 else 'nominal-compensated-beyond-1e-6')
    if mode == 'nominal' and not nC:
        for r in range(n_rows):
            rp = row_perts(r)
            applied = [j for j in dispersive_index if j in [q for q, _ in rp]]

            def nominal_model(rp=rp):
                # `index-perturbation-drops-dispersion`: applying the (nominal) index value through the public setter makes the
                # medium of a catalogue glass constant-index
                return Fresh(case).perturb(rp).values()
            models = [((M_SET,), nominal_model)] if applied else []
            t = 1e-12
            close_mech(rec, 'nominal-perturbation-reproduces-nominal', op_tab[r], nom_vals, t,
                       op_scale(case, nom_vals, op_tab[r], t), models,
                       msg=f'{family} row {r}: every sampled value equals the nominal value {row_perts(r)} but the operands are '
                           f'{op_tab[r].tolist()}, nominal {nom_vals.tolist()}')

    # ---- non-triviality ---------------------------------------------------------------------------------------
    if n_rows >= 2 and (nP >= 2 or n_rows >= 5):
        fin = op_tab[np.all(np.isfinite(op_tab), axis=1)]
        if len(fin) >= 2:
            spread = np.max(np.abs(fin - fin[0]) / np.maximum(1e-12, np.abs(fin[0])))
            if spread > 1e-9:
                rec.nontrivial_case()
    elif nP >= 2 and n_rows >= 1 and mode != 'nominal':
        if np.any(np.abs(op_tab[0] - nom_vals) > 1e-9 * np.maximum(1e-12, np.abs(nom_vals))):
            rec.nontrivial_case()

    # ---- lens restored ---------------------------------------------------------------------------------------
    sc = _vec_scale(after_run_vec, nom_vec, nom_sc)
    close_mech(rec, 'lens-restored-after-run', after_run_vec, nom_vec, 1e-12, sc,
               [],
               msg=f'after {family}.run() the prescription differs from the nominal one: ' + _diff_text(after_run_vec, nom_vec, sc))
    tol.reset()
    after_reset_vec, _ = snap_vec(lens, nom_types)
    sc = _vec_scale(after_reset_vec, nom_vec, nom_sc)
    close_mech(rec, 'lens-restored-after-reset', after_reset_vec, nom_vec, 1e-12, sc,
               [],
               msg=f'after {family}.run() and Tolerancing.reset() the prescription differs from the nominal one: '
                   + _diff_text(after_reset_vec, nom_vec, sc))
    # operands of the restored lens (what a user sees after the run)
    after_vals = np.array([float(np.ravel(np.asarray(v, dtype=float))[0]) for v in tol.evaluate()])
    close_mech(rec, 'operands-restored-after-reset', after_vals, nom_vals, 1e-10, op_scale(case, nom_vals, after_vals, 1e-10),
               [],
               msg=f'operands evaluated on the live lens after reset() are {after_vals.tolist()}, on the nominal lens {nom_vals.tolist()}')

    # ---- seeded run reproducible ----------------------------------------------------------------------------
    seeded = all(p['sampler']['type'] in ('scalar', 'range') or p['sampler'].get('seed') is not None for p in case['perts'])
    if seeded and mode != 'failpoint':
        lens2 = L.build(spec)
        tol2, ana2 = setup_run(case, lens2)
        df2 = run_it(case, ana2)
        cols2, arr2, pt2 = table_array(df2)
        same = cols2 == cols and pt2 == ptypes and arr2.shape == arr.shape and bool(np.array_equal(arr, arr2, equal_nan=True))
        worst = float(np.nanmax(np.abs(arr - arr2))) if same is False and arr2.shape == arr.shape and arr.size else 0.0
        rec.check('seeded-run-reproducible', same,
                  msg=f'two runs built with the same sampler seeds give different tables (max abs difference {worst:.3e})')
    elif not seeded:
        rec.cls('unseeded-distribution-sampler')
    rec.sample(dict(family=family, mode=mode, perturbations=[dict(kind=p['kind'], **p['kw'], sampler=p['sampler']) for p in case['perts']],
                    operands=[o['type'] for o in case['operands']], compensators=case['comps'], method=case['method'],
                    table_columns=cols, table_head=df.head(3).to_dict(orient='records')))


def _diff_text(got, want, sc):
    if got.shape != want.shape:
        return f'vector length {got.shape} vs {want.shape}'
    with np.errstate(all='ignore'):
        d = np.abs(got - want) / sc
    d = np.where(np.isnan(d), np.where(np.isnan(got) & np.isnan(want), 0.0, np.inf), d)
    d = np.where((got == want), 0.0, d)
    idx = np.argsort(-d)[:4]
    lab = getattr(snap_vec, 'labels', [])
    return '; '.join(f'{lab[i] if i < len(lab) else int(i)}: {float(got[i])!r} vs nominal {float(want[i])!r}' for i in idx if d[i] > 1e-12)
