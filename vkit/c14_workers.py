"""C14 helpers that must be importable by worker processes.

* problem construction from a JSON case (lens spec, pickups/solves, operands, variables),
* raw (variable-independent) access to the nine quantities a Variable can name,
* a direct evaluation of every operand type through the analysis API of the lens,
* `observe_run` / `observe_undo`: run one optimiser front end with every objective evaluation logged and
  write down -- as plain numbers -- everything the C14 clauses are decided on (the judgement itself is in
  props/c14.py),
* a `__main__` entry that runs DifferentialEvolution with workers=-1 (multiprocessing; forkserver children
  re-import this module) and with workers=1, three times each, and prints the observations as JSON.

    python -m vkit.c14_workers '<json case>'
"""
import contextlib
import copy
import json
import math
import sys
import time

import numpy as np

from . import lens as L

KINDS = ('radius', 'conic', 'thickness', 'index', 'asphere_coeff', 'tilt', 'decenter', 'polynomial_coeff',
         'chebyshev_coeff')
# kinds whose scaled representation is not the identity (probed empirically by the bounds-units clause as well)
AFFINE_KINDS = ('radius', 'thickness', 'index', 'asphere_coeff')
PARAXIAL = ('f1', 'f2', 'F1', 'F2', 'P1', 'P2', 'N1', 'N2', 'EPD', 'EPL', 'XPD', 'XPL', 'magnification')
PER_SURFACE = ('TSC', 'SC', 'CC', 'TCC', 'TAC', 'AC', 'TPC', 'PC', 'DC', 'TAchC', 'LchC', 'TchC')
REAL = {'real_x_intercept': 'x', 'real_y_intercept': 'y', 'real_z_intercept': 'z', 'real_L': 'L', 'real_M': 'M',
        'real_N': 'N'}
PENALTY = 1e10


def fscalar(x):
    return float(np.ravel(np.asarray(x, dtype=float))[0])


# ---------------------------------------------------------------------------------------------------------
# variables: construction and raw access (never through optiland.optimization.variable)

def var_kwargs(vs):
    kw = dict(vs['kw'])
    if 'coeff_index' in kw:
        kw['coeff_index'] = tuple(kw['coeff_index'])
    return kw


def make_variable(lens, vs, bounded=True, scaled=None):
    from optiland.optimization.variable.variable import Variable
    return Variable(lens, vs['kind'], min_val=(vs.get('min_val') if bounded else None),
                    max_val=(vs.get('max_val') if bounded else None),
                    apply_scaling=(vs['scaled'] if scaled is None else scaled), **var_kwargs(vs))


def add_variable(problem, lens, vs):
    problem.add_variable(lens, vs['kind'], min_val=vs.get('min_val'), max_val=vs.get('max_val'),
                         apply_scaling=vs['scaled'], **var_kwargs(vs))


def raw_get(lens, vs):
    """The quantity a variable names, in lens units, read without the variable."""
    kind, kw = vs['kind'], vs['kw']
    k = kw['surface_number']
    sg = lens.surface_group
    g = sg.surfaces[k].geometry
    if kind == 'radius':
        return float(sg.radii[k])
    if kind == 'conic':
        return float(sg.conic[k])
    if kind == 'thickness':
        return fscalar(sg.get_thickness(k))
    if kind == 'index':
        return fscalar(lens.n(kw['wavelength'])[k])
    if kind == 'asphere_coeff':
        return float(g.c[kw['coeff_number']])
    if kind == 'tilt':
        return fscalar(g.cs.rx if kw['axis'] == 'x' else g.cs.ry)
    if kind == 'decenter':
        return fscalar(g.cs.x if kw['axis'] == 'x' else g.cs.y)
    i, j = kw['coeff_index']
    return float(np.asarray(g.c)[i][j])


def raw_set(lens, vs, q):
    """Set that quantity through the public Optic setters (coordinate-system / coefficient attributes where the
    Optic has no setter)."""
    kind, kw = vs['kind'], vs['kw']
    k = kw['surface_number']
    g = lens.surface_group.surfaces[k].geometry
    if kind == 'radius':
        lens.set_radius(q, k)
    elif kind == 'conic':
        lens.set_conic(q, k)
    elif kind == 'thickness':
        lens.set_thickness(q, k)
    elif kind == 'index':
        lens.set_index(q, k)
    elif kind == 'asphere_coeff':
        lens.set_asphere_coeff(q, k, kw['coeff_number'])
    elif kind == 'tilt':
        if kw['axis'] == 'x':
            g.cs.rx = q
        else:
            g.cs.ry = q
    elif kind == 'decenter':
        if kw['axis'] == 'x':
            g.cs.x = q
        else:
            g.cs.y = q
    else:
        i, j = kw['coeff_index']
        g.c[i][j] = q


def value_map(lens, vs, var, qs):
    """g: raw -> units of var.value, determined by setting the raw quantity and reading var.value."""
    keep = raw_get(lens, vs)
    out = []
    for q in qs:
        if q is None:
            out.append(None)
            continue
        raw_set(lens, vs, q)
        out.append(fscalar(var.value))
    raw_set(lens, vs, keep)
    return out


# ---------------------------------------------------------------------------------------------------------
# operands evaluated directly on the lens

def direct_metric(lens, typ, inp):
    if typ in PARAXIAL:
        return fscalar(getattr(lens.paraxial, typ)())
    if typ == 'seidel':
        return fscalar(np.ravel(lens.aberrations.seidels())[inp['seidel_number'] - 1])
    if typ in PER_SURFACE:
        return fscalar(np.ravel(getattr(lens.aberrations, typ)())[inp['surface_number']])
    if typ.endswith('_sum') and typ[:-4] in PER_SURFACE:
        return float(np.sum(getattr(lens.aberrations, typ[:-4])()))
    if typ in REAL:
        lens.trace_generic(inp['Hx'], inp['Hy'], inp['Px'], inp['Py'], inp['wavelength'])
        return float(getattr(lens.surface_group, REAL[typ])[inp['surface_number'], 0])
    if typ == 'rms_spot_size':
        sn = inp['surface_number']
        dist = inp.get('distribution', 'hexapolar')
        if inp['wavelength'] == 'all':
            xs, ys = [], []
            for w in lens.wavelengths.get_wavelengths():
                lens.trace(inp['Hx'], inp['Hy'], w, inp['num_rays'], dist)
                xs.append(np.array(lens.surface_group.x[sn, :], dtype=float).ravel())
                ys.append(np.array(lens.surface_group.y[sn, :], dtype=float).ravel())
            p = lens.wavelengths.primary_index
            cx, cy = np.mean(xs[p]), np.mean(ys[p])
            r2 = np.concatenate([(x - cx) ** 2 + (y - cy) ** 2 for x, y in zip(xs, ys)])
        else:
            lens.trace(inp['Hx'], inp['Hy'], inp['wavelength'], inp['num_rays'], dist)
            x = np.array(lens.surface_group.x[sn, :], dtype=float).ravel()
            y = np.array(lens.surface_group.y[sn, :], dtype=float).ravel()
            r2 = (x - np.mean(x)) ** 2 + (y - np.mean(y)) ** 2
        return float(np.sqrt(np.mean(r2)))
    if typ == 'OPD_difference':
        from optiland.optimization.operand.ray import RayOperand
        return fscalar(RayOperand.OPD_difference(lens, **inp))
    raise KeyError(typ)


def merit_oracle(lens, ops, with_cond=False):
    """sum_k (w_k (value_k - target_k))^2 with the operand values taken from the lens directly.
    cond = sum 2 w^2 |v - t| |v|: the change of the merit per unit RELATIVE change of the operand values (the scale on
    which two evaluations on lenses that differ by rounding can be compared when v ~ t cancels)."""
    tot = 0.0
    cond = 0.0
    terms = []
    for typ, target, weight, inp in ops:
        v = direct_metric(lens, typ, inp)
        t = (weight * (v - target)) ** 2
        terms.append(t)
        tot += t
        cond += 2 * weight ** 2 * abs(v - target) * abs(v)
    if with_cond:
        return tot, terms, (cond if math.isfinite(cond) else 0.0)
    return tot, terms


def penal(m):
    m = float(m)
    return PENALTY if math.isnan(m) else m


# ---------------------------------------------------------------------------------------------------------
# problem construction

class Ctx:
    pass


def resolve_targets(lens, operands):
    """operands: [type, ['abs', t] | ['rel', factor, offset], weight, input] -> [type, target, weight, input];
    operands whose start value is not finite (or that the library cannot evaluate on this lens) are dropped."""
    out, dropped = [], []
    for typ, tgt, w, inp in operands:
        try:
            v0 = direct_metric(lens, typ, inp)
        except Exception as e:       # the operand itself is not C14's subject
            dropped.append(f'{typ}:{type(e).__name__}')
            continue
        if not np.isfinite(v0):
            dropped.append(f'{typ}:nonfinite')
            continue
        t = float(tgt[1]) if tgt[0] == 'abs' else float(tgt[1]) * v0 + float(tgt[2])
        out.append([typ, t, float(w), inp])
    return out, dropped


def build(case):
    """lens + problem + bookkeeping from a JSON case of family 'opt' / 'merit'."""
    from optiland.optimization import OptimizationProblem
    c = Ctx()
    c.case = case
    c.lens = lens = L.build(case['spec'])
    c.pickup = case.get('pickup')
    c.solve = case.get('solve')
    if c.pickup:
        src, tgt, sc, off = c.pickup
        lens.pickups.add(src, 'radius', tgt, sc, off)
    if c.solve:
        lens.solves.add('marginal_ray_height', c.solve[0], c.solve[1])
    fe = case.get('frontend', '')
    if fe.startswith('compensator'):
        from optiland.tolerancing.compensator import CompensatorOptimizer
        c.problem = CompensatorOptimizer(method=fe.split(':')[1], tol=float(case.get('opts', {}).get('tol', 1e-5)))
    else:
        c.problem = OptimizationProblem()
    c.ops, c.dropped = resolve_targets(lens, case['operands'])
    for typ, t, w, inp in c.ops:
        c.problem.add_operand(typ, t, w, dict(inp, optic=lens))
    c.vars = case['variables']
    for vs in c.vars:
        add_variable(c.problem, lens, vs)
    c.optimizer = None
    return c


def values(problem):
    return [fscalar(v.value) for v in problem.variables]


def flat_snapshot(lens):
    """props.c01.snapshot as one numeric vector + a label 'surface.field' per entry."""
    from props.c01 import snapshot
    vec, lab = [], []
    for k, d in enumerate(snapshot(lens)):
        row = [d['z'], d['x'], d['y'], d['rx'], d['ry'], d['radius'], (0.0 if d['conic'] is None else d['conic']),
               float(d['stop'])] + list(d['n_pre']) + list(d['n_post'])
        names = ['z', 'x', 'y', 'rx', 'ry', 'radius', 'conic', 'stop', 'n_pre0', 'n_pre1', 'n_pre2', 'n_post0', 'n_post1',
                 'n_post2']
        if d['coeffs'] is not None:
            cc = [float(x) for x in np.ravel(np.asarray(d['coeffs'], dtype=float))]
            row += cc
            names += [f'c{i}' for i in range(len(cc))]
        vec += row
        lab += [f'{k}.{n}' for n in names]
    return vec, lab


def dependents(c):
    """Numbers the pickup / solve clauses are decided on, read from the lens as it is."""
    lens = c.lens
    out = {}
    if c.pickup:
        src, tgt, sc, off = c.pickup
        out['pickup'] = [float(lens.surface_group.radii[tgt]), sc * float(lens.surface_group.radii[src]) + off]
    if c.solve:
        ya, ua = lens.paraxial.marginal_ray()
        ya, ua = np.ravel(ya), np.ravel(ua)
        z = np.array([fscalar(s.geometry.cs.z) for s in lens.surface_group.surfaces[1:]], dtype=float)
        fz = z[np.isfinite(z)]
        fu = ua[np.isfinite(ua)]
        out['solve'] = [float(ya[c.solve[0]]), float(c.solve[1]), float(np.max(np.abs(ya[1:]))), float(z[c.solve[0] - 1]),
                        float(np.max(np.abs(fz))) if fz.size else 0.0, float(np.max(np.abs(fu))) if fu.size else 0.0]
    return out


@contextlib.contextmanager
def logged_fun(log, probe=None, lens=None, track=None):
    """Log every objective evaluation made in THIS process: the class attribute OptimizerGeneric._fun is
    rebound to a wrapper of the same name (so that a bound method still pickles by name for worker processes,
    which re-import the unpatched class)."""
    from optiland.optimization.optimization import OptimizerGeneric
    orig = OptimizerGeneric.__dict__['_fun']

    def _fun(self, x):
        f0 = probe() if probe else 0
        v = orig(self, x)
        f1 = probe() if probe else 0
        log.append(([float(t) for t in np.ravel(np.asarray(x, dtype=float))], float(v), f1 - f0))
        if lens is not None and track is not None:
            for sf in lens.surface_group.surfaces[1:]:
                zz = abs(fscalar(sf.geometry.cs.z))
                if math.isfinite(zz) and zz > track[0]:
                    track[0] = zz
        return v
    _fun.__qualname__ = 'OptimizerGeneric._fun'
    OptimizerGeneric._fun = _fun
    try:
        yield
    finally:
        OptimizerGeneric._fun = orig


def call_frontend(c, fe, opts):
    """-> (result, returned objective as a float)."""
    from optiland.optimization import OptimizerGeneric, LeastSquares, DualAnnealing, DifferentialEvolution
    mi = int(opts.get('maxiter', 10))
    tol = float(opts.get('tol', 1e-3))
    if fe.startswith('compensator'):
        res = c.problem.run()
        c.optimizer = None
        fun = res.fun
    elif fe.startswith('generic'):
        if c.optimizer is None:
            c.optimizer = OptimizerGeneric(c.problem)
        method = fe.split(':')[1]
        res = c.optimizer.optimize(method=(None if method == 'default' else method), maxiter=mi, disp=False, tol=tol)
        fun = res.fun
    elif fe == 'least-squares':
        if c.optimizer is None:
            c.optimizer = LeastSquares(c.problem)
        res = c.optimizer.optimize(maxiter=mi, disp=False, tol=tol)
        fun = res.fun      # least_squares is handed the scalar merit as its single residual: fun == [merit]
    elif fe == 'dual-annealing':
        if c.optimizer is None:
            c.optimizer = DualAnnealing(c.problem)
        res = c.optimizer.optimize(maxiter=mi, disp=False)
        fun = res.fun
    elif fe in ('de-1', 'de-mp'):
        if c.optimizer is None:
            c.optimizer = DifferentialEvolution(c.problem)
        res = c.optimizer.optimize(maxiter=mi, disp=False, workers=(1 if fe == 'de-1' else -1))
        fun = res.fun
    else:
        raise KeyError(fe)
    return res, fscalar(fun)


def observe_run(c, fe, opts, nan_at=None, np_seed=0):
    """One optimize() call; everything the end-state clauses need, as plain numbers."""
    lens, problem = c.lens, c.problem
    o = dict(frontend=fe)
    o['snap_before'], o['snap_labels'] = flat_snapshot(lens)
    o['x0'] = values(problem)
    o['m0'] = penal(problem.sum_squared())
    _m, _t, o['cond0'] = merit_oracle(lens, c.ops, with_cond=True)
    o['m0_oracle'] = penal(_m)
    o['bounds_given'] = [[None if b is None else float(b) for b in v.bounds] for v in problem.variables]
    # rounding sensitivity of the merit: the first objective evaluation re-sets every variable through update(value),
    # which moves the lens by rounding; the same round trip on a deep copy (index variables on catalogue glasses left
    # alone: that is not rounding) shows how far the merit moves
    o['round_sens'] = 0.0
    try:
        twin = copy.deepcopy(lens)
        for vs, xv in zip(c.vars, o['x0']):
            if vs['kind'] == 'index' and not type(twin.surface_group.surfaces[vs['kw']['surface_number']].material_post).__name__ == 'IdealMaterial':
                continue
            make_variable(twin, vs).update(xv)
        twin.update()
        m_rt = merit_oracle(twin, c.ops)[0]
        if math.isfinite(m_rt) and math.isfinite(o['m0_oracle']):
            o['round_sens'] = abs(m_rt - o['m0_oracle'])
    except Exception:
        pass
    o['raw0'] = [raw_get(lens, vs) for vs in c.vars]
    log = []
    fp = None
    track = [0.0]
    np.random.seed(int(np_seed) & 0x7FFFFFFF)
    t0 = time.time()
    err = None
    try:
        if nan_at:
            from . import monitors
            with monitors.Failpoint(lens.paraxial, 'f2', nan_at, mode='nan') as fp:
                with logged_fun(log, probe=lambda: fp.fired, lens=lens, track=track):
                    res, fun = call_frontend(c, fe, opts)
        else:
            with logged_fun(log, lens=lens, track=track):
                res, fun = call_frontend(c, fe, opts)
    except Exception as e:
        err = e
    finally:
        lens.paraxial.__dict__.pop('f2', None)      # Failpoint leaves the bound method behind as instance attribute
    o['zmax_seen'] = track[0]
    o['wall'] = time.time() - t0
    o['n_eval'] = len(log)
    o['log_head'] = log[:4]
    o['log_last'] = log[-1] if log else None
    o['log_values_minmax'] = [min(l[1] for l in log), max(l[1] for l in log)] if log else None
    o['fault_evals'] = [[i, l[1]] for i, l in enumerate(log) if l[2] > 0]
    o['fault_fired'] = fp.fired if fp is not None else 0
    o['nonfinite_objectives'] = int(sum(1 for l in log if not math.isfinite(l[1])))
    o['nan_objectives'] = int(sum(1 for l in log if math.isnan(l[1])))
    # variables that scipy ever set to a non-finite trial value
    o['nonfinite_x_vars'] = sorted(set(i for l in log for i, t in enumerate(l[0]) if not math.isfinite(t)))
    if err is not None:
        o['error'] = f'{type(err).__name__}: {err}'
        o['error_kind'] = _error_kind(err)
        o['error_tb_in_scipy'] = o['error_kind'] == 'scipy'
        o['error_obj'] = err
        return o
    o['x'] = [float(t) for t in np.ravel(res.x)]
    o['fun'] = fun
    o['nfev'] = int(getattr(res, 'nfev', -1))
    o['success'] = bool(getattr(res, 'success', True))
    xr = np.ravel(np.asarray(res.x, dtype=float))
    o['returned_point_faulted'] = bool(any(l[2] > 0 and len(l[0]) == len(xr) and np.array_equal(np.asarray(l[0]), xr, equal_nan=True) for l in log))
    o['last_eval_faulted'] = bool(log and log[-1][2] > 0)
    o['returned_fun_is_logged_value'] = bool(any(l[1] == fun for l in log))
    _vx = [l[1] for l in log if len(l[0]) == len(xr) and np.array_equal(np.asarray(l[0]), xr, equal_nan=True)]
    o['value_at_returned_x'] = (_vx[-1] if _vx else None)
    o['returned_x_evaluated'] = bool(any(len(l[0]) == len(xr) and np.array_equal(np.asarray(l[0]), xr, equal_nan=True) for l in log))
    o['returned_point_evaluated'] = bool(any(len(l[0]) == len(xr) and np.array_equal(np.asarray(l[0]), xr, equal_nan=True) and l[1] == fun for l in log))
    o['message'] = str(getattr(res, 'message', ''))[:120]
    o['values_after'] = values(problem)
    o['merit_after'] = penal(problem.sum_squared())
    _m, _t, o['cond_after'] = merit_oracle(lens, c.ops, with_cond=True)
    o['merit_after_oracle'] = penal(_m)
    o['raw_after'] = [raw_get(lens, vs) for vs in c.vars]
    o['pos_sens'] = position_rounding_sensitivity(c, o)
    o['dependents'] = dependents(c)
    o['nan_z_after'] = [k for k, sf in enumerate(lens.surface_group.surfaces) if k >= 1 and not math.isfinite(fscalar(sf.geometry.cs.z))]
    o['stack_len'] = len(c.optimizer._x) if c.optimizer is not None else None
    return o


def position_rounding_sensitivity(c, o):
    """How far the merit on the lens as left can differ from the objective scipy computed at the same x because the
    vertex positions are not a function of x alone: Optic.set_thickness and the solves ADD to the stored absolute
    positions (`positions[k+1:] += delta`, `cs.z += offset`), each such addition rounds every later z_j by up to
    u |z_j| (u = eps/2), and the additions made between that evaluation and the final apply differ from those made
    before it.  Worst case dz = (n_eval + 1) (n_thickness_variables + n_solves) u max|z visited|; the merit change is
    measured, first order, as sum_j |M(z_j + dz) - M| on a deep copy (each stored position rounds independently)."""
    lens = c.lens
    n_ops = sum(1 for vs in c.vars if vs['kind'] == 'thickness') + (1 if c.solve else 0)
    if not n_ops:
        return 0.0
    zs = [abs(fscalar(sf.geometry.cs.z)) for sf in lens.surface_group.surfaces[1:]]
    zmax = max([o.get('zmax_seen', 0.0)] + [z for z in zs if math.isfinite(z)])
    dz = (o['n_eval'] + 1) * n_ops * 0.5 * np.finfo(float).eps * zmax
    try:
        base = merit_oracle(lens, c.ops)[0]
        if not (math.isfinite(base) and dz > 0):
            return 0.0
        twin = copy.deepcopy(lens)
        tot = 0.0
        for sf in twin.surface_group.surfaces[1:]:
            z0 = sf.geometry.cs.z
            if not math.isfinite(fscalar(z0)):
                continue
            sf.geometry.cs.z = z0 + dz
            m = merit_oracle(twin, c.ops)[0]
            sf.geometry.cs.z = z0
            if math.isfinite(m):
                tot += abs(m - base)
        return tot
    except Exception:
        return 0.0


def _error_kind(e):
    """'scipy' (raised by scipy's own input checks), 'operand' (raised by the analysis code under an operand: ray
    tracing, surfaces, wavefront ...), 'optimization' (raised in optiland/optimization or /tolerancing), 'other'."""
    import traceback
    fr = traceback.extract_tb(e.__traceback__)
    if not fr:
        return 'other'
    if '/scipy/' in fr[-1].filename:
        return 'scipy'
    lib = [f for f in fr if '/optiland/' in f.filename and '/vkit/' not in f.filename and '/props/' not in f.filename]
    if lib:
        last = lib[-1].filename
        if '/optiland/optimization/' in last or '/optiland/tolerancing/' in last:
            return 'optimization'
        return 'operand'
    return 'other'


def observe_undo(c):
    """undo(); snapshots immediately before and after it."""
    o = {}
    o['snap_pre_undo'], _ = flat_snapshot(c.lens)
    c.optimizer.undo()
    o['snap_after'], o['snap_labels'] = flat_snapshot(c.lens)
    o['values_after'] = values(c.problem)
    if c.pickup or c.solve:
        twin = copy.deepcopy(c.lens)
        twin.update()
        o['snap_after_update'], _ = flat_snapshot(twin)
    o['stack_len'] = len(c.optimizer._x)
    o['dependents'] = dependents(c)
    return o


def _clean(o):
    o = dict(o)
    o.pop('error_obj', None)
    return o


def _py(o):
    """numpy -> plain Python; NaN / Infinity stay floats (json round-trips them)."""
    if isinstance(o, dict):
        return {str(k): _py(v) for k, v in o.items()}
    if isinstance(o, (list, tuple)):
        return [_py(v) for v in o]
    if isinstance(o, np.ndarray):
        return _py(o.tolist())
    if isinstance(o, (np.floating,)):
        return float(o)
    if isinstance(o, (np.integer,)):
        return int(o)
    if isinstance(o, (np.bool_,)):
        return bool(o)
    return o


def main(argv):
    case = json.loads(argv[1])
    out = dict(runs=[])
    for fe in ('de-mp', 'de-1'):
        for rep in range(int(case.get('reps', 3))):
            c = build(case)
            o = observe_run(c, fe, case.get('opts', {}), np_seed=case.get('np_seed', 0))
            u = observe_undo(c) if 'error' not in o else None
            out['runs'].append(dict(frontend=fe, rep=rep, run=_clean(o), undo=u, dropped=c.dropped, n_ops=len(c.ops)))
    sys.stdout.write('\nC14JSON:' + json.dumps(_py(out)) + '\n')


if __name__ == '__main__':
    import warnings
    warnings.filterwarnings('ignore')
    np.seterr(all='ignore')
    main(sys.argv)
