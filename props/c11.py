"""C11 -- FFT PSF, Strehl ratio, FFT MTF, geometric MTF (reference-model monitor).

The library's FFTPSF / FFTMTF / GeometricMTF are run on a lens; every observable named in the
property (psf, strehl_ratio(), mtf, max_freq, the x-data handed to matplotlib by FFTMTF.view(),
GeometricMTF.mtf / .freq / .diff_limited_mtf) is compared with vkit/oracles/dft.py:

* the complex pupil is rebuilt from a *separately computed* Wavefront with the same sampling
  (N x N grid on [-1,1]^2 masked to x^2+y^2 <= 1, phase exp(+i 2 pi W); amplitude sqrt(intensity) or,
  equally accepted because the statement does not say, the library's documented intensity/mean --
  the two differ only with absorbing glasses, and the evidence records which one fitted),
  zero-extended to grid x grid and transformed by an explicit matrix DFT (cross-checked against
  numpy.fft with a different placement of the pupil); normalisation 100 / peak of the PSF of the
  same amplitude with zero phase;
* the MTF "want" curve is the alias-free autocorrelation of that pupil (direct sums), the
  diffraction-limited curve is both that of the amplitude mask and the closed form
  (2/pi)(phi - cos phi sin phi) on nu_k/nu_c = k/(N-1) with the sampling bound 2/N
  (the oracle's own discrete curve is within 0.35/N of the closed form, within 0.96/N on k/N);
* the cut-off is 1/(lambda F#w) with the paraxial working F-number 1/(2 |n' u'|) of the ABCD
  marginal ray (vkit.lens.psys), at the lens's primary wavelength;
* the geometric MTF is |sum_j A_j exp(2 pi i nu x_j)| / sum A of the histogrammed line spread of spots
  traced separately (same field, wavelength, 'uniform' pupil), times the diffraction-limited
  curve when `scale` is requested; an unbinned variant is checked within the rigorous binning
  bound pi nu dx.

Open defect mechanisms are modelled ("as-built": the oracle re-run with the mechanism switched
on); a violation is keyed `clause:mechanism(+mechanism)` only when the library's output equals
the as-built prediction at 1e-9, otherwise `clause:unexplained` (or the bare clause when no
mechanism applies to the case).  Mechanisms and their predicates (class flags of the case only):

  mtf-circular-aliasing         FFTMTF is the FFT of a grid x grid PSF, i.e. the *circular* autocorrelation
                                of the zero-extended pupil: lag k also collects lag grid-k.  Predicate
                                grid <= 2N-3 (some reported lag k <= ceil(grid/2)-1 has grid-k <= N-1, the
                                largest lag at which an N-sample pupil overlaps itself); as-built model:
                                the column/row DFT of the oracle's grid x grid PSF
  working-fno-abs-magnification FFTMTF._get_fno: F#(1 + |m|/p) instead of F#|1 - m/p|; predicate:
                                finite object and (erect image m > 0, or m/p > 1); as-built model: that
                                formula with the ABCD m, p and |f2|/EPD; the plotted axis inherits it
                                (step 1/((N-1) lambda F#_lib))
  geometric-mtf-infinite-fno    GeometricMTF: cut-off from paraxial.FNO() (infinite-conjugate F#);
                                predicate: finite object

Repaired in /repo and therefore *not* modelled any more (a regression is a plain violation or a library
exception): psf-mask-sqrt-mismatch (0a6371c), psf-odd-padding (20bd2b8), mtf-frequency-axis-grid (6883805),
mtf-view-length-mismatch (7be2850).
"""
import math

import numpy as np

import matplotlib
matplotlib.use('Agg')

from vkit import lens as L
from vkit.oracles import dft as D

ID = 'C11'
RULE = ('per case one lens and one (pupil sampling N, grid) pair; every listed (Hy, wavelength) point of the lens is '
        'evaluated. Lenses: random axially symmetric refracting prescriptions from the constraint-based generator '
        '(2-7 interfaces, spheres/conics/planes, ideal and catalogue media, positive power, image in air at the '
        'paraxial focus, infinite and finite conjugates, EPD/imageFNO/objectNA apertures re-scaled to a working '
        'F-number in [3,12], 5% erecting relays (two singlets, real intermediate image, m > 0, f/7-f/12), fields <= 3 deg or the equivalent object height, 1-3 wavelengths), optionally defocused '
        'by 0-30 waves through the last thickness; analytically perfect systems (paraboloid mirror and plano-hyperbolic '
        'singlet k=-n^2 at infinity, ellipsoid mirror between its foci) incl. a fixed enumeration of sampling/grid '
        'parities; a few bundled samples. N uniform in 16..256 (quick 16..128), both parities; grid from '
        '{N..N+9} u {64,65,100,127,128,129,200,255,256,257,400,500,511,512,513,1000,1024,1025,2048} >= N, both parities, '
        'pixels per case capped (2048 thorough only). Family per case: PSF / FFT-MTF / geometric MTF / all three on '
        'perfect systems. Non-trivial: >= 100 pupil samples in the mask and (>= 2 powered interfaces or a perfect '
        'system); distinct = distinct case hash')
TIERS = {'quick': dict(shards=12, cases=24, budget_s=240), 'thorough': dict(shards=16, cases=150, budget_s=460)}
MIN_NONTRIVIAL = {'quick': 60, 'thorough': 800}
MIN_EVALS = {
    'psf-nonnegative': {'quick': 60, 'thorough': 1500}, 'psf-shape': {'quick': 60, 'thorough': 1500},
    'psf-equals-dft': {'quick': 60, 'thorough': 1500}, 'psf-energy-conserved': {'quick': 60, 'thorough': 1500},
    'psf-unaberrated-peak-100': {'quick': 20, 'thorough': 200},
    'strehl-le-1': {'quick': 60, 'thorough': 1500}, 'strehl-equals-centre/100': {'quick': 60, 'thorough': 1500},
    'mtf-starts-at-one': {'quick': 40, 'thorough': 1000}, 'mtf-in-0-1': {'quick': 40, 'thorough': 1000},
    'mtf-le-diffraction-limit': {'quick': 40, 'thorough': 1000},
    'mtf-perfect-pupil-formula': {'quick': 10, 'thorough': 100},
    'mtf-cutoff': {'quick': 15, 'thorough': 400}, 'mtf-frequency-axis': {'quick': 8, 'thorough': 200},
    'geometric-mtf': {'quick': 20, 'thorough': 500}, 'geometric-mtf-unbinned': {'quick': 10, 'thorough': 200},
    'geometric-mtf-diffraction-limit': {'quick': 5, 'thorough': 100},
}
ASSUMPTIONS = [
    'the wavefront samples (W in waves, intensity) come from a separately constructed optiland Wavefront with the same '
    'sampling (C09 checks W itself); pupils cut off by a physical aperture (dark samples, intensity 0) are decided in the PSF family when at least 8 % '
    'of the samples are lit, and so are pupils some of whose rays do not reach the image (non-finite samples = dark samples); the MTF '
    'and geometric families use lenses without physical apertures (dark samples there come from lost rays only; the circular closed '
    'form is then not a bound, the diffraction limit of the lit aperture is)',
    'the statement does not define the pupil amplitude in terms of ray intensity: amplitude = sqrt(intensity) (physical) '
    'and amplitude = intensity/mean (the library\'s documented `.pupils`) are both accepted when the intensity is not '
    'uniform over the pupil (absorbing catalogue glasses); the evidence classes amplitude-law-* record which one fitted',
    'phase convention exp(+i 2 pi W) and forward DFT, zero-frequency pixel at [grid//2, grid//2] (numpy fftshift '
    'convention); "central value" means that pixel',
    'psf-equals-dft: 1e-9 of the peak of the (aberrated) oracle PSF; the explicit matrix DFT and numpy.fft agree to '
    '1e-11 of the peak (self-check, raises otherwise); explicit form used when grid^2 N <= 3e8',
    'psf-energy-conserved compares sum(psf) with the oracle\'s *unaberrated* PSF summed over an array of the library\'s '
    'actual side (so that the clause measures independence of aberration only; the side itself is psf-shape)',
    'working F-number: paraxial 1/(2|n\'u\'|) of the ABCD marginal ray at the primary wavelength (the statement does not '
    'say at which wavelength; the library also uses the primary); cut-off in cycles/mm = 1000/(lambda_um F#w)',
    'true frequency of MTF sample k is k nu_c/(N-1) (N samples span the pupil diameter); tolerance 2/N relative on the '
    'axis and 2/N absolute on MTF values is the "sampling error" of the statement (oracle discrete curve: <= 0.35/N '
    'from the closed form on k/(N-1), <= 0.96/N on k/N, re-measured at run time)',
    'mtf-le-diffraction-limit is evaluated against the discrete diffraction limit of the same mask (+1e-9, exact by '
    'the triangle inequality) and against the closed form (+2/N); for GeometricMTF only when scale=True',
    'geometric MTF: np.histogram(bins=num_points+1) over [min,max] reproduces the binning rule read from the source; '
    'the Fourier modulus is the oracle\'s; the unbinned sum is compared within pi*nu*bin_width + 1e-9',
    'as-built models (see module docstring) must reproduce the library output at 1e-9 for a violation to be keyed '
    'by mechanism',
]
ANCHORS = [('optiland.psf', 'FFTPSF._generate_pupils'), ('optiland.psf', 'FFTPSF._pad_pupils'),
           ('optiland.psf', 'FFTPSF._compute_psf'), ('optiland.psf', 'FFTPSF._get_normalization'),
           ('optiland.psf', 'FFTPSF.strehl_ratio'), ('optiland.psf', 'FFTPSF._get_psf_units'),
           ('optiland.mtf', 'FFTMTF._generate_mtf_data'), ('optiland.mtf', 'FFTMTF._get_mtf_units'),
           ('optiland.mtf', 'FFTMTF._get_fno'), ('optiland.mtf', 'FFTMTF.view'),
           ('optiland.mtf', 'GeometricMTF._generate_mtf_data'), ('optiland.mtf', 'GeometricMTF._compute_field_data'),
           ('optiland.wavefront', 'Wavefront._generate_field_data')]

M_ALIAS, M_FNO, M_GEOFNO = 'mtf-circular-aliasing', 'working-fno-abs-magnification', 'geometric-mtf-infinite-fno'

GRIDS = [64, 65, 100, 127, 128, 129, 200, 255, 256, 257, 400, 500, 511, 512, 513, 1000, 1024, 1025, 2048]
BASE = dict(obj_n='air', telecentric=False, polarization='ignore')


# ---------------------------------------------------------------------------
# analytically perfect systems

def spec_paraboloid(f, epd, wl):
    return dict(BASE, obj_t='inf',
                surfaces=[dict(type='standard', radius=-2.0 * f, conic=-1.0, t=-f, medium='mirror', stop=True),
                          dict(type='standard', radius='inf', t=0.0, medium='air')],
                aperture=['EPD', epd], field_type='angle', fields=[[0.0, 0.0, 0.0]], wavelengths=[[wl, True]])


def spec_hyperbolic_singlet(f, epd, wl, n, d):
    return dict(BASE, obj_t='inf',
                surfaces=[dict(type='standard', radius='inf', t=d, medium={'n': n}, stop=True),
                          dict(type='standard', radius=-(n - 1.0) * f, conic=-n * n, t=f, medium='air'),
                          dict(type='standard', radius='inf', t=0.0, medium='air')],
                aperture=['EPD', epd], field_type='angle', fields=[[0.0, 0.0, 0.0]], wavelengths=[[wl, True]])


def spec_ellipsoid(d1, d2, epd, wl):
    a = 0.5 * (d1 + d2)
    e = abs(d1 - d2) / (d1 + d2)
    return dict(BASE, obj_t=d1,
                surfaces=[dict(type='standard', radius=-a * (1.0 - e * e), conic=-e * e, t=-d2, medium='mirror', stop=True),
                          dict(type='standard', radius='inf', t=0.0, medium='air')],
                aperture=['EPD', epd], field_type='object_height', fields=[[0.0, 0.0, 0.0]], wavelengths=[[wl, True]])


def perfect_spec(which, p):
    if which == 'paraboloid':
        return spec_paraboloid(p['f'], p['epd'], p['wl'])
    if which == 'hyperbolic-singlet':
        return spec_hyperbolic_singlet(p['f'], p['epd'], p['wl'], p['n'], p['d'])
    return spec_ellipsoid(p['d1'], p['d2'], p['epd'], p['wl'])


def random_perfect(rng):
    which = ['paraboloid', 'hyperbolic-singlet', 'ellipsoid'][int(rng.integers(3))]
    wl = round(float(rng.uniform(0.45, 0.7)), 4)
    epd = round(float(rng.uniform(5.0, 30.0)), 3)
    fno = float(rng.uniform(3.0, 12.0))
    if which == 'paraboloid':
        p = dict(f=round(epd * fno, 3), epd=epd, wl=wl)
    elif which == 'hyperbolic-singlet':
        p = dict(f=round(epd * fno, 3), epd=epd, wl=wl, n=round(float(rng.uniform(1.4, 2.4)), 4),
                 d=round(float(rng.uniform(0.1, 0.5)) * epd, 3))
    else:
        d2 = epd * fno
        p = dict(d1=round(d2 * float(rng.uniform(0.3, 4.0)), 3), d2=round(d2, 3), epd=epd, wl=wl)
    return which, p


# ---------------------------------------------------------------------------
# case generation

def pick_sampling(rng, tier, family):
    nmax = 128 if tier == 'quick' else 256
    if family == 'geo':
        return int(rng.integers(16, 97)), 0
    N = int(rng.integers(16, nmax + 1))
    gmax = 512 if tier == 'quick' else (2048 if rng.random() < 0.04 else 1025)
    if family in ('mtf', 'all') and tier == 'quick' and rng.random() < 0.5:
        gmax = 1025
    r = rng.random()
    if r < 0.15:
        grid = N + int(rng.integers(0, 10))              # grid barely above the sampling
    elif family in ('mtf', 'all') and r < 0.40 and gmax >= 1000:
        grid = [1000, 1024, 1000, 1025][int(rng.integers(4))]
    else:
        ok = [g for g in GRIDS if N <= g <= gmax]
        grid = ok[int(rng.integers(len(ok)))] if ok else N
    return N, int(grid)


def working_fno(spec):
    P = L.psys(spec)
    ya, ua = P.marginal(L.epd_of(spec, P))
    return 1.0 / (2.0 * abs(float(P.n[-1]) * float(ua[-1]))), P, ya, ua


def gen_lens(rng):
    for _ in range(200):
        spec, info = L.gen_axial(rng, nsurf=(2, 8), image='paraxial', neg_power_p=0.0, finite_p=0.45, glass_p=0.25,
                                 max_field_deg=3.0, conic_p=0.3)
        fno, P, ya, ua = working_fno(spec)
        bfd = -float(ya[-2]) / float(ua[-2])
        if abs(spec['surfaces'][-2]['t'] - bfd) > 1e-6 * max(1.0, abs(bfd)):
            continue                                      # generator fell back to a non-focal image plane
        if not np.isfinite(fno) or fno > 14.0:
            continue
        target = float(rng.uniform(3.0, 12.0))
        if fno < target:                                  # stop down (never open up: ray heights stay inside)
            s = fno / target
            typ, val = spec['aperture']
            if typ == 'EPD':
                val = val * s
            elif typ == 'imageFNO':
                val = val / s
            else:
                val = math.sin(math.atan(s * math.tan(math.asin(val))))
            spec['aperture'] = [typ, round(float(val), 9)]
        return spec, info
    raise RuntimeError('no lens within the speed window')


def gen_relay(rng):
    """Erecting relay: two biconvex singlets with a real intermediate image (finite conjugates, m > 0)."""
    for _ in range(100):
        n1, n2 = round(float(rng.uniform(1.45, 1.8)), 4), round(float(rng.uniform(1.45, 1.8)), 4)
        f1, f2 = float(rng.uniform(30, 80)), float(rng.uniform(30, 80))
        R1, R2 = round(2 * (n1 - 1) * f1, 4), round(2 * (n2 - 1) * f2, 4)
        s1 = f1 * float(rng.uniform(1.6, 3.0))
        s1p = 1.0 / (1.0 / f1 - 1.0 / s1)
        gap = s1p + f2 * float(rng.uniform(1.6, 3.0))
        wl = round(float(rng.uniform(0.45, 0.7)), 4)
        surfaces = [dict(type='standard', radius=R1, t=3.0, medium={'n': n1}, stop=True),
                    dict(type='standard', radius=-R1, t=round(gap, 4), medium='air'),
                    dict(type='standard', radius=R2, t=3.0, medium={'n': n2}),
                    dict(type='standard', radius=-R2, t=1.0, medium='air'),
                    dict(type='standard', radius='inf', t=0.0, medium='air')]
        spec = dict(BASE, obj_t=round(s1, 4), surfaces=surfaces, aperture=['EPD', 1.0], field_type='object_height',
                    fields=[[0.0, 0.0, 0.0], [round(0.01 * s1, 4), 0.0, 0.0]], wavelengths=[[wl, True]])
        P = L.psys(spec)
        ya, ua = P.marginal(1.0)
        bfd = -float(ya[-2]) / float(ua[-2])
        if not (0.3 * f2 < bfd < 20 * f2):
            continue
        surfaces[-2]['t'] = round(bfd, 9)
        fno = working_fno(spec)[0]                         # for EPD = 1
        spec['aperture'] = ['EPD', round(fno / float(rng.uniform(7.0, 12.0)), 6)]
        info = dict(power='neg', finite=True, mirrors=0, stop='first', ap='EPD', field='object_height', K=4, relay=True)
        return spec, info
    raise RuntimeError('no relay lens')


def lens_points(spec, rng, max_points):
    fmax = max(f[0] for f in spec['fields'])
    hys = [0.0, 0.7, 1.0] if fmax > 0 else [0.0]
    pts = [[hy, w[0]] for w in spec['wavelengths'] for hy in hys]
    if len(pts) > max_points:
        idx = sorted(rng.choice(len(pts), size=max_points, replace=False).tolist())
        pts = [pts[i] for i in idx]
    return pts


def budget_points(tier, grid, family):
    cap = 1.6e6 if tier == 'quick' else 1.3e7
    if family == 'geo':
        return 9
    return int(max(1, min(9, cap // max(1, grid * grid))))


def fixed_cases(tier):
    out = []
    combos = [(32, 64), (33, 64), (32, 65), (33, 65), (47, 128), (64, 257), (21, 64), (16, 16), (17, 33)]
    if tier == 'thorough':
        combos += [(128, 1000), (128, 1024), (255, 1024), (256, 1025), (129, 257), (256, 511), (31, 100), (75, 200),
                   (200, 256), (100, 1000), (64, 1000), (256, 2048)]
    else:
        combos += [(64, 1000), (100, 1024)]
    pars = [('paraboloid', dict(f=100.0, epd=20.0, wl=0.55)),
            ('hyperbolic-singlet', dict(f=80.0, epd=16.0, wl=0.6, n=1.7, d=4.0)),
            ('ellipsoid', dict(d1=300.0, d2=120.0, epd=24.0, wl=0.5))]
    for i, (N, g) in enumerate(combos):
        for j, (which, p) in enumerate(pars):
            if tier == 'quick' and (i + j) % 3 and i >= 4:
                continue
            out.append(dict(kind='perfect', family='all', which=which, params=p, N=N, grid=g,
                            points=[[0.0, p['wl']]], geo=dict(num_points=64, scale=bool((i + j) % 2 == 0)),
                            view_psf=(i == 0)))
    names = ['CookeTriplet', 'TessarLens', 'PetzvalLens', 'Telephoto', 'DoubleGauss', 'CementedAchromat',
             'ReverseTelephoto', 'HeliarLens']
    if tier == 'quick':
        names = names[:3]
    fams = ['psf', 'mtf', 'geo']
    for i, nm in enumerate(names):
        out.append(dict(kind='sample', family=fams[i % 3], name=nm, N=[48, 64, 40][i % 3], grid=[200, 256, 0][i % 3],
                        points=[[0.0, 'primary'], [0.7, 'primary'], [1.0, 'primary']],
                        geo=dict(num_points=128, scale=True), view_psf=False))
    return out


def gen_case(rng, tier, i):
    r = rng.random()
    family = 'psf' if r < 0.45 else 'mtf' if r < 0.65 else 'geo' if r < 0.82 else 'all'
    N, grid = pick_sampling(rng, tier, family)
    geo = dict(num_points=int([32, 64, 100, 256][int(rng.integers(4))]), scale=bool(rng.random() < 0.6))
    if family == 'all':
        which, p = random_perfect(rng)
        return dict(kind='perfect', family='all', which=which, params=p, N=N, grid=grid, points=[[0.0, p['wl']]],
                    geo=geo, view_psf=bool(rng.random() < 0.2))
    if family == 'psf' and rng.random() < 0.12:
        # a perfect system behind a central obscuration (telescope with a secondary): still Strehl 1, peak 100
        epd = round(float(rng.uniform(5.0, 30.0)), 3)
        p = dict(f=round(epd * float(rng.uniform(3.0, 12.0)), 3), epd=epd, wl=round(float(rng.uniform(0.45, 0.7)), 4))
        return dict(kind='perfect', family='psf', which='paraboloid', params=p, N=N, grid=grid, points=[[0.0, p['wl']]], geo=geo,
                    view_psf=False, clip=[1, dict(r_max='inf', r_min=round(float(rng.uniform(0.15, 0.6)) * epd / 2, 4))])
    spec, info = gen_relay(rng) if rng.random() < 0.05 else gen_lens(rng)
    fno = working_fno(spec)[0]
    clip = None
    if family == 'psf' and rng.random() < 0.3:
        # a physical aperture that cuts off part of the beam (rim or central obscuration) at one of the surfaces
        _, _, ya_, _ = working_fno(spec)
        k = int(rng.integers(1, len(spec['surfaces'])))
        h = abs(float(ya_[min(k - 1, len(ya_) - 1)]))
        if h > 0:
            clip = [k, (dict(r_max=round(h * float(rng.uniform(0.45, 0.95)), 6)) if rng.random() < 0.6 else
                        dict(r_max='inf', r_min=round(h * float(rng.uniform(0.2, 0.7)), 6)))]
    dw = 0.0
    if rng.random() < 0.5:                                 # defocus, 0.05 .. 30 waves (log-uniform), either sign
        dw = float(L.loguniform(rng, 0.05, 30.0)) * (1 if rng.random() < 0.5 else -1)
        wl = L.primary_wavelength(spec)
        spec['surfaces'][-2]['t'] = round(spec['surfaces'][-2]['t'] + 8.0 * wl * 1e-3 * fno * fno * dw, 9)
    pts = lens_points(spec, rng, budget_points(tier, grid, family))
    return dict(kind='random', family=family, spec=spec, info=info, N=N, grid=grid, points=pts, defocus_waves=dw,
                geo=geo, view_psf=bool(rng.random() < 0.15), **(dict(clip=clip) if clip else {}))


# ---------------------------------------------------------------------------
# verdict helper

def judge(rec, clause, ok, flags=(), explained=False, msg='', resid=None, tol=None, detail=None):
    """One evaluation.  flags: mechanisms whose predicate holds for the case *and* that bear on this clause;
    explained: the library output equals the as-built prediction with the case's mechanisms switched on."""
    if ok:
        return rec.check(clause, True, resid=resid, tol=tol)
    if flags:
        key = f"{clause}:{'+'.join(flags)}" if explained else f'{clause}:unexplained'
        if explained:
            msg += f' [as predicted by mechanism(s) {"+".join(flags)}]'
    else:
        key = None
    return rec.check(clause, False, key=key, msg=msg, resid=resid, tol=tol, detail=detail)


def maxabs(a):
    a = np.asarray(a, dtype=float)
    return float(np.max(np.abs(a))) if a.size else 0.0


def same(a, b, tol, scale=1.0):
    a, b = np.asarray(a, dtype=float), np.asarray(b, dtype=float)
    if a.shape != b.shape:
        return False, float('inf')
    if a.size == 0:
        return True, 0.0
    if not (np.all(np.isfinite(a)) and np.all(np.isfinite(b))):
        return False, float('inf')
    r = float(np.max(np.abs(a - b))) / scale
    return r <= tol, r


# ---------------------------------------------------------------------------
# per-case context: oracle F-numbers and mechanism predicates

class Ctx:
    def __init__(self, lens, spec, case):
        self.lens, self.spec, self.case = lens, spec, case
        self.N, self.grid = int(case['N']), int(case['grid'])
        self.perfect = case['kind'] == 'perfect'
        self.finite = not math.isinf(L.fnum(spec['obj_t']))
        fno, P, ya, ua = working_fno(spec)
        self.fno = fno
        # what FFTMTF._get_fno is built to compute: F#_inf (1 + |m|/p)
        typ, val = spec['aperture']
        epd = L.epd_of(spec, P)
        f2 = float(P.f2())
        # paraxial.FNO() as built: f2()/EPD with f2() = |f2| (C04 finding `negative-power`; only erecting relays have
        # negative power here, and for them the true value below never involves f2)
        fno_inf = float(val) if typ == 'imageFNO' else abs(f2) / epd
        self.fno_inf = fno_inf
        self.fno_lib = fno_inf
        self.m_over_p = 0.0
        self.mag = 0.0
        if self.finite:
            m = float(P.n[0] * ua[0] / (P.n[-1] * ua[-1]))
            xpd = 2.0 * float(ya[-1] + ua[-1] * P.XPL_from_image())
            p = xpd / epd
            self.m_over_p = m / p
            self.mag = m
            self.fno_lib = fno_inf * (1.0 + abs(m) / p)
        self.powered = int(np.sum(np.abs(P.c[:-1] * (P.n[1:-1] - P.n[:-2])) > 0)) if P.K > 1 else 0
        N, g = self.N, self.grid
        # circular autocorrelation of period g: reported lags k <= ceil(g/2)-1 collect lag g-k, non-zero iff g-k <= N-1
        self.alias = g <= 2 * N - 3
        # F#(1 + |m|/p) equals F#|1 - m/p| exactly when m < 0 and 1 - m/p > 0
        self.fno_abs = self.finite and (self.mag > 0 or self.m_over_p > 1)

    def nu_c(self, wl):
        return 1000.0 / (wl * self.fno)

    def nu_c_lib(self, wl):
        return 1000.0 / (wl * self.fno_lib)


def resolve_wl(lens, wl):
    return float(lens.primary_wavelength) if wl == 'primary' else float(wl)


def sample_pupil(lens, hy, wl, N, rec):
    """Separately computed wavefront -> oracle pupil(s); None when the pupil is outside the decided domain.
    The statement does not say how the pupil amplitude follows from the ray intensities; both the physical law
    (amplitude = sqrt(intensity)) and the library's documented `.pupils` law (amplitude = intensity / mean) are
    accepted (they coincide for a uniformly transmitting lens); `laws` lists the candidate pupils."""
    from optiland.wavefront import Wavefront
    wf = Wavefront(lens, fields=[(0.0, hy)], wavelengths=[wl], num_rays=N, distribution='uniform')
    W = np.array(wf.data[0][0][0], dtype=float).ravel()
    I = np.array(wf.data[0][0][1], dtype=float).ravel()
    lost = ~np.isfinite(I) | ~np.isfinite(W)
    if lost.any():
        # rays that do not reach the image (no intersection / total reflection on the way) carry no light: those pupil
        # samples are dark, like samples cut off by an aperture
        rec.cls('pupil-with-lost-rays')
        I, W = np.where(lost, 0.0, I), np.where(lost, 0.0, W)
    if I.size == 0 or np.any(I < 0):
        rec.cls('pupil-non-finite-skipped')
        return None
    lit = I > 0
    if not np.all(np.isfinite(W[lit])):
        rec.cls('pupil-non-finite-skipped')
        return None
    if not lit.all():
        # part of the pupil is cut off by a physical aperture (dark samples carry no amplitude): decided like any other
        # pupil - the statement's normalisation refers to the unaberrated pupil of the same amplitude
        if lit.mean() < 0.08:
            rec.cls('pupil-almost-dark-skipped')
            return None
        rec.cls('pupil-vignetted', 'pupil-lit-' + ('<30%' if lit.mean() < 0.3 else '30-70%' if lit.mean() < 0.7 else '>70%'))
    I0 = I[lit][0]
    uniform = bool(np.all(np.abs(I[lit] - I0) <= 1e-14 * I0))
    P, A, mask = D.pupil_from_samples(W, I, N)
    pv = float(W[lit].max() - W[lit].min())
    rec.cls('aberration-pv-' + ('<0.01' if pv < 0.01 else '0.01-1' if pv < 1 else '1-10' if pv < 10 else
                                '10-40' if pv <= 40 else '>40'))
    pup = dict(P=P, A=A, W=W, pv=pv, nin=int(mask.sum()), law='sqrt-intensity', uniform=uniform, dark=bool(not lit.all()))
    laws = [pup]
    if not uniform:
        P2, A2, _ = D.pupil_from_samples(W, (I / I.mean()) ** 2, N)
        laws.append(dict(pup, P=P2, A=A2, law='intensity'))
        rec.cls('pupil-intensity-nonuniform')
    pup['laws'] = laws
    return pup


def choose_law(ctx, rec, pup, lib_psf):
    """The candidate pupil whose oracle PSF reproduces the library's; the documented one when none does."""
    if len(pup['laws']) == 1:
        return pup
    lib_psf = np.asarray(lib_psf)
    for cand in reversed(pup['laws']):                     # the library's documented law first
        oc = D.psf_oracle(cand['P'], cand['A'], ctx.grid)
        if same(lib_psf, oc['psf'], 1e-9, scale=max(float(oc['psf'].max()), 1e-300))[0]:
            rec.cls('amplitude-law-' + cand['law'])
            return cand
    rec.cls('amplitude-law-undetermined')
    return pup['laws'][-1]                                 # the documented law; psf-equals-dft will report the mismatch


def class_flags(rec, ctx, fam):
    N, g = ctx.N, ctx.grid
    rec.cls(f'family-{fam}', 'object-finite' if ctx.finite else 'object-infinite',
            'sampling-odd' if N % 2 else 'sampling-even')
    if fam != 'geo':
        rec.cls('grid-odd' if g % 2 else 'grid-even', 'grid-minus-sampling-odd' if (g - N) % 2 else 'grid-minus-sampling-even',
                'grid<=2N-3' if ctx.alias else 'grid>=2N-2', 'grid-1000' if g == 1000 else 'grid-not-1000',
                f'grid<={64 if g <= 64 else 128 if g <= 128 else 256 if g <= 256 else 512 if g <= 512 else 1025 if g <= 1025 else 2048}')
    if ctx.fno_abs:
        rec.cls('mech-' + M_FNO)


# ---------------------------------------------------------------------------
# PSF family

def oracle_psf(ctx, pup):
    return D.psf_oracle(pup['P'], pup['A'], ctx.grid)


def check_psf(ctx, rec, hy, wl):
    from optiland.psf import FFTPSF
    N, g = ctx.N, ctx.grid
    pup = sample_pupil(ctx.lens, hy, wl, N, rec)
    if pup is None:
        return
    try:        # an unrelated single-ray trace sits in the surface records when the analysis starts: it must not matter
        ctx.lens.trace_generic(0.0, 0.37, 0.21, -0.45, wl)
    except Exception:
        pass
    lib = FFTPSF(ctx.lens, (0.0, hy), wl, num_rays=N, grid_size=g)     # an exception here is a library violation
    psf = np.asarray(lib.psf)
    pup = choose_law(ctx, rec, pup, psf)
    o = oracle_psf(ctx, pup)
    peak = max(float(o['psf'].max()), 1e-300)

    judge(rec, 'psf-shape', psf.shape == (g, g), msg=f'psf.shape {psf.shape} for grid_size={g}, num_rays={N}')
    finite = bool(np.all(np.isfinite(psf)))
    mn = float(psf.min()) if finite else float('nan')
    judge(rec, 'psf-nonnegative', finite and mn >= 0.0, msg=f'min(psf) = {mn!r}', resid=max(0.0, -mn) if finite else None,
          tol=1e-300)
    ok, r = same(psf, o['psf'], 1e-9, scale=peak)
    judge(rec, 'psf-equals-dft', ok, resid=r, tol=1e-9,
          msg=f'psf differs from 100|DFT(pupil)|^2/peak0 by {r:.3e} of the peak (N={N}, grid={g}, oracle {o["how"]})',
          detail=dict(shape=list(psf.shape), hy=hy, wl=wl))
    rec.event('psf_pixels_compared', psf.size)
    rec.event('psf_oracle_explicit_dft' if o['how'] == 'explicit' else 'psf_oracle_fft_only')

    # Parseval: same total as the unaberrated pupil (array of the library's actual side)
    side = psf.shape[0]
    if psf.ndim == 2 and psf.shape[0] == psf.shape[1] and side >= N:
        tot0 = float((o if side == g else D.psf_oracle(pup['P'], pup['A'], side))['psf0'].sum())
        closed = D.parseval_total(pup['A'], side)
        if abs(tot0 - closed) > 1e-10 * closed:
            raise D.OracleSelfCheck(f'oracle unaberrated total {tot0!r} vs Parseval closed form {closed!r}')
        r = abs(float(psf.sum()) - tot0) / tot0
        judge(rec, 'psf-energy-conserved', r <= 1e-9, resid=r, tol=1e-9,
              msg=f'sum(psf) = {float(psf.sum())!r}, unaberrated pupil of the same lens: {tot0!r}')

    # Strehl
    s = float(np.ravel(lib.strehl_ratio())[0])
    judge(rec, 'strehl-le-1', s <= 1.0 + 1e-12, resid=max(0.0, s - 1.0), tol=1e-12, msg=f'strehl_ratio() = {s!r}')
    want = float(o['psf'][g // 2, g // 2]) / 100.0
    r = abs(s - want)
    judge(rec, 'strehl-equals-centre/100', r <= 1e-9, resid=r, tol=1e-9,
          msg=f'strehl_ratio() = {s!r}, central (zero-frequency) value of the PSF / 100 = {want!r} (N={N}, grid={g})')
    if ctx.perfect:
        pk = float(psf.max())
        judge(rec, 'psf-unaberrated-peak-100', abs(pk - 100.0) <= 1e-4, resid=abs(pk - 100.0) / 100, tol=1e-6,
              msg=f'peak of the PSF of a perfect system = {pk!r}')
        judge(rec, 'psf-unaberrated-peak-100', abs(s - 1.0) <= 1e-6, resid=abs(s - 1.0),
              tol=1e-6, msg=f'Strehl ratio of a perfect system ({ctx.case.get("which")}, N={N}, grid={g}) = {s!r}')
    if ctx.case.get('view_psf') and finite:
        import matplotlib.pyplot as plt
        try:                                   # reach only (_get_psf_units): view() is not an observable of C11
            lib.view()
            rec.event('psf_view_calls')
        except Exception as e:
            rec.cls(f'psf-view-raised-{type(e).__name__}-not-judged')
        finally:
            plt.close('all')
    rec.sample(dict(case=dict(kind=ctx.case['kind'], N=N, grid=g, hy=hy, wl=wl), pupil_samples=pup['nin'],
                    pv_waves=pup['pv'], library=dict(shape=list(psf.shape), strehl=s, peak=float(psf.max()), total=float(psf.sum())),
                    oracle=dict(strehl=want, peak=float(o['psf'].max()), total=float(o['psf'].sum()), dft=o['how'],
                                dft_vs_fft=o['self_check'])))


# ---------------------------------------------------------------------------
# FFT MTF family

def capture_view(obj):
    import matplotlib.pyplot as plt
    plt.close('all')
    try:
        obj.view()
        ax = plt.gcf().axes[0]
        return [(np.asarray(l.get_xdata(), dtype=float), np.asarray(l.get_ydata(), dtype=float)) for l in ax.lines]
    finally:
        plt.close('all')


def generic_curve_clauses(rec, y, label, dl_exact, dl_closed, slack, flags_start, flags_dl, explained):
    """The statement's clauses for *every* MTF curve."""
    y = np.asarray(y, dtype=float)
    fin = bool(np.all(np.isfinite(y))) and y.size > 0
    r = abs(float(y[0]) - 1.0) if fin else float('inf')
    judge(rec, 'mtf-starts-at-one', r <= 1e-12, flags_start, explained, resid=r, tol=1e-12,
          msg=f'{label}: first value {float(y[0]) if y.size else None!r}')
    lo = float(y.min()) if fin else float('nan')
    hi = float(y.max()) if fin else float('nan')
    judge(rec, 'mtf-in-0-1', fin and lo >= -1e-12 and hi <= 1.0 + 1e-12, msg=f'{label}: range [{lo!r}, {hi!r}]',
          resid=max(0.0, -lo, hi - 1.0) if fin else None, tol=1e-12)
    if dl_exact is not None:
        ex = float(np.max(y - dl_exact)) if fin else float('inf')
        judge(rec, 'mtf-le-diffraction-limit', ex <= 1e-9, flags_dl, explained, resid=max(0.0, ex), tol=1e-9,
              msg=f'{label}: exceeds the diffraction limit of the same sampled aperture by {ex:.3e}')
    if dl_closed is not None:
        ex = float(np.max(y - dl_closed)) if fin else float('inf')
        judge(rec, 'mtf-le-diffraction-limit', ex <= slack, flags_dl, explained, resid=max(0.0, ex), tol=slack,
              msg=f'{label}: exceeds (2/pi)(phi - cos phi sin phi) by {ex:.3e} (allowed {slack:.3e})')


def check_mtf(ctx, rec, wl, hys):
    from optiland.mtf import FFTMTF
    N, g = ctx.N, ctx.grid
    pups = []
    for hy in hys:
        p = sample_pupil(ctx.lens, hy, wl, N, rec)
        if p is None:
            return
        pups.append(p)
    try:
        ctx.lens.trace_generic(0.0, 0.37, 0.21, -0.45, wl)
    except Exception:
        pass
    lib = FFTMTF(ctx.lens, fields=[(0.0, hy) for hy in hys], wavelength=wl, num_rays=N, grid_size=g)
    nu_c, nu_lib = ctx.nu_c(wl), ctx.nu_c_lib(wl)
    # cut-off
    mf = float(np.ravel(lib.max_freq)[0])
    r = abs(mf / nu_c - 1.0)
    judge(rec, 'mtf-cutoff', r <= 1e-9, (M_FNO,) if ctx.fno_abs else (), abs(mf / nu_lib - 1.0) <= 1e-9, resid=r, tol=1e-9,
          msg=f'FFTMTF.max_freq = {mf!r} cycles/mm, 1/(lambda F#w) = {nu_c!r} (F#w = {ctx.fno!r} from the ABCD marginal ray, '
              f'm/p = {ctx.m_over_p:.4g})', detail=dict(asbuilt_prediction=nu_lib))
    # frequency axis handed to matplotlib
    axis_ok_model = False
    lines = capture_view(lib)                              # an exception here is a library violation
    x_lib = None
    if lines:
        x_lib = lines[0][0]
        k = np.arange(len(x_lib))
        x_want = k * nu_c / (N - 1)
        x_model = k * nu_lib / (N - 1)                      # the same axis with the as-built working F-number
        fl = (M_FNO,) if ctx.fno_abs else ()
        axis_ok_model, _ = same(x_lib, x_model, 1e-9, scale=max(maxabs(x_model), 1e-300))
        r = maxabs((x_lib[1:] - x_want[1:]) / x_want[1:]) if len(k) > 1 else 0.0
        ok = len(k) > 1 and len(k) == len(lib.mtf[0][0]) and x_lib[0] == 0.0 and r <= 2.0 / N
        judge(rec, 'mtf-frequency-axis', ok, fl, axis_ok_model, resid=r, tol=2.0 / N,
              msg=f'x-data of FFTMTF.view(): spacing {x_lib[1] if len(k) > 1 else None!r} cycles/mm, sample k of the MTF is at '
                  f'k nu_c/(N-1) = k*{nu_c / (N - 1)!r} (N={N}, grid={g}); ratio {x_lib[1] / (nu_c / (N - 1)) if len(k) > 1 else None!r}',
              detail=dict(asbuilt_spacing=float(x_model[1]) if len(k) > 1 else None))
        for j, (xx, yy) in enumerate(lines):
            if not np.array_equal(xx, x_lib):
                raise RuntimeError('view() drew curves against different x-data')
        n_lin = len(lib.mtf[0][0])
        rec.event('mtf_axis_equals_linspace_0_maxfreq' if same(x_lib, np.linspace(0, mf, n_lin), 1e-6, scale=max(abs(mf), 1e-300))[0]
                  else 'mtf_axis_differs_from_linspace_0_maxfreq')
    for i, hy in enumerate(hys):
        pup = choose_law(ctx, rec, pups[i], lib.psf[i])
        o = oracle_psf(ctx, pup)
        tan, sag = np.asarray(lib.mtf[i][0], dtype=float), np.asarray(lib.mtf[i][1], dtype=float)
        # as-built model of both curves under `mtf-circular-aliasing`: the cuts from zero frequency through the DFT of the
        # oracle's grid x grid PSF (= circular autocorrelation of the pupil, period grid); direct sums, no fft
        mt, ms = D.mtf_from_psf(o['psf'], g // 2, g // 2)
        model_ok = mt is not None and same(tan, mt, 1e-9)[0] and same(sag, ms, 1e-9)[0]
        fl_start = ()
        fl_dl = (M_ALIAS,) if ctx.alias else ()
        for name, y, axis in (('tangential', tan, 'y'), ('sagittal', sag, 'x')):
            kk = np.arange(len(y))
            dl_exact = D.mtf_linear(pup['A'].astype(complex), len(y), axis)
            dl_closed = D.diffraction_limit(kk / (N - 1.0))
            sc = maxabs(dl_exact - dl_closed)
            if pup.get('dark'):
                # part of the pupil is dark (lost rays): its diffraction limit is that of the lit aperture, not the circle's
                rec.cls('mtf-pupil-with-dark-samples')
                dl_closed = None
            elif sc > 2.0 / N:       # (sampling error of a disk on an N-grid: observed up to 1.13/N over the thorough tier)
                raise D.OracleSelfCheck(f'discrete diffraction limit is {sc * N:.2f}/N from the closed form')
            generic_curve_clauses(rec, y, f'FFTMTF {name} Hy={hy} N={N} grid={g}', dl_exact, dl_closed, 2.0 / N,
                                  fl_start, fl_dl, model_ok)
            if ctx.perfect and x_lib is not None and len(x_lib) == len(y):
                want = D.diffraction_limit(x_lib / nu_c)
                r = maxabs(y - want)
                fl = tuple(f for f, on in ((M_ALIAS, ctx.alias), (M_FNO, ctx.fno_abs)) if on)
                judge(rec, 'mtf-perfect-pupil-formula', r <= 2.0 / N, fl, model_ok and axis_ok_model, resid=r, tol=2.0 / N,
                      msg=f'perfect system, {name} curve against (2/pi)(phi - cos phi sin phi) on the frequencies reported by '
                          f'view() (nu_c = {nu_c:.6g}): max deviation {r:.4f} > 2/N = {2.0 / N:.4f} (N={N}, grid={g}); on the '
                          f'true axis k nu_c/(N-1) the deviation is {maxabs(y - D.diffraction_limit(kk / (N - 1.0))):.4f}')
        rec.event('mtf_points_compared', len(tan) + len(sag))
        rec.sample(dict(case=dict(kind=ctx.case['kind'], family='mtf', N=N, grid=g, hy=hy, wl=wl),
                        library=dict(max_freq=mf, axis_spacing=(float(x_lib[1]) if x_lib is not None and len(x_lib) > 1 else None),
                                     points=len(tan), mtf_at_5=[float(v) for v in tan[:5]]),
                        oracle=dict(cutoff=nu_c, true_spacing=nu_c / (N - 1), fno_working=ctx.fno)))


# ---------------------------------------------------------------------------
# geometric MTF family

def check_geo(ctx, rec, wl, hys):
    from optiland.mtf import GeometricMTF
    N = ctx.N
    geo = ctx.case.get('geo') or dict(num_points=64, scale=True)
    npts, scale = int(geo['num_points']), bool(geo['scale'])
    spots = []
    for hy in hys:
        ctx.lens.trace(0.0, hy, wl, N, 'uniform')
        sg = ctx.lens.surface_group
        x, y = np.array(sg.x[-1, :], dtype=float), np.array(sg.y[-1, :], dtype=float)
        fin_ = np.isfinite(x) & np.isfinite(y)
        if not fin_.all():
            # rays that do not reach the image are no part of the spot: its line spread is that of the arriving rays
            if fin_.sum() < 20:
                rec.cls('spot-almost-empty-skipped')
                return
            rec.cls('spot-with-lost-rays')
            x, y = x[fin_], y[fin_]
        spots.append((x, y))
    lib = GeometricMTF(ctx.lens, fields=[(0.0, hy) for hy in hys], wavelength=wl, num_rays=N, distribution='uniform',
                       num_points=npts, scale=scale)
    nu_c = ctx.nu_c(wl)
    nu_inf = 1000.0 / (wl * ctx.fno_inf)
    fl = (M_GEOFNO,) if ctx.finite else ()
    freq = np.asarray(lib.freq, dtype=float)
    mf = float(np.ravel(lib.max_freq)[0])
    r = max(abs(mf / nu_c - 1.0), abs(float(freq[-1]) / nu_c - 1.0))
    judge(rec, 'mtf-cutoff', r <= 1e-9 and freq[0] == 0.0, fl,
          abs(mf / nu_inf - 1.0) <= 1e-9 and abs(float(freq[-1]) / nu_inf - 1.0) <= 1e-9, resid=r, tol=1e-9,
          msg=f'GeometricMTF: max_freq = {mf!r}, freq[-1] = {float(freq[-1])!r} cycles/mm; 1/(lambda F#w) = {nu_c!r} '
              f'(F#w = {ctx.fno!r}, infinite-conjugate F# = {ctx.fno_inf!r})', detail=dict(asbuilt_prediction=nu_inf))
    rec.cls('geo-scaled' if scale else 'geo-unscaled')
    dl_true = D.diffraction_limit(freq / nu_c)
    dl_model = D.diffraction_limit(freq / nu_inf)
    if scale:
        got = np.asarray(lib.diff_limited_mtf, dtype=float)
        ok, r = same(got, dl_true, 1e-9)
        judge(rec, 'geometric-mtf-diffraction-limit', ok, fl, same(got, dl_model, 1e-9)[0], resid=r, tol=1e-9,
              msg=f'GeometricMTF.diff_limited_mtf differs from (2/pi)(phi - cos phi sin phi) at freq/nu_c by {r:.3e}')
    for i, hy in enumerate(hys):
        x, y = spots[i]
        for name, u, got in (('tangential', y, lib.mtf[i][0]), ('sagittal', x, lib.mtf[i][1])):
            got = np.asarray(got, dtype=float)
            cnt, ctr, dx = D.line_spread_histogram(u, npts + 1)
            raw = D.fourier_modulus(cnt, ctr, freq)
            want = raw * dl_true if scale else raw
            model = raw * dl_model if scale else raw
            fls = fl if scale else ()
            ok, r = same(got, want, 1e-9)
            explained = same(got, model, 1e-9)[0]
            judge(rec, 'geometric-mtf', ok, fls, explained, resid=r, tol=1e-9,
                  msg=f'GeometricMTF {name} Hy={hy} (num_rays={N}, num_points={npts}, scale={scale}) differs from |FT| of the '
                      f'line spread of separately traced spots by {r:.3e}')
            if not scale or not ctx.finite:
                unb = D.fourier_modulus(np.ones_like(u), u, freq) * (dl_true if scale else 1.0)
                bound = np.pi * freq * dx + 1e-9
                ex = float(np.max(np.abs(got - unb) - bound)) if np.all(np.isfinite(got)) and got.shape == unb.shape else float('inf')
                judge(rec, 'geometric-mtf-unbinned', ex <= 0.0, resid=max(0.0, ex) + 0.0, tol=1e-9,
                      msg=f'GeometricMTF {name}: further than the binning bound pi nu dx from the unbinned Fourier sum of the '
                          f'spot ({ex:.3e} beyond)')
            generic_curve_clauses(rec, got, f'GeometricMTF {name} Hy={hy} scale={scale}', None,
                                  dl_true if scale else None, 1e-9, (), fls, explained)
        rec.event('geometric_mtf_points_compared', 2 * len(freq))
    rec.sample(dict(case=dict(kind=ctx.case['kind'], family='geo', N=N, num_points=npts, scale=scale, wl=wl, hys=hys),
                    library=dict(max_freq=mf, mtf_at_3=[float(v) for v in np.asarray(lib.mtf[0][0])[:3]]),
                    oracle=dict(cutoff=nu_c, spot_rays=int(spots[0][0].size))))


# ---------------------------------------------------------------------------

def check_case(case, rec):
    if case['kind'] == 'sample':
        from vkit import samples
        lens, spec = samples.load(case['name'])
        if spec is None:
            rec.cls('sample-not-axial-skipped')
            return
        rec.cls('sample')
    elif case['kind'] == 'perfect':
        spec = perfect_spec(case['which'], case['params'])
        if case.get('clip'):
            spec['surfaces'][case['clip'][0] - 1]['aperture'] = dict(case['clip'][1])
            rec.cls('physical-aperture-clips-pupil')
        lens = L.build(spec)
        rec.cls('perfect-' + case['which'])
    else:
        spec = case['spec']
        if case.get('clip'):
            import copy
            spec = copy.deepcopy(spec)
            spec['surfaces'][case['clip'][0] - 1]['aperture'] = dict(case['clip'][1])
            rec.cls('physical-aperture-clips-pupil')
        lens = L.build(spec)
        dw = abs(case.get('defocus_waves', 0.0))
        rec.cls('defocus-none' if dw == 0 else 'defocus-<1' if dw < 1 else 'defocus-1-10' if dw < 10 else 'defocus-10-30')
    ctx = Ctx(lens, spec, case)
    fam = case['family']
    class_flags(rec, ctx, fam)
    if ctx.N >= 12 and (ctx.perfect or ctx.powered >= 2):    # >= 100 samples in the mask for every N >= 12
        rec.nontrivial_case()
    pts = [[float(hy), resolve_wl(lens, wl)] for hy, wl in case['points']]
    wls = []
    for hy, wl in pts:
        if wl not in wls:
            wls.append(wl)
    if fam in ('psf', 'all'):
        for hy, wl in pts:
            check_psf(ctx, rec, hy, wl)
    if fam in ('mtf', 'all'):
        for wl in wls:
            check_mtf(ctx, rec, wl, [hy for hy, w in pts if w == wl])
    if fam in ('geo', 'all'):
        for wl in wls:
            check_geo(ctx, rec, wl, [hy for hy, w in pts if w == wl])
