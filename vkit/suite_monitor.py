"""Run (part of) the repository's own test suite under the contract monitors, in a subprocess."""
import json
import os
import subprocess
import sys
import tempfile

HERE = os.path.dirname(os.path.dirname(os.path.abspath(__file__)))
REPO = os.environ.get('VERIF_REPO', '/repo')


def run(which, tests, timeout=900):
    """-> dict(evals={clause: n}, bad=[(clause, info)], rc=pytest exit code, summary=str) or None on timeout."""
    fd, out = tempfile.mkstemp(suffix='.json', prefix='vkit-suite-')
    os.close(fd)
    env = dict(os.environ, VKIT_SUITE_OUT=out, VKIT_SUITE_WHICH=','.join(which), MPLBACKEND='Agg',
               PYTHONPATH=os.pathsep.join([REPO, HERE, os.path.join(HERE, '.deps')]))
    cmd = [sys.executable, '-m', 'pytest', '-q', '-p', 'no:cacheprovider', '-p', 'vkit.suite_plugin', '-x', '--no-header'] + \
          [os.path.join(REPO, t) for t in tests]
    try:
        p = subprocess.run(cmd, cwd=REPO, env=env, capture_output=True, text=True, timeout=timeout)
    except subprocess.TimeoutExpired:
        return None
    try:
        d = json.load(open(out))
    except Exception:
        d = dict(evals={}, bad=[])
    finally:
        try:
            os.remove(out)
        except OSError:
            pass
    d['rc'] = p.returncode
    tail = [ln for ln in p.stdout.strip().splitlines() if 'passed' in ln or 'failed' in ln or 'error' in ln]
    d['summary'] = tail[-1] if tail else p.stdout[-200:]
    return d


def record(rec, res, clauses):
    """Transfer the suite log into the recorder for the named contract clauses."""
    if res is None:
        rec.inconclusive.append('repository suite under monitors timed out')
        return
    rec.event('suite_under_monitors_runs')
    for c in clauses:
        n = int(res['evals'].get(c, 0))
        bad = [b for b in res['bad'] if b[0] == c]
        rec.check(c + ' (repository suite)', not bad, n=max(n, 1), key=c + ':repository-suite',
                  msg=f'{c} broken while the repository\'s own tests ran: {bad[:2]} ({res["summary"]})')
        rec.event(f'suite-evals-{c}', n)
