"""C20 -- Zemax import (reference-model monitor on the loader's return value).

A random sequential prescription is written as a .zmx text by the independent writer
(vkit/oracles/zmxwriter.py) in UTF-8 or UTF-16 (LE, BOM), loaded through the public
`optiland.fileio.load_zemax_file`, and the returned Optic is compared field by field with
the numbers that were written.  The paraxial clause compares `lens.paraxial` with the ABCD
oracle (vkit/oracles/paraxial.py) built from the written curvatures / thicknesses / stop /
aperture.  A file in MODE NSC must raise ValueError.

Known-defect mechanisms are modelled ("as-built" predictions, rec.close(alt=, flags=)) so
that only mismatches they explain get their key:
  zmx-last-surface-dropped   the last SURF block (image surface) is never stored: its CURV /
                             CONI / PARM are lost.  Predicate: image surface has CURV != 0 or
                             CONI != 0 or non-zero PARM.
  zmx-glass-name-collision   glass name equals the category_name of a row of group `main`
                             (SF6 -> sulphur hexafluoride gas, BAF2 -> barium fluoride crystal).
  zmx-glass-vendor-ambiguity the same glass name exists in several vendors' catalogues with
                             different glasses; the file's GCAT line is ignored (CDGM F1..F6, BAF4).
  zmx-glass-substring-match  a name with no catalogue entry of that name is matched as a substring
                             of another entry (FK5 -> N-FK51A, BK1 -> LZOS BK10, ZNS -> ZnSiAs2)
                             instead of becoming the model glass with the file's (nd, Vd).
"""
import math
import os
import shutil
import tempfile

import numpy as np

from vkit import lens as L
from vkit.oracles import zmxwriter as Z

ID = 'C20'
RULE = ('random sequential .zmx texts written by vkit/oracles/zmxwriter.py: 1-30 surfaces between object and image '
        '(singlets, cemented groups, plane dummy surfaces, plane or curved stop), STANDARD / EVENASPH, CURV incl. 0, '
        'conics, PARM 1-8, object at INFINITY or finite, a few zero / negative air spaces, ENPD / FNUM / OBNA, angle / '
        'object-height fields (1-12, unsorted, duplicated, x and y, zero-padded to 12 or not), 1-12 wavelengths with '
        'weights (optionally padded to 24 rows), any primary index, catalogue glass names of four vendors, unknown names '
        '(model glass) with the file\'s nd / Vd, three number spellings, LF / CRLF, UTF-8 and UTF-16 (LE with BOM), '
        'non-ASCII text in NAME / NOTE / COMM; 85 % are constrained to paraxially sane lenses, 15 % unconstrained; '
        'plus MODE NSC files.  Non-trivial = sequential file with >= 2 powered interfaces; distinct = distinct '
        'prescription hash')
TIERS = {'quick': dict(shards=12, cases=55), 'thorough': dict(shards=16, cases=1000)}
MIN_NONTRIVIAL = {'quick': 400, 'thorough': 10000}
MIN_EVALS = {
    'load-utf-8': dict(quick=100, thorough=3000), 'load-utf-16': dict(quick=100, thorough=3000),
    'surface-count': dict(quick=250, thorough=8000), 'radii': dict(quick=250, thorough=8000),
    'thickness': dict(quick=250, thorough=8000), 'object-distance': dict(quick=250, thorough=8000),
    'conic': dict(quick=250, thorough=8000),
    'asphere-coeffs': dict(quick=100, thorough=3000), 'surface-type': dict(quick=250, thorough=8000),
    'glass-catalogue': dict(quick=500, thorough=15000), 'glass-model': dict(quick=150, thorough=5000),
    'glass-model-abbe': dict(quick=150, thorough=5000), 'air-gaps': dict(quick=250, thorough=8000),
    'stop': dict(quick=250, thorough=8000), 'aperture': dict(quick=250, thorough=8000),
    'field-type': dict(quick=250, thorough=8000), 'field-values': dict(quick=250, thorough=8000),
    'wavelengths': dict(quick=250, thorough=8000), 'primary': dict(quick=250, thorough=8000),
    'paraxial-f2': dict(quick=120, thorough=4000), 'paraxial-EPL': dict(quick=120, thorough=4000),
    'paraxial-XPL': dict(quick=120, thorough=4000), 'paraxial-marginal': dict(quick=120, thorough=4000),
    'reject-nsc': dict(quick=20, thorough=600),
}
ASSUMPTIONS = [
    'the writer\'s layout (header order, 12-entry field lists, WAVM rows, SURF block order, GLAS name flag 0 nd Vd ...) '
    'mirrors the two fixtures in /repo/tests/zemax_files and files written by OpticStudio; every number is spelled so that '
    'float(token) is exact',
    'catalogue nd / Vd written into GLAS lines are the vendors\' datasheet values (hard-coded, checked once against the '
    'data files to 2e-5); the loaded medium must reproduce nd at 0.5875618 um within 5e-4 (vendor-to-vendor spread of '
    'equivalent glasses is < 2e-5, the gap to a wrong glass is > 5e-3)',
    'paraxial clause: indices at the primary wavelength are taken from the loaded lens\'s own medium objects (media are '
    'decided by the glass clauses; dispersion formulas by C18); geometry, stop, object distance, aperture and wavelength '
    'come from the written numbers; the ABCD oracle is the float64 / longdouble y-nu trace validated by C04',
    'paraxial clause is skipped (and counted) for afocal / near-afocal prescriptions, for even aspheres with PARM 1 != 0 '
    '(C04 finding asphere-r2-term) and f2 for negative-power systems (C04 finding negative-power)',
]
_ZR = 'ZemaxFileReader.'
ANCHORS = [('optiland.fileio.zemax_handler', _ZR + '_read_file'),
           ('optiland.fileio.zemax_handler', _ZR + '_read_radius'),
           ('optiland.fileio.zemax_handler', _ZR + '_read_thickness'),
           ('optiland.fileio.zemax_handler', _ZR + '_read_conic'),
           ('optiland.fileio.zemax_handler', _ZR + '_read_surface_parameter'),
           ('optiland.fileio.zemax_handler', _ZR + '_read_glass'),
           ('optiland.fileio.zemax_handler', _ZR + '_read_surface'),
           ('optiland.fileio.zemax_handler', _ZR + '_read_stop'),
           ('optiland.fileio.zemax_handler', _ZR + '_read_fno'),
           ('optiland.fileio.zemax_handler', _ZR + '_read_epd'),
           ('optiland.fileio.zemax_handler', _ZR + '_read_object_na'),
           ('optiland.fileio.zemax_handler', _ZR + '_read_config_data'),
           ('optiland.fileio.zemax_handler', _ZR + '_read_x_fields'),
           ('optiland.fileio.zemax_handler', _ZR + '_read_y_fields'),
           ('optiland.fileio.zemax_handler', _ZR + '_read_wavelength'),
           ('optiland.fileio.zemax_handler', _ZR + '_read_primary_wave'),
           ('optiland.fileio.zemax_handler', _ZR + '_read_mode'),
           ('optiland.fileio.zemax_handler', _ZR + '_read_surf_type'),
           ('optiland.fileio.converters', 'ZemaxToOpticConverter.convert'),
           ('optiland.fileio.converters', 'ZemaxToOpticConverter._configure_surface_coefficients'),
           ('optiland.fileio.converters', 'ZemaxToOpticConverter._configure_aperture'),
           ('optiland.fileio.converters', 'ZemaxToOpticConverter._configure_fields'),
           ('optiland.fileio.converters', 'ZemaxToOpticConverter._configure_wavelengths')]

LAMBDA_D = 0.5875618

# ---------------------------------------------------------------------------
# glass tables: (name, nd, Vd, catalogue).  Datasheet values; verified against
# /repo/database/data-nk/glass/<vendor>/<name>.yml (|dnd| < 2e-5, |dVd| < 0.03).
CATALOGUE = [
    ('N-BK7', 1.51680, 64.17, 'SCHOTT'), ('N-SF11', 1.78472, 25.68, 'SCHOTT'), ('F2', 1.62004, 36.37, 'SCHOTT'),
    ('N-SK16', 1.62041, 60.32, 'SCHOTT'), ('N-SF2', 1.64769, 33.82, 'SCHOTT'), ('N-LAK9', 1.69100, 54.71, 'SCHOTT'),
    ('N-SF5', 1.67271, 32.25, 'SCHOTT'), ('N-LAK22', 1.65113, 55.89, 'SCHOTT'), ('N-FK51A', 1.48656, 84.47, 'SCHOTT'),
    ('N-BAF10', 1.67003, 47.11, 'SCHOTT'), ('LF5', 1.58144, 40.85, 'SCHOTT'), ('N-SF6', 1.80518, 25.36, 'SCHOTT'),
    ('N-BAK4', 1.56883, 55.98, 'SCHOTT'), ('N-K5', 1.52249, 59.48, 'SCHOTT'), ('N-F2', 1.62005, 36.43, 'SCHOTT'),
    ('SF2', 1.64769, 33.85, 'SCHOTT'), ('N-SK2', 1.60738, 56.65, 'SCHOTT'), ('N-LAF2', 1.74397, 44.85, 'SCHOTT'),
    ('N-LASF9', 1.85025, 32.17, 'SCHOTT'), ('N-PK52A', 1.49700, 81.61, 'SCHOTT'), ('N-KZFS4', 1.61336, 44.49, 'SCHOTT'),
    ('N-SSK5', 1.65844, 50.88, 'SCHOTT'), ('N-BAK1', 1.57250, 57.55, 'SCHOTT'), ('N-SF10', 1.72828, 28.53, 'SCHOTT'),
    ('N-SF57', 1.84666, 23.78, 'SCHOTT'), ('N-LAK8', 1.71300, 53.83, 'SCHOTT'), ('N-SK4', 1.61272, 58.63, 'SCHOTT'),
    ('N-SK14', 1.60311, 60.60, 'SCHOTT'), ('N-BK10', 1.49782, 66.95, 'SCHOTT'), ('N-FK5', 1.48749, 70.41, 'SCHOTT'),
    ('N-KF9', 1.52346, 51.54, 'SCHOTT'), ('N-BALF4', 1.57956, 53.87, 'SCHOTT'), ('N-SF1', 1.71736, 29.62, 'SCHOTT'),
    ('N-SF4', 1.75513, 27.38, 'SCHOTT'), ('N-SF8', 1.68894, 31.31, 'SCHOTT'), ('N-SF15', 1.69892, 30.20, 'SCHOTT'),
    ('N-LAK10', 1.72003, 50.62, 'SCHOTT'), ('N-LAK14', 1.69680, 55.41, 'SCHOTT'), ('K10', 1.50137, 56.41, 'SCHOTT'),
    ('K7', 1.51112, 60.41, 'SCHOTT'), ('N-ZK7', 1.50847, 61.19, 'SCHOTT'), ('LLF1', 1.54814, 45.75, 'SCHOTT'),
    ('F5', 1.60342, 38.03, 'SCHOTT'), ('SF1', 1.71736, 29.51, 'SCHOTT'), ('SF4', 1.75520, 27.58, 'SCHOTT'),
    ('SF5', 1.67270, 32.21, 'SCHOTT'), ('SF10', 1.72825, 28.41, 'SCHOTT'), ('SF57', 1.84666, 23.83, 'SCHOTT'),
    ('S-BSL7', 1.51633, 64.14, 'OHARA'), ('S-TIH6', 1.80518, 25.43, 'OHARA'), ('S-LAH66', 1.77250, 49.60, 'OHARA'),
    ('S-FPL51', 1.49700, 81.55, 'OHARA'), ('S-BAL35', 1.58913, 61.14, 'OHARA'), ('S-NSL36', 1.51742, 52.43, 'OHARA'),
    ('FCD1', 1.49700, 81.61, 'HOYA'), ('BSC7', 1.51680, 64.20, 'HOYA'), ('TAF1', 1.77250, 49.62, 'HOYA'),
    ('H-K9L', 1.51680, 64.20, 'CDGM'), ('H-ZF52A', 1.84667, 23.79, 'CDGM'),
]
# name -> (nd, Vd, catalogue, mechanism, data file the mechanism predicts the lookup lands on)
COLLISION = {
    'SF6': (1.80518, 25.43, 'SCHOTT', 'zmx-glass-name-collision', 'main/SF6/Vukovic.yml'),
    'BAF2': (1.56970, 49.44, 'CDGM', 'zmx-glass-name-collision', 'main/BaF2/Kaiser.yml'),
    'F1': (1.60342, 38.01, 'CDGM', 'zmx-glass-vendor-ambiguity', 'glass/hikari/F1.yml'),
    'F3': (1.61659, 36.63, 'CDGM', 'zmx-glass-vendor-ambiguity', 'glass/hikari/F3.yml'),
    'F6': (1.62495, 35.58, 'CDGM', 'zmx-glass-vendor-ambiguity', 'glass/lzos/F6.yml'),
    'BAF4': (1.58271, 46.51, 'CDGM', 'zmx-glass-vendor-ambiguity', 'glass/hikari/BAF4.yml'),
}
# names with no catalogue row at all (checked: Material(name) raises "No matches found")
UNKNOWN = ['___BLANK', 'MYGLASS', 'ZZQX17', 'XQ-771', 'CUSTOM1', 'GLASSA1', 'QXZ901', 'W7JQ-1', 'VKT-22X', 'PYREX',
           'F_SILICA', 'SSKN5', 'LAFN21', 'BAFN10', 'PK51A', 'ZKN7', 'SSK4A', 'LAKN22', 'COC', '480R', 'OKP4',
           'C79-80', 'ZNSE', 'MGF2', 'SEAWATER', 'VACUUM']
# names with no row of that name which are substrings of another row's name: (nd, Vd of the real glass, predicted file)
SUBSTRING = {
    'FK5': (1.48749, 70.41, 'glass/schott/N-FK51A.yml'),
    'BK1': (1.51009, 63.46, 'glass/lzos/BK10.yml'),
    'ZNS': (2.3677, 15.2, 'main/ZnSiAs2/Boyd-o.yml'),
}
NON_ASCII = ['Objektiv f/2,8 Ø 25 mm', 'Triplé 50°', 'λ/4 µm test', '鏡頭 35mm',
             'Объектив']
ASCII_NAMES = ['Cooke triplet', 'DOUBLE GAUSS 28 DEGREE FIELD', 'Achromat 100mm', '47728 Asphere F/1.5', 'Petzval',
               'telephoto rev B', 'relay 1:1', '']


def _log(rng, lo, hi):
    return float(math.exp(rng.uniform(math.log(lo), math.log(hi))))


def _pick(rng, seq):
    return seq[int(rng.integers(len(seq)))]


def _sig(x, n):
    """round to n significant digits (what a designer types / what Zemax exports from single precision)."""
    return float('%.*g' % (n, x)) if x else 0.0


def gen_glass(rng, defects=True):
    r = rng.random()
    if defects and r < 0.02:
        name = _pick(rng, sorted(COLLISION))
        nd, vd, cat, mech, _ = COLLISION[name]
        return dict(name=name, nd=nd, vd=vd, model=0, kind='catalogue', cat=cat)
    if defects and r < 0.03:
        name = _pick(rng, sorted(SUBSTRING))
        nd, vd, _ = SUBSTRING[name]
        return dict(name=name, nd=nd, vd=vd, model=0, kind='model', cat=None)
    if r < 0.27:
        name = _pick(rng, UNKNOWN)
        nd = round(float(rng.uniform(1.40, 2.05)), int(rng.integers(3, 8)))
        vd = round(float(rng.uniform(17.0, 95.0)), int(rng.integers(1, 6)))
        return dict(name=name, nd=nd, vd=vd, model=(1 if name == '___BLANK' else 0), kind='model', cat=None)
    name, nd, vd, cat = _pick(rng, CATALOGUE)
    return dict(name=name, nd=nd, vd=vd, model=0, kind='catalogue', cat=cat)


def written_spec(p, n_of=None):
    """vkit.lens spec from the WRITTEN numbers.  n_of(k) -> index after file surface k (None: nd of the GLAS line)."""
    S = p['surfaces']
    surfaces = []
    for k in range(1, len(S)):
        s = S[k]
        c = float(s['curv'])
        d = dict(type='even_asphere' if s['type'] == 'EVENASPH' else 'standard',
                 radius=('inf' if c == 0 else 1.0 / c), conic=float(s['coni'] or 0.0),
                 t=(0.0 if k == len(S) - 1 else float(s['disz'])), stop=bool(s.get('stop')))
        if s['type'] == 'EVENASPH':
            d['coeffs'] = [float(v) for v in s['parm']]
        g = s.get('glass')
        if k == len(S) - 1:
            d['medium'] = surfaces[-1]['medium'] if surfaces else 'air'
        elif g is None:
            d['medium'] = 'air'
        else:
            d['medium'] = {'n': float(n_of(k)) if n_of else float(g['nd'])}
        surfaces.append(d)
    t0 = S[0]['disz']
    typ = {'ENPD': 'EPD', 'FNUM': 'imageFNO', 'OBNA': 'objectNA'}[p['aperture'][0]]
    return dict(obj_t=('inf' if t0 == 'INFINITY' else float(t0)), obj_n='air', surfaces=surfaces,
                aperture=[typ, float(p['aperture'][1])],
                field_type='angle' if p['ftype'] == 0 else 'object_height',
                fields=[[fy, 0.0, 0.0] for fx, fy in p['fields']],
                wavelengths=[[w, i + 1 == p['primary']] for i, (w, wt) in enumerate(p['wavelengths'])],
                telecentric=False, polarization='ignore')


def powered_count(spec):
    P = L.psys(spec)
    return int(np.sum(np.abs(P.c[:-1] * (P.n[1:-1] - P.n[:-2])) > 0)), P


def gen_lens_surfaces(rng, a, n, wild):
    """n interfaces between object and image -> list of surface dicts (file surfaces 1..n)."""
    ne = max(1, n // 3)
    rscale = max(1.0, ne / 2.5)
    out = []
    in_glass = False
    digits = int(rng.integers(5, 17))
    for k in range(n):
        s = dict(type='STANDARD', curv=0.0, coni=None, glass=None, stop=False, comm=None)
        last = k == n - 1
        dummy = (not in_glass) and (n == 1 or (n > 2 and rng.random() < 0.22))
        if dummy:
            # plane (sometimes curved) air-air surface: stop candidates, dummy reference planes
            if rng.random() < 0.15:
                s['curv'] = _sig((1 if rng.random() < 0.5 else -1) / _log(rng, 3 * a, 80 * a), digits)
            s['disz'] = _sig(_log(rng, 0.05 * a, 4 * a), digits)
            r = rng.random()
            if r < 0.08:
                s['disz'] = 0.0
            elif r < 0.12 and k > 0:
                s['disz'] = -_sig(_log(rng, 0.02 * a, 0.5 * a), digits)
            s['dummy'] = True
        else:
            if rng.random() < 0.10:
                s['curv'] = 0.0
            else:
                R = _log(rng, 2.5 * a, 60 * a) * rscale * (1 if rng.random() < 0.5 else -1)
                s['curv'] = _sig(1.0 / R, digits)
                if rng.random() < 0.25:
                    s['coni'] = round(float(rng.uniform(-2.5, 1.0)), int(rng.integers(1, 9)))
            if rng.random() < 0.15:
                s['type'] = 'EVENASPH'
                parm = [0.0] * 8
                if rng.random() < 0.04:
                    parm[0] = _sig(float(rng.normal() * 0.01 / a), 8)
                for i in range(1, int(rng.integers(2, 6))):
                    parm[i] = _sig(float(rng.normal() * 0.02 / a ** (2 * i + 1)), int(rng.integers(6, 17)))
                if rng.random() < 0.1:
                    parm[7] = _sig(float(rng.normal() * 1e-3 / a ** 15), 7)
                s['parm'] = parm
                if s['coni'] is None and rng.random() < 0.5:
                    s['coni'] = 0.0
            if s['coni'] is None and rng.random() < 0.08:
                s['coni'] = 0.0                           # explicit "CONI 0" line
            if in_glass:
                if last or rng.random() < 0.8:
                    in_glass = False                      # glass -> air
                else:
                    s['glass'] = gen_glass(rng)           # cemented interface
            else:
                if not last:
                    s['glass'] = gen_glass(rng)
                    in_glass = True
            if in_glass:
                s['disz'] = _sig(_log(rng, 0.15 * a, 1.5 * a), digits)
            else:
                s['disz'] = _sig(_log(rng, 0.05 * a, 6 * a), digits)
        out.append(s)
    if wild:
        for s in out:
            if rng.random() < 0.3 and s['curv'] != 0:
                s['curv'] = _sig(s['curv'] * _log(rng, 0.05, 8.0), digits)
            if rng.random() < 0.2:
                s['disz'] = _sig(s['disz'] * _log(rng, 0.01, 50.0), digits)
    # stop: prefer plane dummies (as designers do), otherwise any surface
    dummies = [i for i, s in enumerate(out) if s.get('dummy')]
    if dummies and rng.random() < 0.6:
        si = _pick(rng, dummies)
    else:
        si = int(rng.integers(n))
    out[si]['stop'] = True
    for s in out:
        s.pop('dummy', None)
    return out


def gen_prescription(rng):
    wild = rng.random() < 0.15
    for attempt in range(400):
        r = rng.random()
        if r < 0.08:
            n = int(rng.integers(1, 3))
        elif r < 0.55:
            n = int(rng.integers(2, 10))
        elif r < 0.82:
            n = int(rng.integers(10, 19))
        else:
            n = int(rng.integers(19, 31))
        if attempt > 250:
            n = min(n, 8)
        a = _log(rng, 1.0, 15.0)
        finite = rng.random() < 0.4
        surf = gen_lens_surfaces(rng, a, n, wild)
        obj = dict(type='STANDARD', curv=0.0, coni=None, glass=None, stop=False, comm=None,
                   disz=(_sig(_log(rng, 5 * a, 200 * a), int(rng.integers(3, 17))) if finite else 'INFINITY'))
        img = dict(type='STANDARD', curv=0.0, coni=None, glass=None, stop=False, comm=None, disz=0.0)
        p = dict(mode='SEQ', surfaces=[obj] + surf + [img])
        # provisional system data for the sanity filter
        p['aperture'] = ['ENPD', _sig(2 * a, 6)]
        p['ftype'] = 0
        p['fields'] = [[0.0, 0.0]]
        p['wavelengths'] = [[0.5875618, 1.0]]
        p['primary'] = 1
        spec = written_spec(p)
        npow, P = powered_count(spec)
        phi = float(P.power())
        sane = False
        if np.isfinite(phi) and npow >= 1 and 2e-3 < abs(phi) * a < 0.5:
            try:
                epl = float(P.EPL())
            except ZeroDivisionError:
                epl = float('nan')
            ya, ua = P.marginal(2 * a) if np.isfinite(epl) else (None, None)
            if ya is not None and np.all(np.isfinite(ya)) and abs(ua[-2]) > 1e-6 and abs(epl) < 60 * a \
                    and (not finite or epl + float(obj['disz']) > 3 * a) and np.max(np.abs(ya)) < 30 * a:
                bfd = -ya[-2] / ua[-2]
                if 0.3 * a < bfd < 400 * a and rng.random() < 0.8:
                    surf[-1]['disz'] = _sig(float(bfd), int(rng.integers(6, 17)))
                sane = phi > 0 or rng.random() < 0.25
        if not (sane or wild):
            continue
        break
    # ---- system aperture ----
    spec = written_spec(p)
    npow, P = powered_count(spec)
    phi = float(P.power())
    kinds = ['ENPD', 'FNUM'] + (['OBNA'] if finite else [])
    apk = _pick(rng, kinds)
    if apk == 'FNUM' and not (np.isfinite(phi) and phi > 0):
        apk = 'ENPD'
    if apk == 'ENPD':
        val = _sig(2 * a, int(rng.integers(2, 17)))
    elif apk == 'FNUM':
        val = _sig(abs(1.0 / phi) / (2 * a), int(rng.integers(2, 8)))
    else:
        try:
            epl = float(P.EPL())
        except ZeroDivisionError:
            epl = 0.0
        d = epl + float(obj['disz'])
        val = math.sin(math.atan(a / d)) if np.isfinite(d) and d > a else float(rng.uniform(0.01, 0.2))
        val = _sig(val, int(rng.integers(2, 10)))
    p['aperture'] = [apk, val]
    # ---- fields ----
    ftype = 1 if (finite and rng.random() < 0.5) else 0
    nf = int(_pick(rng, [1, 1, 2, 3, 3, 3, 4, 5, 5, 6, 7, 9, 12]))
    fmax = float(rng.uniform(1.0, 25.0)) if ftype == 0 else float(rng.uniform(0.02, 0.3) * float(obj['disz']))
    fdig = int(rng.integers(2, 17))
    style = rng.random()
    if style < 0.45:      # the classic 0, 0.7, 1 ladder
        ys = [fmax * (i / max(1, nf - 1)) ** 0.5 for i in range(nf)] if nf > 1 else [0.0]
    elif style < 0.7:     # symmetric about the axis
        ys = [fmax * v for v in np.linspace(-1, 1, nf)] if nf > 1 else [fmax]
    else:
        ys = [float(rng.uniform(-fmax, fmax)) for _ in range(nf)]
    ys = [_sig(v, fdig) for v in ys]
    xs = [0.0] * nf
    if rng.random() < 0.25:
        xs = [_sig(float(rng.uniform(-fmax, fmax)), fdig) if rng.random() < 0.6 else 0.0 for _ in range(nf)]
    fstyle = rng.random()
    if nf > 1 and fstyle < 0.08:            # fields along x only: every point has the same y
        xs, ys = ys, [0.0] * nf
    elif nf > 1 and fstyle < 0.16:          # a grid: several points share one y (and several one x)
        g = sorted({_sig(v, fdig) for v in (0.0, 0.7 * fmax, -fmax)})[:max(2, min(3, nf // 2))]
        pts = [(a, b) for b in g for a in g][:nf]
        while len(pts) < nf:
            pts.append(pts[int(rng.integers(len(pts)))])
        xs, ys = [a for a, b in pts], [b for a, b in pts]
    fields = [[x, y] for x, y in zip(xs, ys)]
    if nf > 1 and rng.random() < 0.3:       # duplicates
        for _ in range(int(rng.integers(1, 3))):
            i, j = int(rng.integers(nf)), int(rng.integers(nf))
            fields[i] = list(fields[j])
    if rng.random() < 0.5:                  # unsorted
        perm = rng.permutation(nf)
        fields = [fields[int(i)] for i in perm]
    p['ftype'], p['fields'] = ftype, fields
    p['pad_fields'] = bool(rng.random() < 0.7)
    p['ftyp_len'] = int(_pick(rng, [7, 8, 8, 9]))
    # ---- wavelengths ----
    nw = int(_pick(rng, [1, 1, 2, 3, 3, 3, 3, 4, 5, 6, 8, 12]))
    std = [0.4861327, 0.5875618, 0.6562725, 0.5460740, 0.4358343, 0.6328, 0.55, 0.7065188, 0.4046561, 0.5892938]
    if nw <= 3 and rng.random() < 0.5:
        wl = [[0.5875618], [0.4861327, 0.6562725], [0.4861327, 0.5875618, 0.6562725]][nw - 1]
    elif rng.random() < 0.4:
        wl = [std[int(i)] for i in rng.permutation(len(std))[:min(nw, len(std))]]
        while len(wl) < nw:
            wl.append(round(float(rng.uniform(0.42, 0.70)), 4))
    else:
        wl = [round(float(x), int(rng.integers(2, 9))) for x in rng.uniform(0.42, 0.70, nw)]
        if rng.random() < 0.6:
            wl = sorted(wl)
    wts = [1.0] * nw if rng.random() < 0.6 else [round(float(x), 2) for x in rng.uniform(0.1, 1.0, nw)]
    p['wavelengths'] = [[w, t] for w, t in zip(wl, wts)]
    p['primary'] = int(rng.integers(1, nw + 1))
    p['pad_waves'] = bool(rng.random() < 0.4)
    p['pwav_first'] = bool(rng.random() < 0.3)
    # ---- image surface: plane in 90 %, curved / conic / aspheric otherwise ----
    if rng.random() < 0.10:
        R = _log(rng, 3 * a, 100 * a) * (1 if rng.random() < 0.3 else -1)
        img['curv'] = _sig(1.0 / R, 10)
        r = rng.random()
        if r < 0.4:
            img['coni'] = round(float(rng.uniform(-2.0, 1.0)), 4)
        if r < 0.25:
            img['type'] = 'EVENASPH'
            img['parm'] = [0.0, _sig(float(rng.normal() * 0.02 / a ** 3), 8), _sig(float(rng.normal() * 0.02 / a ** 5), 8),
                           0.0, 0.0, 0.0, 0.0, 0.0]
    # ---- decoration ----
    cats = sorted({s['glass']['cat'] for s in p['surfaces'] if s.get('glass') and s['glass'].get('cat')})
    p['gcat'] = cats or ['SCHOTT']
    if rng.random() < 0.2:
        p['gcat'] = p['gcat'] + [c for c in ['MISC', 'INFRARED'] if rng.random() < 0.5]
    semi = a
    for k, s in enumerate(p['surfaces']):
        s['diam'] = _sig(semi * float(rng.uniform(0.6, 1.4)), 6) if 0 < k else 0.0
        s['extras'] = True
        s['flap'] = bool(rng.random() < 0.3)
        if rng.random() < 0.15:
            s['comm'] = _pick(rng, ['front group', 'STO', '47728', 'cemented', 'field lens', 'L1 R1',
                                    'Blende Ø 12', 'image', 'STOP', 'aperture STOP here', 'TYPE EVENASPH asphere',
                                    'GLAS N-BK7 window', 'CURV 0.01 nominal'])
    lean = rng.random() < 0.25        # hand-trimmed file like fixture lens1
    if lean:
        for s in p['surfaces']:
            s['extras'] = False
    p['name'] = _pick(rng, NON_ASCII) if rng.random() < 0.2 else _pick(rng, ASCII_NAMES)
    p['notes'] = [_pick(rng, NON_ASCII + ASCII_NAMES)] if rng.random() < 0.3 else []
    p['vers'] = _pick(rng, ['171115', '140124 258 36214', '181030 693 105780 L105780', '130711'])
    p['numfmt'] = _pick(rng, ['plain', 'plain', 'g17', 'E18'])
    p['encoding'] = 'utf-16' if rng.random() < 0.5 else 'utf-8'
    r_ = rng.random()
    p['lead'] = 'vers' if r_ < 0.7 else 'mode' if r_ < 0.85 else 'aperture'     # first line of the file (keyword-driven format)
    p['eol'] = '\r\n' if (p['encoding'] == 'utf-16' or rng.random() < 0.5) else '\n'
    return p, dict(wild=bool(wild), sane=bool(sane), a=a, finite=bool(finite))


def gen_case(rng, tier, i):
    p, info = gen_prescription(rng)
    if rng.random() < 0.08:
        p['mode'] = 'NSC'
        p['nsc_body'] = bool(rng.random() < 0.5)
        return dict(kind='nsc', p=p, info=info)
    return dict(kind='seq', p=p, info=info)


# ---------------------------------------------------------------------------
_TMP = {'dir': None, 'n': 0}


def shard_setup(rec):
    base = os.environ.get('VERIF_TMP') or None
    _TMP['dir'] = tempfile.mkdtemp(prefix='c20-zmx-', dir=base)

    def teardown():
        shutil.rmtree(_TMP['dir'], ignore_errors=True)
        _TMP['dir'] = None
    return teardown


def _tmpfile():
    if _TMP['dir'] is None or not os.path.isdir(_TMP['dir']):
        _TMP['dir'] = tempfile.mkdtemp(prefix='c20-zmx-')
    _TMP['n'] += 1
    return os.path.join(_TMP['dir'], 'case%06d.zmx' % _TMP['n'])


def _scalar(x):
    return float(np.ravel(np.asarray(x, dtype=float))[0])


def _asbuilt_nd(relpath):
    """n_d of the data file a glass-lookup mechanism predicts (read with the library's own file reader)."""
    from optiland.materials import Material
    from optiland.materials.material_file import MaterialFile
    db = os.path.join(os.path.dirname(os.path.abspath(Material._filename)), 'data-nk')
    return _scalar(MaterialFile(os.path.join(db, relpath)).n(LAMBDA_D))


def _bucket(n):
    return 'nsurf-1-2' if n <= 2 else 'nsurf-3-9' if n <= 9 else 'nsurf-10-18' if n <= 18 else 'nsurf-19-30'


def check_case(case, rec):
    from optiland.fileio import load_zemax_file
    from optiland.materials import Material, AbbeMaterial
    p = case['p']
    path = _tmpfile()
    nbytes = Z.write_zmx(p, path)
    enc = p['encoding']
    try:
        _check(case, rec, p, path, enc, nbytes, load_zemax_file, Material, AbbeMaterial)
    finally:
        try:
            os.remove(path)
        except OSError:
            pass


def _check(case, rec, p, path, enc, nbytes, load_zemax_file, Material, AbbeMaterial):
    S = p['surfaces']
    N = len(S)
    # ---------------- rejection clause ----------------
    if case['kind'] == 'nsc':
        rec.cls('mode-NSC', 'enc-' + enc)
        try:
            lens = load_zemax_file(path)
        except ValueError as e:
            rec.check('reject-nsc', True)
            return
        rec.check('reject-nsc', False, msg='a MODE NSC file was loaded and returned %r instead of raising ValueError'
                  % type(lens).__name__)
        return

    # ---------------- load ----------------
    try:
        lens = load_zemax_file(path)
    except Exception as e:
        import traceback
        tb = traceback.extract_tb(e.__traceback__)
        where = tb[-1].name if tb else '?'
        rec.check('load-' + enc, False, key='load-%s:%s@%s' % (enc, type(e).__name__, where),
                  msg='well-formed sequential %s file failed to load: %s: %s' % (enc, type(e).__name__, e),
                  detail=dict(head=Z.zmx_text(p)[:1500]))
        return
    rec.check('load-' + enc, True)

    sg = lens.surface_group
    nlens = N - 2
    img = S[-1]
    img_parm = [float(v) for v in img.get('parm', [])] if img['type'] == 'EVENASPH' else []
    img_curved = float(img['curv']) != 0.0
    img_conic = float(img['coni'] or 0.0) != 0.0
    img_asph = any(v != 0 for v in img_parm)
    DROP = 'zmx-last-surface-dropped'
    rec.cls('enc-' + enc, 'eol-' + ('crlf' if p['eol'] == '\r\n' else 'lf'), 'numfmt-' + p['numfmt'],
            'ap-' + p['aperture'][0], 'field-' + ('angle' if p['ftype'] == 0 else 'object-height'),
            _bucket(nlens), 'object-' + ('infinite' if S[0]['disz'] == 'INFINITY' else 'finite'),
            'fields-padded' if p['pad_fields'] else 'fields-unpadded',
            'waves-padded-24' if p['pad_waves'] else 'waves-unpadded',
            'pwav-first' if p['pwav_first'] else 'pwav-last',
            'lens-sane' if case['info'].get('sane') else 'lens-unconstrained',
            'block-lean' if not S[1].get('extras', True) else 'block-full')
    types = {s['type'] for s in S[1:-1]}
    rec.cls('types-' + '+'.join(sorted(types)))
    if img_curved or img_conic or img_asph:
        rec.cls('image-surface-shaped', 'mech-' + DROP)
    if any(ord(ch) > 127 for ch in p['name'] + ''.join(p['notes']) + ''.join(s.get('comm') or '' for s in S)):
        rec.cls('non-ascii-text')

    # ---------------- surface count ----------------
    ok = rec.check('surface-count', sg.num_surfaces == N,
                   msg='file has %d SURF blocks, lens has %d surfaces' % (N, sg.num_surfaces))
    if not ok:
        return
    rec.event('surfaces_compared', N)

    # ---------------- radii ----------------
    curv = np.array([float(s['curv']) for s in S])
    with np.errstate(divide='ignore'):
        want_R = np.where(curv == 0, np.inf, 1.0 / np.where(curv == 0, 1.0, curv))
    got_R = np.array([_scalar(r) for r in sg.radii])
    alt = want_R.copy(); alt[-1] = np.inf
    fl = (DROP,) if img_curved else ()
    rec.close('radii', got_R, want_R, 1e-12, alt=(alt if fl else None), flags=fl,
              msg='radii differ from 1/CURV of the file')

    # ---------------- thicknesses ----------------
    z = np.array([_scalar(v) for v in sg.positions])
    t0 = S[0]['disz']
    want_t0 = np.inf if t0 == 'INFINITY' else float(t0)
    rec.close('object-distance', z[1] - z[0], want_t0, 1e-12, scale=max(1.0, abs(want_t0) if np.isfinite(want_t0) else 1.0),
              msg='object distance differs from DISZ of SURF 0')
    want_t = np.array([float(s['disz']) for s in S[1:-1]])
    zs = max(1.0, float(np.max(np.abs(z[1:]))) if np.all(np.isfinite(z[1:])) else 1.0, float(np.sum(np.abs(want_t))))
    rec.close('thickness', np.diff(z[1:]), want_t, 1e-12, scale=zs,
              msg='vertex separations differ from the DISZ values of the file')

    # ---------------- conic ----------------
    want_k = np.array([float(s['coni'] or 0.0) for s in S])
    got_k = np.array([_scalar(v) for v in sg.conic])
    alt = want_k.copy(); alt[-1] = 0.0
    fl = (DROP,) if img_conic else ()
    rec.close('conic', got_k, want_k, 1e-15, scale=1.0, alt=(alt if fl else None), flags=fl,
              msg='conic constants differ from the CONI values of the file')

    # ---------------- surface type and aspheric coefficients ----------------
    def coeffs_of(surf):
        c = getattr(surf.geometry, 'c', None)
        c = [] if c is None else [_scalar(v) for v in c]
        return (c + [0.0] * 8)[:max(8, len(c))]
    got_c, want_c, alt_c = [], [], []
    type_ok, type_msg = True, ''
    for k, s in enumerate(S):
        g = sg.surfaces[k].geometry
        is_asph = type(g).__name__ == 'EvenAsphere'
        wp = [float(v) for v in s['parm']] if s['type'] == 'EVENASPH' else [0.0] * 8
        if s['type'] == 'EVENASPH' or is_asph:
            gc = coeffs_of(sg.surfaces[k])
            got_c += gc
            want_c += wp + [0.0] * (len(gc) - 8)
            alt_c += ([0.0] * len(gc)) if k == N - 1 else (wp + [0.0] * (len(gc) - 8))
        # surface type: an EVENASPH block must come back as an even asphere unless all its PARM are zero
        if k < N - 1 and s['type'] == 'EVENASPH' and any(v != 0 for v in wp) and not is_asph:
            type_ok, type_msg = False, 'SURF %d is EVENASPH in the file, %s in the lens' % (k, type(g).__name__)
        if s['type'] == 'STANDARD' and is_asph and any(v != 0 for v in coeffs_of(sg.surfaces[k])):
            type_ok, type_msg = False, 'SURF %d is STANDARD in the file, an even asphere with coefficients in the lens' % k
    rec.check('surface-type', type_ok, msg=type_msg)
    if want_c:
        sc = np.maximum(np.abs(np.array(want_c)), 1e-300)
        fl = (DROP,) if img_asph else ()
        rec.close('asphere-coeffs', np.array(got_c), np.array(want_c), 1e-14, scale=sc,
                  alt=(np.array(alt_c) if fl else None), flags=fl,
                  msg='even-asphere coefficients differ from PARM 1..8 of the file (PARM n is the r^(2n) term)')
        rec.cls('has-asphere')
        if any(s['type'] == 'EVENASPH' and float(s['parm'][0]) != 0 for s in S[1:-1]):
            rec.cls('asphere-with-r2-term')

    # ---------------- media ----------------
    air_n = []
    prim_w = float(p['wavelengths'][p['primary'] - 1][0])
    for k in range(1, N - 1):
        s = S[k]
        mat = sg.surfaces[k].material_post
        g = s.get('glass')
        if g is None:
            air_n.append(_scalar(mat.n(prim_w)))
            continue
        is_cat = isinstance(mat, Material) and getattr(mat, 'name', None) == g['name']
        is_abbe = isinstance(mat, AbbeMaterial)
        kind = 1.0 if is_cat else 2.0 if is_abbe else 0.0
        if g['kind'] == 'catalogue':
            nd_l = _scalar(mat.n(LAMBDA_D))
            alt, fl = None, ()
            if g['name'] in COLLISION:
                mech, rel = COLLISION[g['name']][3], COLLISION[g['name']][4]
                alt, fl = np.array([1.0, _asbuilt_nd(rel)]), (mech,)
                rec.cls('mech-' + mech)
            else:
                rec.cls('glass-catalogue-' + g['cat'])
            rec.close('glass-catalogue', np.array([kind, nd_l]), np.array([1.0, g['nd']]), 5e-4, scale=1.0,
                      alt=alt, flags=fl,
                      msg='GLAS %s (%s, nd=%.5f): loaded medium is %s with n(0.5876)=%.5f'
                      % (g['name'], g['cat'], g['nd'], type(mat).__name__, nd_l),
                      detail=dict(surface=k, loaded=getattr(mat, 'material_data', {}).get('filename')
                                  if hasattr(mat, 'material_data') else None))
        else:
            nd_l = _scalar(mat.index) if is_abbe else _scalar(mat.n(LAMBDA_D))
            alt, fl = None, ()
            if g['name'] in SUBSTRING:
                alt, fl = np.array([1.0, _asbuilt_nd(SUBSTRING[g['name']][2])]), ('zmx-glass-substring-match',)
                rec.cls('mech-zmx-glass-substring-match')
            else:
                rec.cls('glass-unknown-name')
            rec.close('glass-model', np.array([kind, nd_l]), np.array([2.0, g['nd']]), 1e-12, scale=1.0,
                      alt=alt, flags=fl,
                      msg='GLAS %s is in no catalogue: expected the model glass with nd=%r, got %s with nd=%r'
                      % (g['name'], g['nd'], type(mat).__name__, nd_l),
                      detail=dict(surface=k, loaded=getattr(mat, 'material_data', {}).get('filename')
                                  if hasattr(mat, 'material_data') else None))
            if is_abbe:
                rec.close('glass-model-abbe', _scalar(mat.abbe), g['vd'], 1e-12, scale=1.0,
                          msg='model glass Abbe number differs from the GLAS line')
                # the model glass HAS the file's index at the d line (the library's model is a polynomial fit: 2e-3 allowed,
                # 9e-4 measured over nd 1.40-2.05, Vd 17-95)
                rec.close('glass-model', _scalar(mat.n(LAMBDA_D)), g['nd'], 2e-3, scale=1.0, key='glass-model:index-at-d-line',
                          msg='model glass: n(0.5876) = %r for nd = %r on the GLAS line' % (_scalar(mat.n(LAMBDA_D)), g['nd']))
                ref = AbbeMaterial(g['nd'], g['vd'])
                rec.close('glass-model-dispersion', _scalar(mat.n(prim_w)), _scalar(ref.n(prim_w)), 1e-12, scale=1.0,
                          msg='loaded model glass does not behave as AbbeMaterial(nd, Vd) of the file')
    if air_n:
        rec.close('air-gaps', np.array(air_n), np.ones(len(air_n)), 1e-12, scale=1.0,
                  msg='a surface without GLAS line is not followed by air (n=1)')

    # ---------------- stop ----------------
    want_stop = [k for k, s in enumerate(S) if s.get('stop')][0]
    rec.check('stop', sg.stop_index == want_stop,
              msg='STOP is on SURF %d in the file, stop_index=%r in the lens' % (want_stop, sg.stop_index))
    nstops = sum(1 for sf in sg.surfaces if sf.is_stop)
    rec.check('stop-unique', nstops == 1, msg='%d surfaces carry the stop flag' % nstops)

    # ---------------- aperture ----------------
    want_ap = {'ENPD': 'EPD', 'FNUM': 'imageFNO', 'OBNA': 'objectNA'}[p['aperture'][0]]
    ap = lens.aperture
    ap_ok = ap is not None and ap.ap_type == want_ap and _scalar(ap.value) == float(p['aperture'][1])
    rec.check('aperture', ap_ok, key='aperture:' + p['aperture'][0].lower(),
              msg='file: %s %r; lens: %r %r' % (p['aperture'][0], p['aperture'][1], getattr(ap, 'ap_type', None),
                                               getattr(ap, 'value', None)))

    # ---------------- fields ----------------
    want_ft = 'angle' if p['ftype'] == 0 else 'object_height'
    fts = {f.field_type for f in lens.fields.fields} | {lens.field_type}
    rec.check('field-type', fts == {want_ft}, msg='file FTYP %d (%s); lens field types %r' % (p['ftype'], want_ft, sorted(fts)))
    want_f = sorted({(float(x), float(y)) for x, y in p['fields']})
    got_all = [(_scalar(f.x), _scalar(f.y)) for f in lens.fields.fields]
    got_f = sorted(set(got_all))
    rec.check('field-values', got_f == want_f,
              msg='set of field points differs: file %r, lens %r' % (want_f, got_f))
    want_max = max(math.hypot(x, y) for x, y in want_f)
    rec.close('field-max', _scalar(lens.fields.max_field), want_max, 1e-14,
              msg='maximum field differs from the largest written field')
    rec.cls('nfields-%s' % ('1' if len(p['fields']) == 1 else '2-5' if len(p['fields']) <= 5 else '6-12'))
    if len(want_f) < len(p['fields']):
        rec.cls('fields-duplicated')
    if [tuple(f) for f in p['fields']] != sorted((tuple(f) for f in p['fields']), key=lambda t: t[1]):
        rec.cls('fields-unsorted')
    if any(x != 0 for x, y in p['fields']):
        rec.cls('fields-with-x')

    # ---------------- wavelengths ----------------
    want_w = [float(w) for w, wt in p['wavelengths']]
    got_w = [_scalar(w) for w in lens.wavelengths.get_wavelengths()]
    rec.check('wavelengths', got_w == want_w, msg='file %r, lens %r' % (want_w, got_w))
    nprim = sum(1 for w in lens.wavelengths.wavelengths if w.is_primary)
    rec.check('primary', lens.wavelengths.primary_index == p['primary'] - 1 and nprim == 1,
              msg='PWAV %d; lens primary_index=%r (%d flagged primary)' % (p['primary'], lens.wavelengths.primary_index, nprim))
    rec.cls('nwaves-%s' % ('1' if len(want_w) == 1 else '2-3' if len(want_w) <= 3 else '4-12'),
            'primary-first' if p['primary'] == 1 else 'primary-last' if p['primary'] == len(want_w) else 'primary-interior')

    # ---------------- paraxial clause ----------------
    def n_of(k):
        return _scalar(sg.surfaces[k].material_post.n(prim_w))
    spec = written_spec(p, n_of)
    npow, P = powered_count(spec)
    if npow >= 2:
        rec.nontrivial_case()
    rec.sample(dict(prescription=p, zmx_head=Z.zmx_text(p)[:1800], bytes=nbytes,
                    loaded=dict(radii=got_R, positions=z, conic=got_k, stop=sg.stop_index,
                                aperture=[getattr(ap, 'ap_type', None), getattr(ap, 'value', None)],
                                fields=got_all, wavelengths=got_w, primary=lens.wavelengths.primary_index)))
    if any(s['type'] == 'EVENASPH' and float(s['parm'][0]) != 0 for s in S[1:-1]):
        rec.cls('paraxial-skipped-asphere-r2')
        return
    Pl = L.psys(spec, dtype=np.longdouble)
    y64, u64 = P.efl_data()
    yl, ul = Pl.efl_data()
    phi = float(P.power())
    zspan = max(1.0, float(np.max(np.abs(P.z))))
    if not np.isfinite(phi) or abs(phi) * zspan < 1e-6 or abs(float(u64[-1])) < 1e-9:
        rec.cls('paraxial-skipped-afocal')
        return
    par = lens.paraxial
    sK = 1.0 if P.n[-1] > 0 else -1.0
    f2_64, f2_l = sK * (-1.0 / float(u64[-1])), float(sK * (-1.0 / ul[-1]))
    scale_len = max(zspan, abs(f2_64))

    def tol(c, sc):
        return 1e-9 + 1e3 * float(c) / sc

    if phi > 0:
        rec.close('paraxial-f2', _scalar(par.f2()), f2_64, tol(abs(f2_64 - f2_l), scale_len), scale=scale_len,
                  msg='f2 of the loaded lens vs ABCD on the written numbers')
    else:
        rec.cls('paraxial-f2-skipped-negative-power')
    try:
        epl64, epll = float(P.EPL()), float(Pl.EPL())
        xpl64, xpll = float(P.XPL_from_image()), float(Pl.XPL_from_image())
    except ZeroDivisionError:
        rec.cls('paraxial-pupils-skipped-degenerate')
        return
    if not (np.isfinite(epl64) and np.isfinite(xpl64)):
        rec.cls('paraxial-pupils-skipped-degenerate')
        return
    sc = max(scale_len, abs(epl64))
    rec.close('paraxial-EPL', _scalar(par.EPL()), epl64, tol(abs(epl64 - epll), sc), scale=sc,
              msg='EPL of the loaded lens vs ABCD on the written numbers')
    sc = max(scale_len, abs(xpl64))
    rec.close('paraxial-XPL', _scalar(par.XPL()), xpl64, tol(abs(xpl64 - xpll), sc), scale=sc,
              msg='XPL of the loaded lens vs ABCD on the written numbers')
    typ, val = spec['aperture']
    if typ == 'imageFNO' and phi <= 0:
        rec.cls('paraxial-marginal-skipped-negative-power')
        return

    def epd_of(PP, f2v, epl):
        dt = PP.dtype
        if typ == 'EPD':
            return dt(val)
        if typ == 'imageFNO':
            return dt(f2v) / dt(val)
        return 2 * (dt(epl) + PP.t0) * np.tan(np.arcsin(dt(val) / abs(PP.n[0])))
    e64 = epd_of(P, f2_64, P.EPL())
    el = epd_of(Pl, sK * (-1.0 / ul[-1]), Pl.EPL())
    ya, ua = P.marginal(e64)
    yal, ual = Pl.marginal(el)
    if not (np.all(np.isfinite(ya)) and np.all(np.isfinite(ua))):
        rec.cls('paraxial-marginal-skipped-degenerate')
        return
    gy, gu = par.marginal_ray()
    gy, gu = np.ravel(gy), np.ravel(gu)
    hs = max(1.0, float(np.max(np.abs(ya))))
    us = max(1e-3, float(np.max(np.abs(ua))))
    cond = max(float(np.max(np.abs(np.asarray(ya, float) - np.asarray(yal, float)))) / hs,
               float(np.max(np.abs(np.asarray(ua, float) - np.asarray(ual, float)))) / us)
    rec.close('paraxial-marginal', np.concatenate([gy / hs, gu / us]),
              np.concatenate([np.asarray(ya, float) / hs, np.asarray(ua, float) / us]), 1e-9 + 1e3 * cond, scale=1.0,
              msg='marginal ray (heights, slopes) of the loaded lens vs ABCD on the written numbers')
    rec.event('paraxial_lenses_compared', 1)
