"""Independent paraxial model: y-nu ray transfer with signed indices.

Written from the textbook (Welford / Kingslake), sharing no code with optiland.
A system is a list of interfaces k = 1..K (the image surface is interface K):
    c[k]   vertex curvature (1/R, plus 2*C1 for an even asphere's r^2 term)
    t[k]   signed axial distance from vertex k to vertex k+1 (negative after an odd
           number of mirrors)
    n[k]   *signed* index after interface k (a mirror reverses the sign), n[0] is
           the object-space index
    t0     distance from the object to vertex 1 (inf for an infinite object)
Slopes u are true geometric slopes dy/dz, so that they can be compared with what
the library reports without further convention.
All arithmetic is done in the dtype passed in (float64 or longdouble) so that the
oracle's own conditioning can be measured.
"""
import numpy as np


class PSys:
    def __init__(self, c, t, n_after, n0, t0, stop, mirror, dtype=np.float64):
        self.dtype = dtype
        self.K = len(c)
        self.c = np.array(c, dtype=dtype)
        self.t = np.array(t, dtype=dtype)          # t[k-1] = distance from vertex k to k+1 ; len K (last unused)
        self.mirror = list(mirror)
        # signed indices: n_signed[0] object space, n_signed[k] after interface k
        ns = [dtype(n0)]
        sgn = 1
        for k in range(self.K):
            if self.mirror[k]:
                sgn = -sgn
                ns.append(-ns[-1])
            else:
                ns.append(dtype(sgn) * dtype(abs(n_after[k])))
        self.n = np.array(ns, dtype=dtype)
        self.t0 = dtype(t0)
        self.stop = stop                            # 1-based interface index of the stop
        # vertex positions, vertex 1 at z = 0
        z = [dtype(0)]
        for k in range(self.K - 1):
            z.append(z[-1] + self.t[k])
        self.z = np.array(z, dtype=dtype)

    # -- elementary operations -------------------------------------------
    def refract(self, k, y, u):
        """interface k (1-based): returns slope after."""
        n, n1 = self.n[k - 1], self.n[k]
        return (n * u - y * self.c[k - 1] * (n1 - n)) / n1

    def trace(self, y1, u0, first=1, last=None):
        """Start at interface `first` with height y1 and incoming slope u0; returns
        arrays (y[k], u_after[k]) for k = first..last."""
        last = last or self.K
        ys, us = [], []
        y, u = self.dtype(y1), self.dtype(u0)
        for k in range(first, last + 1):
            u = self.refract(k, y, u)
            ys.append(y)
            us.append(u)
            if k < last:
                y = y + self.t[k - 1] * u
        return np.array(ys, dtype=self.dtype), np.array(us, dtype=self.dtype)

    def trace_back(self, yk, u_after, k):
        """From interface k with height yk and slope *after* it, go backwards to
        object space. Returns (y[j] for j=k..1, u_before[j])."""
        ys, us = [], []
        y, u1 = self.dtype(yk), self.dtype(u_after)
        for j in range(k, 0, -1):
            n, n1 = self.n[j - 1], self.n[j]
            u = (n1 * u1 + y * self.c[j - 1] * (n1 - n)) / n   # invert the refraction equation
            ys.append(y)
            us.append(u)
            if j > 1:
                y = y - self.t[j - 2] * u
                u1 = u
        return np.array(ys, dtype=self.dtype), np.array(us, dtype=self.dtype)

    # -- system quantities ---------------------------------------------------
    def efl_data(self):
        """Ray (y=1,u=0) through the whole system: returns y_K, u'_K."""
        y, u = self.trace(1.0, 0.0)
        return y, u

    def power(self):
        y, u = self.efl_data()
        return -self.n[-1] * u[-1]          # Phi = -n'_K u'_K for unit input height

    def f2(self):
        """Rear focal length in the library's unsigned-index convention: |n'_K| / Phi
        (positive for a converging system whatever the number of mirrors)."""
        return abs(self.n[-1]) / self.power()

    def f2_signed(self):
        y, u = self.efl_data()
        return -1.0 / u[-1]

    def F2_from_image(self):
        """Back focal point relative to the last interface (the image surface)."""
        y, u = self.efl_data()
        return -y[-1] / u[-1]

    def reverse(self):
        """The same system traversed from image space to object space (for front quantities)."""
        K = self.K
        c = [-self.c[K - 1 - i] for i in range(K)]
        t = [self.t[K - 2 - i] for i in range(K - 1)] + [self.dtype(0)]
        # unsigned media in reverse order
        n_abs = [abs(x) for x in self.n]
        n_after = [n_abs[K - 1 - i] for i in range(K)]
        mirror = [self.mirror[K - 1 - i] for i in range(K)]
        return PSys(c, t, n_after, n_abs[K], np.inf, None, mirror, dtype=self.dtype)

    def EPL(self):
        """Entrance pupil position relative to vertex 1 (z of the stop image in object space)."""
        s = self.stop
        if s == 1:
            return self.dtype(0)
        # ray from the stop centre going backwards, slope before the stop = 1 (arbitrary)
        # start at interface s-1 side: height at s is 0; go back through s-1..1
        y = self.dtype(0)
        u = self.dtype(0.1)
        # u is the slope in the space before the stop
        for j in range(s - 1, 0, -1):
            y = y - self.t[j - 1] * u
            n, n1 = self.n[j - 1], self.n[j]
            u = (n1 * u + y * self.c[j - 1] * (n1 - n)) / n
        # in object space: height y at vertex 1, slope u -> crosses axis at z = -y/u
        return -y / u

    def XPL_from_image(self):
        """Exit pupil position relative to the last interface (image surface)."""
        s = self.stop
        K = self.K
        y = self.dtype(0)
        u = self.dtype(0.1)   # slope *before* the stop is irrelevant: height 0 => refraction does not bend relative
        # slope after the stop surface for a ray through its centre: n u = n' u'
        u = self.n[s - 1] * u / self.n[s]
        for k in range(s + 1, K + 1):
            y = y + self.t[k - 2] * u
            u = self.refract(k, y, u)
        # y is the height at the image surface, u the slope in image space
        return -y / u

    def marginal(self, epd):
        """Marginal ray: (y[0..K], u[0..K]); index 0 is the object record (height/slope in object space)."""
        epl = self.EPL()
        if np.isinf(self.t0):
            y1, u0 = self.dtype(epd) / 2, self.dtype(0)
            y0 = y1
        else:
            u0 = self.dtype(epd) / (2 * (epl + self.t0))
            y1 = u0 * self.t0
            y0 = self.dtype(0)
        y, u = self.trace(y1, u0)
        return np.concatenate([[y0], y]), np.concatenate([[u0], u])

    def chief(self, field_type, max_field):
        """Chief ray of the full field (+max_field): passes through the stop centre.
        Returns (y[1..K], u_after[1..K], y_obj, u_obj)."""
        s = self.stop
        # unit ray through the stop centre, slope before the stop = 1
        yb, ub = self.trace_back(0.0, self.n[s - 1] * self.dtype(1.0) / self.n[s], s)
        y1, u_obj = yb[-1], ub[-1]          # at vertex 1, object-space slope
        if field_type == 'angle':
            want = np.tan(np.deg2rad(self.dtype(max_field)))
            scale = want / u_obj
        else:
            # object height: y_obj = y1 - t0 * u_obj must equal max_field
            y_obj = y1 - self.t0 * u_obj
            scale = self.dtype(max_field) / y_obj
        y, u = self.trace(y1 * scale, u_obj * scale)
        return y, u, (y1 - (0 if np.isinf(self.t0) else self.t0) * u_obj) * scale, u_obj * scale

    def lagrange(self, ya, ua, yb, ub):
        """n (ybar u - y ubar) at every interface (slopes after the interface)."""
        return self.n[1:] * (yb * ua - ya * ub)
