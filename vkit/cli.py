"""vcheck <Cxx> [--tier quick|thorough] [--replay file]   (env: VERIF_SEED, VERIF_TIER, VERIF_REPO)"""
import argparse
import os
import sys


def main():
    ap = argparse.ArgumentParser()
    ap.add_argument('prop')
    ap.add_argument('--tier', default=None)
    ap.add_argument('--replay', default=None)
    a = ap.parse_args()
    tier = a.tier or os.environ.get('VERIF_TIER') or 'quick'
    if tier not in ('quick', 'thorough'):
        tier = 'quick'
    try:
        seed = int(os.environ.get('VERIF_SEED', '0') or 0)
    except ValueError:
        seed = 0
    from . import runner
    sys.exit(runner.main_check(a.prop.upper(), tier, seed, a.replay))


if __name__ == '__main__':
    main()
