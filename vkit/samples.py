"""The bundled sample designs, and extraction of a spec from a live lens.

`spec_from_lens` reads the prescription through the public getters (radius, conic,
coefficients, vertex z, material_post.n(wavelength)); media become ideal indices at
the requested wavelength, so the result is a *monochromatic* spec good for the
paraxial / Seidel oracles.
"""
import importlib
import inspect
import math

import numpy as np

MODULES = ['simple', 'objectives', 'eyepieces', 'infrared', 'lithography', 'microscopes', 'telescopes']


def _classes():
    from optiland.optic import Optic
    out = {}
    for m in MODULES:
        mod = importlib.import_module(f'optiland.samples.{m}')
        for name, obj in inspect.getmembers(mod, inspect.isclass):
            if issubclass(obj, Optic) and obj is not Optic and obj.__module__ == mod.__name__:
                out[name] = obj
    return out


def names():
    return sorted(_classes())


def make(name):
    return _classes()[name]()


def spec_from_lens(lens, wl=None):
    """None when the lens is not axially symmetric standard/even-asphere surfaces."""
    from optiland.geometries import Plane, StandardGeometry, EvenAsphere
    sg = lens.surface_group
    wl = wl or lens.primary_wavelength
    z = [float(np.ravel(p)[0]) for p in sg.positions]
    surfs = []
    for k, s in enumerate(sg.surfaces):
        g = s.geometry
        cs = g.cs
        if any(float(np.ravel(getattr(cs, a))[0]) != 0 for a in ('x', 'y', 'rx', 'ry', 'rz')):
            return None
        if k == 0:
            continue
        d = {}
        if isinstance(g, Plane):
            d['type'] = 'standard'
            d['radius'] = 'inf'
        elif type(g) is StandardGeometry:
            d['type'] = 'standard'
            d['radius'] = float(g.radius)
            d['conic'] = float(g.k)
        elif type(g) is EvenAsphere:
            d['type'] = 'even_asphere'
            d['radius'] = float(g.radius)
            d['conic'] = float(g.k)
            d['coeffs'] = [float(c) for c in g.c]
        else:
            return None
        d['t'] = (z[k + 1] - z[k]) if k + 1 < len(z) else 0.0
        if s.is_reflective:
            d['medium'] = 'mirror'
        else:
            d['medium'] = {'n': float(np.ravel(s.material_post.n(wl))[0])}
        if s.is_stop:
            d['stop'] = True
        surfs.append(d)
    obj = sg.surfaces[0]
    spec = dict(obj_t=('inf' if math.isinf(z[0]) else -z[0] + z[1]),
                obj_n={'n': float(np.ravel(obj.material_post.n(wl))[0])},
                surfaces=surfs,
                aperture=[lens.aperture.ap_type, float(lens.aperture.value)],
                field_type=lens.field_type,
                fields=[[float(f.y), float(f.vx), float(f.vy)] for f in lens.fields.fields],
                wavelengths=[[float(w.value), bool(w.is_primary)] for w in lens.wavelengths.wavelengths],
                telecentric=bool(lens.obj_space_telecentric), polarization='ignore')
    return spec


def load(name):
    lens = make(name)
    return lens, spec_from_lens(lens)
