"""Independent oracle for the three Zernike families (C10).

Nothing here is taken from optiland: the index rules are written from the publications,
the radial polynomial is evaluated through the Jacobi-polynomial identity (three-term
recurrence) and cross-checked against the exact integer-coefficient sum in rational
arithmetic by `selftest()`.

Index rules (a mode is (n, m): m > 0 <-> cos(m phi), m < 0 <-> sin(|m| phi), m = 0 axial)

* OSA/ANSI (Thibos et al. 2002, ANSI Z80.28): single index j = (n(n+2)+m)/2, j = 0, 1, ...;
  i.e. n ascending and, within n, m = -n, -n+2, ..., n ascending; m < 0 is the sine mode.
* Noll (JOSA 66, 207 (1976)): j = 1, 2, ...; n ascending; within n, |m| ascending; for
  |m| > 0 the two modes take two consecutive j, the *even* j being the cosine mode and the
  odd j the sine mode.
* Fringe / University of Arizona (Wyant & Creath; Loomis): ordered by (n+|m|)/2 ascending,
  within that by |m| descending (n ascending), cosine before sine; closed form
  number = (1 + (n+|m|)/2)^2 - 2|m| + (1 - sgn m)/2 with the m = 0 mode taking the single
  remaining number (1 + n/2)^2.

Normalisation: Standard and Noll  N = sqrt(2(n+1)) for m != 0, sqrt(n+1) for m = 0
(orthonormal: (1/pi) int Z_i Z_j dA = delta_ij); Fringe unnormalised (N = 1, peak value 1).
"""
from fractions import Fraction
from math import factorial, isqrt

import numpy as np

FAMILIES = ('standard', 'noll', 'fringe')


# --------------------------------------------------------------------------- index rules
def osa_pairs(count):
    """j = 0..count-1 -> (n, m), by inverting j = (n(n+2)+m)/2 with integers."""
    out = []
    for j in range(count):
        # n is the largest integer with n(n+1)/2 <= j   (row n of the pyramid starts at n(n+1)/2)
        n = (isqrt(8 * j + 1) - 1) // 2
        m = 2 * j - n * (n + 2)
        out.append((n, m))
    return out


def noll_pairs(count):
    """Noll's j = 1..count, built by walking j upward and applying the parity rule."""
    out = []
    j = 1
    n = 0
    while len(out) < count:
        for am in range(n % 2, n + 1, 2):          # |m| ascending, same parity as n
            if am == 0:
                out.append((n, 0))
                j += 1
            else:
                # two consecutive j: the even one is the cosine (+m), the odd one the sine (-m)
                first = (n, am) if j % 2 == 0 else (n, -am)
                second = (n, -first[1])
                out.extend([first, second])
                j += 2
        n += 1
    return out[:count]


def fringe_number(n, m):
    """Closed-form Fringe number of the mode (n, m), 1-based (exact integer arithmetic)."""
    am = abs(m)
    s = (n + am) // 2
    if m == 0:
        return (1 + s) ** 2
    return (1 + s) ** 2 - 2 * am + (0 if m > 0 else 1)


def fringe_pairs(count):
    """Fringe 1..count by the ordering rule (group (n+|m|)/2, |m| descending, cos before sin)."""
    out = []
    s = 0
    while len(out) < count:
        for am in range(s, -1, -1):
            n = 2 * s - am
            if am == 0:
                out.append((n, 0))
            else:
                out.extend([(n, am), (n, -am)])
        s += 1
    return out[:count]


def pairs(family, count=120):
    return {'standard': osa_pairs, 'noll': noll_pairs, 'fringe': fringe_pairs}[family](count)


# --------------------------------------------------------------------------- polynomials
def radial_coeffs(n, am):
    """Exact integer coefficients {power: coeff} of R_n^|m| (Born & Wolf 9.2.1 (5))."""
    assert 0 <= am <= n and (n - am) % 2 == 0
    out = {}
    for k in range((n - am) // 2 + 1):
        num = (-1) ** k * factorial(n - k)
        den = factorial(k) * factorial((n + am) // 2 - k) * factorial((n - am) // 2 - k)
        assert num % den == 0
        out[n - 2 * k] = num // den
    return out


def radial_exact(n, am, rho):
    """R_n^|m| at a rational rho, exact."""
    rho = Fraction(rho)
    return sum(c * rho ** p for p, c in radial_coeffs(n, am).items())


def jacobi(k, a, b, x):
    """P_k^{(a,b)}(x) by the standard three-term recurrence (numpy, float64 or longdouble)."""
    x = np.asarray(x)
    p0 = np.ones_like(x)
    if k == 0:
        return p0
    p1 = (a + 1) + (a + b + 2) * (x - 1) / 2
    for i in range(2, k + 1):
        c = 2 * i + a + b
        a1 = 2 * i * (i + a + b) * (c - 2)
        a2 = (c - 1) * (a * a - b * b)
        a3 = (c - 2) * (c - 1) * c
        a4 = 2 * (i + a - 1) * (i + b - 1) * c
        p0, p1 = p1, ((a2 + a3 * x) * p1 - a4 * p0) / a1
    return p1


def radial(n, am, rho):
    """R_n^|m|(rho) = rho^|m| P_k^{(0,|m|)}(2 rho^2 - 1), k = (n-|m|)/2 (stable for all rho in [0,1])."""
    am = abs(am)
    rho = np.asarray(rho, dtype=float)
    return rho ** am * jacobi((n - am) // 2, 0, am, 2 * rho * rho - 1)


def norm(family, n, m):
    if family == 'fringe':
        return 1.0
    return float(np.sqrt(n + 1.0)) if m == 0 else float(np.sqrt(2.0 * (n + 1.0)))


def azimuthal(m, phi):
    """Published convention: +cos(m phi) for m >= 0, +sin(|m| phi) for m < 0."""
    phi = np.asarray(phi, dtype=float)
    return np.cos(m * phi) if m >= 0 else np.sin(-m * phi)


def zern(family, n, m, rho, phi, normalised=True):
    v = radial(n, abs(m), rho) * azimuthal(m, phi)
    return norm(family, n, m) * v if normalised else v


def design(family, nterms, rho, phi, signs=None):
    """(npts, nterms) matrix of the first `nterms` published polynomials of the family.
    `signs`: optional per-term +-1 (the sign convention adopted for each term)."""
    rho = np.ravel(np.asarray(rho, float))
    phi = np.ravel(np.asarray(phi, float))
    A = np.empty((rho.size, nterms))
    for k, (n, m) in enumerate(pairs(family, nterms)):
        A[:, k] = zern(family, n, m, rho, phi)
    if signs is not None:
        A = A * np.asarray(signs, float)[None, :]
    return A


# --------------------------------------------------------------------------- quadrature
def disk_quadrature(max_degree):
    """Nodes (rho, phi) and weights w with sum w f = (1/pi) int_disk f dA, exact for products
    of two disk polynomials of degree <= max_degree each."""
    nr = max_degree + 2            # integrand rho * poly(2*max_degree): degree 2*max_degree+1 <= 2*nr-1
    x, wx = np.polynomial.legendre.leggauss(nr)
    r = 0.5 * (x + 1.0)
    wr = 0.5 * wx * r
    nphi = 2 * max_degree + 4      # trapezoid exact for trigonometric degree < nphi
    ph = 2 * np.pi * np.arange(nphi) / nphi
    R, P = np.meshgrid(r, ph, indexing='ij')
    W = np.outer(wr, np.full(nphi, 2 * np.pi / nphi)) / np.pi
    return R.ravel(), P.ravel(), W.ravel()


# --------------------------------------------------------------------------- self test
def selftest():
    """Consistency of the oracle with itself and with hand-copied published tables."""
    # published tables (first entries), copied by hand from the references
    assert osa_pairs(10) == [(0, 0), (1, -1), (1, 1), (2, -2), (2, 0), (2, 2), (3, -3), (3, -1), (3, 1), (3, 3)]
    assert noll_pairs(15) == [(0, 0), (1, 1), (1, -1), (2, 0), (2, -2), (2, 2), (3, -1), (3, 1), (3, -3), (3, 3),
                              (4, 0), (4, 2), (4, -2), (4, 4), (4, -4)]
    assert fringe_pairs(16) == [(0, 0), (1, 1), (1, -1), (2, 0), (2, 2), (2, -2), (3, 1), (3, -1), (4, 0),
                                (3, 3), (3, -3), (4, 2), (4, -2), (5, 1), (5, -1), (6, 0)]
    assert fringe_pairs(36)[35] == (10, 0) and fringe_pairs(25)[24] == (8, 0)
    for fam in FAMILIES:
        p = pairs(fam, 120)
        assert len(set(p)) == 120
        assert all(abs(m) <= n and (n - abs(m)) % 2 == 0 for n, m in p)
    assert all((n * (n + 2) + m) // 2 == j and (n * (n + 2) + m) % 2 == 0
               for j, (n, m) in enumerate(osa_pairs(120)))
    assert all(fringe_number(n, m) == j + 1 for j, (n, m) in enumerate(fringe_pairs(200)))
    for j, (n, m) in enumerate(noll_pairs(120), start=1):   # Noll: even j <-> cosine
        assert m == 0 or (j % 2 == 0) == (m > 0)
    # radial: recurrence vs exact rational evaluation, R(1) = 1
    rhos = [Fraction(1, 7), Fraction(1, 2), Fraction(5, 6), Fraction(99, 100), Fraction(1)]
    for n in range(0, 21):
        for am in range(n % 2, n + 1, 2):
            assert radial_exact(n, am, 1) == 1
            ex = np.array([float(radial_exact(n, am, r)) for r in rhos])
            fl = radial(n, am, np.array([float(r) for r in rhos]))
            assert np.max(np.abs(ex - fl)) < 1e-12, (n, am, ex, fl)
    # orthonormality of the oracle's own Standard/Noll polynomials
    R, P, W = disk_quadrature(14)
    for fam in ('standard', 'noll'):
        A = design(fam, 120, R, P)
        G = (A * W[:, None]).T @ A
        assert np.max(np.abs(G - np.eye(120))) < 1e-11
    return True
