"""Lens grammar: JSON spec -> Optic (public API only), spec -> paraxial oracle system,
and the constraint-based random generator shared by all checks.

spec = {
  'obj_t': float | 'inf',                 distance object -> vertex 1
  'obj_n': medium,                        object-space medium
  'surfaces': [ {                         interfaces 1..K; the last one is the image surface
       'type': 'standard'|'even_asphere'|'polynomial'|'chebyshev',
       'radius': float|'inf', 'conic': float, 'coeffs': list, 'norm': [nx, ny],
       't': float (to the next vertex; 0 for the image surface),
       'medium': medium after the surface,
       'stop': bool, 'dx','dy','rx','ry': floats (optional),
       'aperture': {'r_max':.., 'r_min':..} (optional),
       'coating': {'T':..,'R':..} | 'fresnel' (optional) } ... ],
  'aperture': [type, value], 'field_type': 'angle'|'object_height',
  'fields': [[y, vx, vy], ...], 'wavelengths': [[value_um, is_primary], ...],
  'telecentric': bool,
  'polarization': 'ignore' | {'is_polarized':..,'Ex','Ey','phase_x','phase_y'} }
medium = 'air' | 'mirror' | {'n': float, 'k': float} | {'glass': name, 'ref': ref|None} | {'abbe': [nd, vd]}
"""
import math

import numpy as np

from .oracles.paraxial import PSys

INF = float('inf')


class GeneratorExhausted(RuntimeError):
    """The constraint-based sampler found no admissible lens for the requested class (the case is skipped)."""


def fnum(x):
    if isinstance(x, str):
        return {'inf': INF, '-inf': -INF, 'nan': float('nan')}[x]
    return float(x)


def make_material(m):
    from optiland.materials import IdealMaterial, Material, AbbeMaterial
    if isinstance(m, str):
        return m
    if 'n' in m:
        return IdealMaterial(n=float(m['n']), k=float(m.get('k', 0.0)))
    if 'glass' in m:
        if m.get('ref'):
            return Material(m['glass'], m['ref'])
        return Material(m['glass'])
    if 'abbe' in m:
        return AbbeMaterial(m['abbe'][0], m['abbe'][1])
    raise ValueError(m)


def surface_kwargs(s):
    kw = {}
    typ = s.get('type', 'standard')
    R = fnum(s.get('radius', 'inf'))
    if typ == 'standard':
        if not math.isinf(R):
            kw['radius'] = R
            kw['conic'] = float(s.get('conic', 0.0))
    else:
        kw['radius'] = R
        kw['conic'] = float(s.get('conic', 0.0))
        kw['coefficients'] = [list(r) for r in s['coeffs']] if typ != 'even_asphere' else list(s.get('coeffs', []))
        if typ == 'chebyshev':
            kw['norm_x'], kw['norm_y'] = s.get('norm', [1, 1])
        if 'tol' in s:
            kw['tol'] = s['tol']
    for key in ('dx', 'dy', 'rx', 'ry'):
        if s.get(key):
            kw[key] = float(s[key])
    if s.get('aperture'):
        from optiland.physical_apertures import RadialAperture
        a = s['aperture']
        kw['aperture'] = RadialAperture(r_max=fnum(a['r_max']), r_min=a.get('r_min', 0.0))     # r_max may be 'inf' (pure obscuration)
    c = s.get('coating')
    if c == 'fresnel':
        kw['coating'] = 'fresnel'
    elif isinstance(c, dict):
        from optiland.coatings import SimpleCoating
        kw['coating'] = SimpleCoating(c['T'], c.get('R', 0.0))
    return typ, kw


def build(spec, optic_cls=None):
    """Build through the public API, surfaces appended in index order."""
    from optiland.optic import Optic
    lens = (optic_cls or Optic)()
    okw = {}
    if spec.get('obj_radius', 'inf') != 'inf':
        okw['radius'] = fnum(spec['obj_radius'])        # curved object surface (the field point lies ON it)
    lens.add_surface(index=0, thickness=fnum(spec['obj_t']), material=make_material(spec.get('obj_n', 'air')), **okw)
    for i, s in enumerate(spec['surfaces'], start=1):
        typ, kw = surface_kwargs(s)
        lens.add_surface(index=i, surface_type=typ, thickness=float(s.get('t', 0.0)),
                         material=make_material(s.get('medium', 'air')), is_stop=bool(s.get('stop', False)), **kw)
    finish(lens, spec)
    return lens


def finish(lens, spec):
    ap = spec.get('aperture')
    if ap:
        lens.set_aperture(ap[0], ap[1])
    if spec.get('field_type'):
        lens.set_field_type(spec['field_type'])
    for f in spec.get('fields', []):
        if isinstance(f, (int, float)):
            f = [f]
        lens.add_field(y=f[0], vx=(f[1] if len(f) > 1 else 0.0), vy=(f[2] if len(f) > 2 else 0.0))
    for w in spec.get('wavelengths', []):
        lens.add_wavelength(value=w[0], is_primary=bool(w[1]))
    if spec.get('telecentric'):
        lens.obj_space_telecentric = True
    pol = spec.get('polarization', 'ignore')
    if pol != 'ignore':
        from optiland.rays import PolarizationState
        lens.set_polarization(PolarizationState(**pol))
    return lens


def primary_wavelength(spec):
    for w in spec['wavelengths']:
        if w[1]:
            return w[0]
    return spec['wavelengths'][0][0]


def medium_index(m, wl, prev=None):
    """Unsigned index of a medium at wavelength wl (um).  Catalogue/model media are
    evaluated with the library's own material object: the paraxial statements take the
    lens's indices as given (C18 checks those against the data files separately)."""
    if m == 'air':
        return 1.0
    if m == 'mirror':
        return prev
    if 'n' in m:
        return float(m['n'])
    mat = make_material(m)
    return float(np.ravel(mat.n(wl))[0])


def vertex_curvature(s, ignore_r2=False):
    R = fnum(s.get('radius', 'inf'))
    c = 0.0 if math.isinf(R) else 1.0 / R
    typ = s.get('type', 'standard')
    if typ == 'even_asphere' and s.get('coeffs') and not ignore_r2:
        c += 2.0 * s['coeffs'][0]
    return c


def psys(spec, wl=None, dtype=np.float64, ignore_r2=False):
    """ignore_r2=True models known finding `asphere-r2-term` (vertex curvature from `radius` only)."""
    wl = wl or primary_wavelength(spec)
    n0 = medium_index(spec.get('obj_n', 'air'), wl)
    c, t, n_after, mirror = [], [], [], []
    prev = n0
    stop = None
    for i, s in enumerate(spec['surfaces'], start=1):
        c.append(vertex_curvature(s, ignore_r2))
        t.append(float(s.get('t', 0.0)))
        m = s.get('medium', 'air')
        mirror.append(m == 'mirror')
        prev = medium_index(m, wl, prev)
        n_after.append(prev)
        if s.get('stop'):
            stop = i
    return PSys(c, t, n_after, n0, fnum(spec['obj_t']), stop, mirror, dtype=dtype)


def has_mirror(spec):
    return any(s.get('medium') == 'mirror' for s in spec['surfaces'])


def n_mirrors(spec):
    return sum(1 for s in spec['surfaces'] if s.get('medium') == 'mirror')


def is_axial(spec):
    for s in spec['surfaces']:
        if any(s.get(k) for k in ('dx', 'dy', 'rx', 'ry')):
            return False
        if s.get('type') in ('polynomial', 'chebyshev'):
            return False
    return True


# ---------------------------------------------------------------------------
# random generation

GLASSES = [('N-BK7', 'schott'), ('N-SF11', 'schott'), ('N-SF5', 'schott'), ('N-LAK22', 'schott'),
           ('F2', 'schott'), ('N-FK51A', 'schott'), ('SF6', 'schott'), ('N-BAF10', 'schott'),
           ('N-SK16', 'schott'), ('LF5', 'schott')]


def loguniform(rng, lo, hi):
    return float(math.exp(rng.uniform(math.log(lo), math.log(hi))))


def rand_medium(rng, glass_p=0.0, absorbing_p=0.0):
    if rng.random() < glass_p:
        g = GLASSES[rng.integers(len(GLASSES))]
        return {'glass': g[0], 'ref': g[1]}
    m = {'n': round(float(rng.uniform(1.3, 2.2)), 6)}
    if rng.random() < absorbing_p:
        m['k'] = float(loguniform(rng, 1e-8, 1e-5))
    return m


def gen_axial(rng, nsurf=None, mirrors_p=0.0, conic_p=0.3, asphere_p=0.0, finite_p=0.4,
              glass_p=0.0, stop='any', obj_medium_p=0.0, ap_kinds=('EPD', 'imageFNO', 'objectNA'),
              field_types=('angle', 'object_height'), nwl=(1, 3), image='paraxial',
              max_field_deg=12.0, speed=(3.0, 12.0), immersed_p=0.0, neg_power_p=0.15,
              semi=None, max_tries=1500):
    """Random axially symmetric lens whose paraxial rays stay well inside every surface.

    Constraint-based: candidates are evaluated with the ABCD oracle and rejected when
    degenerate (|power| tiny, image absurdly far, ray heights beyond 0.45|R|).  Returns
    (spec, info) with info = class flags used for the evidence.
    """
    for _ in range(max_tries):
        K = int(nsurf if isinstance(nsurf, int) else rng.integers(*(nsurf or (2, 9))))   # optical interfaces
        a = semi or loguniform(rng, 1.0, 15.0)      # entrance semi-diameter
        finite = rng.random() < finite_p
        obj_t = float(loguniform(rng, 5 * a, 200 * a)) if finite else INF
        surfaces = []
        sign = 1
        in_glass = False
        prev_n = 1.0
        for k in range(K):
            s = {'type': 'standard'}
            is_mirror = rng.random() < mirrors_p
            # curvature: |R| >= 2.2 a, a few planes
            if rng.random() < 0.12:
                s['radius'] = 'inf'
            else:
                R = loguniform(rng, 2.5 * a, 60 * a) * (1 if rng.random() < 0.5 else -1)
                s['radius'] = round(R, 6)
                if rng.random() < conic_p:
                    s['conic'] = round(float(rng.uniform(-2.5, 1.0)), 6)
                if rng.random() < asphere_p:
                    s['type'] = 'even_asphere'
                    s['conic'] = s.get('conic', 0.0)
                    ncoef = int(rng.integers(1, 4))
                    s['coeffs'] = [float(rng.normal() * 0.02 / a ** (2 * i + 1)) for i in range(ncoef)]
                    if rng.random() < 0.75:
                        s['coeffs'][0] = 0.0
            if is_mirror:
                s['medium'] = 'mirror'
                sign = -sign
                s['t'] = round(sign * loguniform(rng, 2 * a, 12 * a), 6)
            else:
                if in_glass or rng.random() < 0.1:
                    if rng.random() < 0.85:
                        s['medium'] = 'air'
                        in_glass = False
                    else:
                        s['medium'] = rand_medium(rng, glass_p)   # cemented
                        in_glass = True
                else:
                    s['medium'] = rand_medium(rng, glass_p)
                    in_glass = True
                s['t'] = round(sign * (loguniform(rng, 0.15 * a, 1.5 * a) if in_glass
                                       else loguniform(rng, 0.05 * a, 6 * a)), 6)
            surfaces.append(s)
        # last optical surface must leave the image space medium: air or immersed
        last = surfaces[-1]
        if last['medium'] != 'mirror':
            last['medium'] = rand_medium(rng) if rng.random() < immersed_p else 'air'
        # stop
        if stop == 'first':
            si = 0
        elif stop == 'last':
            si = K - 1
        elif stop == 'interior' and K > 2:
            si = int(rng.integers(1, K - 1))
        else:
            si = int(rng.integers(0, K))
        surfaces[si]['stop'] = True
        # image surface placeholder
        surfaces.append({'type': 'standard', 'radius': 'inf', 't': 0.0, 'medium': last['medium'] if last['medium'] != 'mirror' else 'mirror_pre'})
        nw = int(rng.integers(nwl[0], nwl[1] + 1))
        wls = sorted(round(float(x), 5) for x in rng.uniform(0.45, 0.7, nw))
        pi = int(rng.integers(nw))
        obj_n = rand_medium(rng) if (finite and rng.random() < obj_medium_p) else 'air'
        spec = dict(obj_t=('inf' if not finite else round(obj_t, 6)), obj_n=obj_n, surfaces=surfaces,
                    wavelengths=[[w, i == pi] for i, w in enumerate(wls)], telecentric=False,
                    polarization='ignore')
        # image medium: same as after last optical surface
        img = surfaces[-1]
        if img['medium'] == 'mirror_pre':
            # medium before the mirror continues: find it
            prev = obj_n          # all-mirror system: the image lies in the object-space medium
            for s in surfaces[:-1]:
                if s['medium'] != 'mirror':
                    prev = s['medium']
            img['medium'] = prev
        # field / aperture
        ft = field_types[int(rng.integers(len(field_types)))]
        if not finite:
            ft = 'angle'
        apk = ap_kinds[int(rng.integers(len(ap_kinds)))]
        if apk == 'objectNA' and not finite:
            apk = 'EPD'
        spec['field_type'] = ft
        P = psys(spec)
        phi = float(P.power())
        if not np.isfinite(phi) or abs(phi) * a < 2e-3 or abs(phi) * a > 0.5:
            continue
        if phi < 0 and rng.random() > neg_power_p:
            continue
        # place the image surface
        try:
            epl = float(P.EPL())
        except ZeroDivisionError:
            continue
        if not np.isfinite(epl) or abs(epl) > 60 * a:
            continue
        if finite and (epl + obj_t) < 3 * a:
            continue
        ya, ua = P.marginal(2 * a)
        if abs(ua[-2]) < 1e-6:
            continue   # (nearly) afocal
        bfd = -ya[-2] / ua[-2]          # from the last optical vertex along z
        lastt = None
        sgn_img = sign
        if image in ('paraxial', 'paraxial_only') and np.isfinite(bfd) and bfd * sgn_img > 0.3 * a and abs(bfd) < 400 * a:
            lastt = float(bfd)
        else:
            if image == 'paraxial_only':
                continue
            lastt = sgn_img * loguniform(rng, 2 * a, 30 * a)
        surfaces[-2]['t'] = round(lastt, 9)
        P = psys(spec)
        # aperture value
        fno_target = rng.uniform(*speed)
        f2 = float(P.f2())
        if apk == 'EPD':
            val = 2 * a
        elif apk == 'imageFNO':
            val = abs(f2) / (2 * a)
            if phi < 0:
                continue
        else:
            val = medium_index(obj_n, primary_wavelength(spec)) * math.sin(math.atan(a / (epl + obj_t)))
        spec['aperture'] = [apk, round(float(val), 9)]
        # fields
        if ft == 'angle':
            fmax = float(rng.uniform(1.0, max_field_deg))
        else:
            fmax = float(rng.uniform(0.02, 0.25) * obj_t * math.tan(math.radians(max_field_deg)) / 0.2)
            fmax = min(fmax, 0.2 * obj_t)
        nf = int(rng.integers(1, 4))
        fl = sorted(set([0.0] + [round(fmax * x, 6) for x in ([1.0] if nf == 1 else [0.7, 1.0][:nf - 1] + [1.0])]))
        spec['fields'] = [[f, 0.0, 0.0] for f in fl]
        # sanity on heights
        epd = epd_of(spec, P)
        ya, ua = P.marginal(epd)
        yb, ub, _, _ = P.chief(ft, fmax)
        ok = True
        for k, s in enumerate(surfaces[:-1]):
            R = fnum(s.get('radius', 'inf'))
            h = abs(ya[k + 1]) + abs(yb[k])
            if not np.isfinite(h) or h > 40 * a:
                ok = False
            if not math.isinf(R) and h > 0.42 * abs(R):
                ok = False
        if not ok:
            continue
        info = dict(power='neg' if phi < 0 else 'pos', finite=finite, mirrors=n_mirrors(spec),
                    stop=('first' if si == 0 else 'last' if si == K - 1 else 'interior'),
                    ap=apk, field=ft, K=K)
        return spec, info
    raise GeneratorExhausted('lens generator exhausted its attempts')


def epd_of(spec, P=None):
    """Entrance pupil diameter implied by the aperture specification (oracle side)."""
    P = P or psys(spec)
    typ, val = spec['aperture']
    if typ == 'EPD':
        return float(val)
    if typ == 'imageFNO':
        return float(P.f2()) / float(val)
    # objectNA
    wl = primary_wavelength(spec)
    n0 = medium_index(spec.get('obj_n', 'air'), wl)
    u0 = math.asin(val / n0)
    return 2 * (float(P.EPL()) + fnum(spec['obj_t'])) * math.tan(u0)


def class_names(info):
    return [f"power-{info['power']}", 'object-finite' if info['finite'] else 'object-infinite',
            f"mirrors-{min(info['mirrors'], 2)}{'+' if info['mirrors'] > 2 else ''}",
            f"stop-{info['stop']}", f"ap-{info['ap']}", f"field-{info['field']}"]


# ---------------------------------------------------------------------------
# general (non axially symmetric) decoration of an axial lens

def decorate(spec, rng, a, tilt_p=0.3, decenter_p=0.3, freeform_p=0.3, cheb_norm1=False, big_tilt_p=0.1):
    """Turn some surfaces of an axial spec into xy-polynomial / Chebyshev surfaces and add
    tilts / decentres.  `a` is the entrance semi-diameter (sets the size of the perturbations).
    Returns the list of class names added."""
    classes = []
    for s in spec['surfaces'][:-1]:
        R = fnum(s.get('radius', 'inf'))
        if s.get('type', 'standard') == 'standard' and rng.random() < freeform_p:
            kind = 'polynomial' if rng.random() < 0.5 else 'chebyshev'
            s['type'] = kind
            s['conic'] = float(s.get('conic', 0.0))
            ni, nj = int(rng.integers(1, 5)), int(rng.integers(1, 5))
            if kind == 'polynomial':
                C = [[0.0] * nj for _ in range(ni)]
                for i in range(ni):
                    for j in range(nj):
                        if i + j >= 2 and rng.random() < 0.7:
                            C[i][j] = float(rng.normal() * 0.01 * a / (2 * a) ** (i + j))
                        elif i + j == 1 and rng.random() < 0.3:
                            C[i][j] = float(rng.normal() * 0.003)
                s['coeffs'] = C
            else:
                nrm = 1.0 if cheb_norm1 else float(round(rng.uniform(2.5, 6.0) * a, 3))
                C = [[0.0] * nj for _ in range(ni)]
                for i in range(ni):
                    for j in range(nj):
                        if i + j >= 1 and rng.random() < 0.7:
                            C[i][j] = float(rng.normal() * 0.01 * a)
                s['coeffs'] = C
                s['norm'] = [nrm, nrm if rng.random() < 0.5 or cheb_norm1 else float(round(rng.uniform(2.5, 6.0) * a, 3))]
            if rng.random() < 0.5:
                s['tol'] = 1e-10
            classes.append(f'shape-{kind}')
        if rng.random() < tilt_p:
            big = rng.random() < big_tilt_p and math.isinf(R)
            amp = 0.3 if big else 0.04
            s['rx'] = float(round(rng.uniform(-amp, amp), 6))
            if rng.random() < 0.6:
                s['ry'] = float(round(rng.uniform(-amp, amp), 6))
            classes.append('tilted-big' if big else 'tilted')
        if rng.random() < decenter_p:
            s['dx'] = float(round(rng.normal() * 0.03 * a, 6))
            s['dy'] = float(round(rng.normal() * 0.03 * a, 6))
            classes.append('decentred')
    return classes


def vertex_positions(spec):
    """z of vertices 0..K (object first; -inf for an infinite object), vertex 1 at z = 0."""
    t0 = fnum(spec['obj_t'])
    z = [-t0, 0.0]
    for s in spec['surfaces'][:-1]:
        z.append(z[-1] + float(s.get('t', 0.0)))
    return z


# ---------------------------------------------------------------------------
# edit-after-first-use workloads (shared by checks that compare an edited lens with the oracle / a fresh lens of the
# edited prescription)

def gen_edits(rng, spec, kinds=('index', 'radius', 'thickness', 'conic'), nmax=2):
    """1..nmax edits [kind, surface, value] through the public setters, valid for `spec`.

    Index edits are not placed in front of a mirror (the library keeps the medium behind the mirror at its old index:
    the two descriptions would differ) nor on the last optical surface (image-surface interface semantics)."""
    K = len(spec['surfaces'])
    out = []
    for _ in range(int(rng.integers(1, nmax + 1))):
        k = int(rng.integers(1, K))
        su = spec['surfaces'][k - 1]
        kind = str(rng.choice(list(kinds)))
        curved = su.get('radius', 'inf') != 'inf'
        std = su.get('type', 'standard') in ('standard', 'even_asphere')
        if kind == 'index' and k < K - 1 and su.get('medium') != 'mirror' and spec['surfaces'][k].get('medium') != 'mirror':
            out.append(['index', k, round(float(rng.uniform(1.3, 1.95)), 6)])
        elif kind == 'radius' and std and curved:
            out.append(['radius', k, round(float(su['radius']) * float(rng.uniform(0.7, 1.5)), 6)])
        elif kind == 'conic' and std and curved:
            out.append(['conic', k, round(float(rng.uniform(-1.5, 0.5)), 6)])
        elif kind == 'thickness':
            out.append(['thickness', k, round(float(su['t']) * float(rng.uniform(0.5, 1.5)), 6)])
    return out


def apply_edits(lens, spec, edits):
    """Apply edits to the live lens through the public setters (lens=None: to the spec only); returns the spec of the
    edited prescription."""
    import copy
    spec = copy.deepcopy(spec)
    for kind, k, v in edits:
        su = spec['surfaces'][k - 1]
        if kind == 'index':
            su['medium'] = {'n': v}
            if lens is not None:
                lens.set_index(v, k)
        elif kind == 'radius':
            su['radius'] = v
            if lens is not None:
                lens.set_radius(v, k)
        elif kind == 'conic':
            su['conic'] = v
            if lens is not None:
                lens.set_conic(v, k)
        else:
            su['t'] = v
            if lens is not None:
                lens.set_thickness(v, k)
    return spec
