"""C19 -- save/load preserves behaviour (round-trip monitor).

For every generated lens two round trips are made and observed at the public API only:

  A  Optic.from_dict(lens.to_dict())
  B  save_optiland_file(lens, tmp.json) ; load_optiland_file(tmp.json)

and the reloaded lens is compared with the original: dictionary form (to_dict(reloaded) must equal the
dictionary it was loaded from -- for B the JSON-decoded file), prescription (props.c01.snapshot plus
everything else the statement lists), 30 generic rays per wavelength plus one Optic.trace() fan (bit
identical records at every surface) and every paraxial quantity (==).  A third of the lenses first go
through an edit history (the C01 history generator, plus scale_system and a short optimisation) and must
still be serialisable afterwards.

Known defect mechanisms are recognised from *what failed* and the class flags of the case:

  cs-z-ndarray                          set_thickness / MarginalRayHeightSolve.apply / scale_system (and the
                                        thickness pickup / thickness variable built on them) leave cs.z as a
                                        1-element ndarray; json refuses it
  polarization-state-not-serialisable   to_dict() puts the PolarizationState object itself into the dictionary
  fresnel-coating-not-serialisable      FresnelCoating.to_dict() puts the two material objects into the dictionary
  image-surface-class-not-loadable      Surface._from_dict calls ImageSurface(...) with the 8 Surface arguments
  pickup-reapplied-on-load              PickupManager.from_dict re-applies every pickup while loading; the
                                        reloaded lens equals the original *after* lens.pickups.apply() (as-built
                                        model: that call is made on the original and everything is observed again)

A save exception is explained only when it is the json encoder's TypeError and EVERY non-JSON leaf of
to_dict() belongs to one of the mechanisms above (path + type + class flag); anything else is keyed
`...:unexplained+...` and can never be covered by a known finding.
"""
import inspect
import json
import math
import os
import shutil
import tempfile
import traceback

import numpy as np

from vkit import lens as L
from props import c01

ID = 'C19'
RULE = ('three families.  features (~60 %): random lenses of 2-8 interfaces from the constraint-based generator, decorated '
        'so that every shape (plane, sphere, conic, even asphere, xy-polynomial, Chebyshev; tilted / decentred / rotated about z), medium kind '
        '(ideal n, ideal n+k, catalogue glass with and without reference, Abbe model glass, mirror), coating (none, '
        'SimpleCoating, Fresnel), scatter model (Lambertian / Gaussian BSDF, constructed, not traced through), radial '
        'aperture (with / without obscuration), 1-3 fields with vignetting factors, 1-3 wavelengths (um and nm), '
        'non-default max_iter on iterated surfaces, polarization ignore / polarized / unpolarized PolarizationState, object-space telecentric, radius / conic / '
        'thickness pickups (up to date and stale), marginal-ray-height solves and an image surface of class ImageSurface '
        'occur, in random combination.  history (~40 %): a C01 edit history (5-60 of set_radius / set_conic / set_thickness / '
        'set_index / set_asphere_coeff / Variable.update of all nine kinds / pickups.add / solves.add / update / image_solve / '
        'add_wavelength), half of them with the vertex-moving operations filtered out, optionally followed by '
        'scale_system(s) and a 3-iteration OptimizerGeneric run (radius variable, f2 operand).  sample: the 24 bundled '
        'designs.  30 random (Hy, Px, Py) rays per wavelength + one hexapolar Optic.trace() fan per lens.  non-trivial = '
        '>= 3 interfaces and >= 2 feature classes beyond plain spheres in ideal media; distinct = distinct case hash')
TIERS = {'quick': dict(shards=12, cases=16, budget_s=200), 'thorough': dict(shards=16, cases=600, budget_s=420)}
MIN_NONTRIVIAL = {'quick': 120, 'thorough': 2500}
MIN_EVALS = {
    'to_dict-does-not-raise': {'quick': 150, 'thorough': 3000},
    'from_dict-does-not-raise': {'quick': 150, 'thorough': 3000},
    'save-does-not-raise': {'quick': 80, 'thorough': 1500},
    'load-does-not-raise': {'quick': 60, 'thorough': 1000},
    'serialisable-after-history': {'quick': 40, 'thorough': 900},
    'dict-idempotent': {'quick': 200, 'thorough': 3500},
    'prescription-preserved': {'quick': 200, 'thorough': 3500},
    'rays-identical': {'quick': 180, 'thorough': 3000},
    'paraxial-identical': {'quick': 200, 'thorough': 3500},
}
ASSUMPTIONS = [
    'the original lens is the oracle: nothing is compared with a formula, only reloaded against original (and, for the '
    'known mechanism pickup-reapplied-on-load, against the original after lens.pickups.apply())',
    'the prescription is read through public attributes: c01.snapshot (vertex, tilt, decentre, radius, conic, coefficients, '
    'n at 3 wavelengths, stop) + rz, tol, max_iter, norm_x/y, extinction k at 3 wavelengths, medium class, surface class, '
    'is_reflective, coating class + T/R (Fresnel: n of its two media), RadialAperture r_max/r_min, BSDF class + sigma, '
    'aperture type/value, field type, fields (x, y, vx, vy), wavelengths + primary, stop index, telecentric flag, '
    'polarization setting, pickups and solves; floats are compared at 1e-15 relative (JSON round-trips a double exactly)',
    'dictionary equality is deep equality after normalising numpy scalars/arrays to Python numbers/lists, tuples to lists, '
    'NaN == NaN, 1 == 1.0; objects placed in the dictionary by to_dict() are compared by identity, else by class + to_dict()/vars()',
    'lenses carrying a BSDF are not ray traced (scatter is random by design); all other clauses apply to them',
    'an exception raised by tracing / a paraxial accessor on the ORIGINAL lens (e.g. the documented Chebyshev domain error) '
    'must be raised identically by the reloaded lens; it is not itself a C19 violation',
    'the hostile C01 operation set_thickness(v, 0) on an infinite object (known C01 finding) is skipped in histories',
]
ANCHORS = [('optiland.optic', 'Optic.to_dict'), ('optiland.optic', 'Optic.from_dict'),
           ('optiland.surfaces.standard_surface', 'Surface.to_dict'), ('optiland.surfaces.standard_surface', 'Surface.from_dict'),
           ('optiland.surfaces.standard_surface', 'Surface._from_dict'),
           ('optiland.surfaces.object_surface', 'ObjectSurface._from_dict'),
           ('optiland.surfaces.surface_group', 'SurfaceGroup.from_dict'),
           ('optiland.geometries.base', 'BaseGeometry.from_dict'),
           ('optiland.geometries.plane', 'Plane.from_dict'), ('optiland.geometries.standard', 'StandardGeometry.from_dict'),
           ('optiland.geometries.even_asphere', 'EvenAsphere.from_dict'),
           ('optiland.geometries.polynomial', 'PolynomialGeometry.from_dict'),
           ('optiland.geometries.chebyshev', 'ChebyshevPolynomialGeometry.from_dict'),
           ('optiland.coordinate_system', 'CoordinateSystem.from_dict'),
           ('optiland.materials.base', 'BaseMaterial.from_dict'), ('optiland.materials.ideal', 'IdealMaterial.from_dict'),
           ('optiland.materials.material', 'Material.from_dict'), ('optiland.materials.abbe', 'AbbeMaterial.from_dict'),
           ('optiland.coatings', 'BaseCoating.from_dict'), ('optiland.coatings', 'SimpleCoating.from_dict'),
           ('optiland.coatings', 'FresnelCoating.from_dict'),
           ('optiland.scatter', 'BaseBSDF.from_dict'), ('optiland.physical_apertures', 'BaseAperture.from_dict'),
           ('optiland.physical_apertures', 'RadialAperture.from_dict'),
           ('optiland.aperture', 'Aperture.from_dict'), ('optiland.fields', 'FieldGroup.from_dict'),
           ('optiland.wavelength', 'WavelengthGroup.from_dict'),
           ('optiland.pickup', 'PickupManager.from_dict'), ('optiland.solves', 'SolveManager.from_dict'),
           ('optiland.fileio.optiland_handler', 'save_optiland_file'),
           ('optiland.fileio.optiland_handler', 'load_optiland_file')]

NRAYS = 30
WLS = c01.WLS
PARAXIAL = ('f1', 'f2', 'F1', 'F2', 'P1', 'P2', 'N1', 'N2', 'EPL', 'EPD', 'XPL', 'XPD', 'FNO', 'magnification',
            'invariant', 'marginal_ray', 'chief_ray')
RAYFIELDS = ('x', 'y', 'z', 'L', 'M', 'N', 'opd', 'intensity')
PLAIN = ('shape-sphere', 'shape-plane', 'medium-ideal', 'polarization-ignore', 'fields-1', 'wavelengths-1',
         'object-finite', 'object-infinite', 'ap-EPD', 'ap-imageFNO', 'ap-objectNA', 'field-angle', 'field-object_height',
         'kind-features', 'kind-history', 'kind-sample', 'history-clean', 'history-with-vertex-moving-ops')


# ---------------------------------------------------------------------------
# generation

def fixed_cases(tier):
    from vkit import samples
    return [dict(kind='sample', name=n, **_rays(np.random.default_rng(1000 + i)))
            for i, n in enumerate(samples.names())]


def _rays(rng, n=NRAYS):
    rr = np.sqrt(rng.uniform(0, 1, n))
    th = rng.uniform(0, 2 * np.pi, n)
    rr[:3] = 1.0
    Hy = rng.uniform(-1, 1, n)
    Hy[:2] = (1.0, 0.0)
    return dict(Hy=[float(v) for v in Hy], Px=[float(v) for v in rr * np.cos(th)], Py=[float(v) for v in rr * np.sin(th)],
                fanHy=float(rng.choice([0.0, 1.0, 0.7, -1.0])))


def gen_case(rng, tier, i):
    if rng.random() < 0.4:
        return gen_history(rng, tier, i)
    return gen_features(rng)


def _fix_image_medium(spec):
    surfs = spec['surfaces']
    last = surfs[-2]['medium']
    if last != 'mirror':
        surfs[-1]['medium'] = json.loads(json.dumps(last))
    else:
        prev = 'air'
        for s in surfs[:-1]:
            if s['medium'] != 'mirror':
                prev = s['medium']
        surfs[-1]['medium'] = json.loads(json.dumps(prev))


def gen_pickups(rng, spec, allow_thickness):
    """Same constraints as the C01 generator: no source is a target, no target twice, conic only between curved
    surfaces, no radius pickup from a plane."""
    K = len(spec['surfaces'])
    plane = [s.get('radius', 'inf') == 'inf' and s.get('type', 'standard') == 'standard' for s in spec['surfaces']]
    out, srcs, tgts = [], set(), set()
    for _ in range(int(rng.integers(1, 4))):
        attr = str(rng.choice(['radius', 'conic', 'thickness'] if allow_thickness else ['radius', 'conic']))
        src, tgt = int(rng.integers(1, K)), int(rng.integers(1, K))
        if src == tgt or src in tgts or tgt in srcs or tgt in tgts:
            continue
        if attr == 'conic' and (plane[src - 1] or plane[tgt - 1]):
            continue
        if attr == 'radius' and plane[src - 1]:
            continue
        srcs.add(src); tgts.add(tgt)
        if attr == 'radius':
            plane[tgt - 1] = False
        out.append([src, attr, tgt, float(rng.choice([1.0, -1.0, round(rng.uniform(-2, 2), 4)])),
                    float(rng.choice([0.0, round(rng.normal(), 4)]))])
    return out


def gen_features(rng):
    a = L.loguniform(rng, 1.0, 10.0)
    kw = dict(semi=a, nsurf=(2, 9), asphere_p=0.25, glass_p=0.3, image='any', neg_power_p=0.3, immersed_p=0.1)
    if rng.random() < 0.25:
        kw['mirrors_p'] = 0.3
    tele = rng.random() < 0.12
    if tele:
        kw.update(finite_p=1.0, ap_kinds=('objectNA',), field_types=('object_height',))
    spec, info = L.gen_axial(rng, **kw)
    if rng.random() < 0.55:
        L.decorate(spec, rng, a, tilt_p=0.25, decenter_p=0.25, freeform_p=0.35, big_tilt_p=0.0)
    surfs = spec['surfaces']
    for s in surfs[:-1]:
        if s.get('type') in ('polynomial', 'chebyshev') and rng.random() < 0.5:
            s['max_iter'] = int(rng.choice([40, 60, 250]))           # non-default iteration cap
        if s.get('rx') and rng.random() < 0.4:
            s['rz'] = round(float(rng.uniform(-0.5, 0.5)), 4)      # rotation about z: set on the coordinate system
    K = len(surfs)
    # media kinds
    for s in surfs[:-1]:
        m = s.get('medium')
        if isinstance(m, dict) and 'n' in m:
            r = rng.random()
            if r < 0.2:
                s['medium'] = dict(n=m['n'], k=float(L.loguniform(rng, 1e-8, 1e-5)))
            elif r < 0.4:
                s['medium'] = dict(abbe=[round(float(rng.uniform(1.45, 1.9)), 5), round(float(rng.uniform(25.0, 70.0)), 3)])
        elif isinstance(m, dict) and 'glass' in m and rng.random() < 0.4:
            s['medium'] = dict(glass=m['glass'], ref=None)
    _fix_image_medium(spec)
    # coatings / apertures / scatter
    fres = rng.random() < 0.12
    for s in surfs[:-1]:
        r = rng.random()
        if fres and r < 0.6:
            s['coating'] = 'fresnel'
        elif r > 0.85:
            s['coating'] = dict(T=round(float(rng.uniform(0.5, 1.0)), 4), R=round(float(rng.uniform(0.0, 0.3)), 4))
        if rng.random() < 0.18:
            s['aperture'] = dict(r_max=round(float(rng.uniform(0.7, 2.0) * a), 5),
                                 r_min=(0.0 if rng.random() < 0.55 else round(float(rng.uniform(0.05, 0.3) * a), 5)))
    if rng.random() < 0.1:
        s = surfs[int(rng.integers(0, K - 1))]
        s['bsdf'] = 'lambertian' if rng.random() < 0.5 else dict(gaussian=round(float(rng.uniform(0.001, 0.1)), 5))
    # fields / wavelengths / polarization / telecentric
    if rng.random() < 0.35:
        for f in spec['fields']:
            f[1], f[2] = round(float(rng.uniform(0, 0.3)), 3), round(float(rng.uniform(0, 0.3)), 3)
    if rng.random() < 0.15:
        spec['wl_unit'] = 'nm'
    if rng.random() < (0.85 if fres else 0.15):
        if rng.random() < 0.75:
            spec['polarization'] = dict(is_polarized=True, Ex=round(float(rng.uniform(-1, 1)), 4) or 1.0,
                                        Ey=round(float(rng.uniform(-1, 1)), 4),
                                        phase_x=round(float(rng.uniform(-math.pi, math.pi)), 4),
                                        phase_y=round(float(rng.uniform(-math.pi, math.pi)), 4))
        else:
            spec['polarization'] = dict(is_polarized=False)
    if tele:
        spec['telecentric'] = True
    # pickups / solves
    if K >= 3 and rng.random() < 0.3:
        spec['pickups'] = gen_pickups(rng, spec, allow_thickness=rng.random() < 0.3)
        if spec['pickups'] and rng.random() < 0.3:
            p = spec['pickups'][int(rng.integers(len(spec['pickups'])))]
            if p[1] in ('radius', 'conic'):
                # stale pickup: the target is edited after the last update()
                spec['stale'] = [p[1], p[2], (c01.sval(rng, 5 * a, 50 * a) if p[1] == 'radius'
                                             else round(float(rng.uniform(-2, 1)), 4))]
    thick_pick = any(p[1] == 'thickness' for p in spec.get('pickups', []))
    if not thick_pick and rng.random() < 0.12:
        k = K if rng.random() < 0.6 else int(rng.integers(2, K + 1))
        spec['solves'] = [[k, float(rng.choice([0.0, round(rng.uniform(-0.5, 0.5) * a, 4)]))]]
    if rng.random() < 0.05:
        spec['image_surface_class'] = True
    if rng.random() < 0.2:
        # the field type is given AFTER the fields were added (the order in which a lens is described is not part of it)
        spec['field_type_late'] = True
    if rng.random() < 0.15:
        # the object-space medium is edited after construction (set_index on surface 0)
        spec['object_index_edit'] = round(float(rng.uniform(1.2, 1.7)), 5)
    if fres and rng.random() < 0.5:
        ks_ = [k_ for k_, s_ in enumerate(surfs[:-1], start=1) if s_.get('coating') == 'fresnel' and s_.get('medium') != 'mirror'
               and k_ < K - 1 and surfs[k_].get('medium') != 'mirror']
        if ks_:
            spec['index_after_coating'] = [[int(ks_[int(rng.integers(len(ks_)))]), round(float(rng.uniform(1.35, 1.9)), 5)]]
    return dict(kind='features', spec=spec, **_rays(rng))


def _vertex_moving(op):
    return (op[0] in ('set_thickness', 'solve', 'scale_system') or (op[0] == 'var' and op[1] == 'thickness')
            or (op[0] == 'pickup' and op[2] == 'thickness'))


def gen_history(rng, tier, i):
    c = c01.gen_case(rng, tier, i)
    ops = c['ops']
    clean = bool(rng.random() < 0.5)
    if clean:
        ops = [op for op in ops if not _vertex_moving(op)]
    extra = []
    if not clean and rng.random() < 0.45:
        extra.append(['scale_system', round(L.loguniform(rng, 0.2, 5.0), 4)])
    if rng.random() < 0.4:
        extra.append(['optimise', round(float(rng.uniform(0.8, 1.25)), 3), 3])
    if len(extra) == 2 and rng.random() < 0.5:
        extra.reverse()
    ops = ops + extra
    if extra and rng.random() < 0.5:
        ops.append(['update'])
    if rng.random() < 0.3 and not any(op[0] in ('pickup', 'solve') for op in ops):
        # the lens is restructured before it is saved: a surface put in between two others / taken out. (The library leaves
        # the neighbours' media as they were, so the medium in front of a surface is no longer the one behind its
        # predecessor: the saved lens must reproduce exactly that lens.)
        K = len(c['spec']['surfaces'])
        for _ in range(int(rng.integers(1, 3))):
            if rng.random() < 0.65:
                ops.append(['insert_surface', int(rng.integers(1, K + 1)), round(float(rng.uniform(1.3, 2.0)), 4),
                            round(float(rng.choice([-1, 1]) * L.loguniform(rng, 20.0, 500.0)), 3),
                            round(float(rng.uniform(0.1, 2.0)), 3)])
            else:
                ops.append(['remove_surface', int(rng.integers(1, K))])
    return dict(kind='history', spec=c['spec'], ops=ops, clean=clean, **_rays(rng))


# ---------------------------------------------------------------------------
# building (public API only)

def build(spec):
    """vkit.lens.build plus the feature keys of this check: surface 'bsdf', spec 'wl_unit', 'pickups', 'solves',
    'stale', 'image_surface_class'."""
    from optiland.optic import Optic
    lens = Optic()
    lens.add_surface(index=0, thickness=L.fnum(spec['obj_t']), material=L.make_material(spec.get('obj_n', 'air')))
    surfs = spec['surfaces']
    K = len(surfs)
    for i, s in enumerate(surfs, start=1):
        if i == K and spec.get('image_surface_class'):
            from optiland.surfaces import ImageSurface
            from optiland.geometries import Plane
            from optiland.coordinate_system import CoordinateSystem
            z = L.vertex_positions(spec)[K]
            lens.add_surface(new_surface=ImageSurface(Plane(CoordinateSystem(z=float(z))),
                                                      lens.surface_group.surfaces[-1].material_post), index=i)
            continue
        typ, kw = L.surface_kwargs(s)
        if s.get('max_iter'):
            kw['max_iter'] = int(s['max_iter'])
        b = s.get('bsdf')
        if b:
            from optiland.scatter import LambertianBSDF, GaussianBSDF
            kw['bsdf'] = LambertianBSDF() if b == 'lambertian' else GaussianBSDF(float(b['gaussian']))
        lens.add_surface(index=i, surface_type=typ, thickness=float(s.get('t', 0.0)),
                         material=L.make_material(s.get('medium', 'air')), is_stop=bool(s.get('stop', False)), **kw)
        if s.get('rz'):
            lens.surface_group.surfaces[i].geometry.cs.rz = float(s['rz'])
    sp = dict(spec)
    if spec.get('wl_unit') == 'nm':
        sp['wavelengths'] = []
    if spec.get('field_type_late'):
        sp['field_type'] = None
    L.finish(lens, sp)
    if spec.get('field_type_late'):
        lens.set_field_type(spec['field_type'])
    if spec.get('wl_unit') == 'nm':
        for w in spec['wavelengths']:
            lens.add_wavelength(value=w[0] * 1000.0, is_primary=bool(w[1]), unit='nm')
    return lens


def _scalar(x):
    return float(np.ravel(np.asarray(x, dtype=float))[0])


def solve_reachable(lens, k, h):
    """The C01 guard: a marginal-ray-height solve is only a valid request when a finite position reaches the height."""
    ya0, ua0 = lens.paraxial.marginal_ray()
    ya0, ua0 = np.ravel(ya0), np.ravel(ua0)
    with np.errstate(all='ignore'):
        ws = (h - ya0[k]) / ua0[k - 1]
    z = np.ravel(lens.surface_group.positions)[1:]
    scale = max(1.0, float(np.max(np.abs(z[np.isfinite(z)]))) if np.any(np.isfinite(z)) else 1.0)
    return bool(np.isfinite(ws) and abs(ws) <= 1e4 * scale)


def apply_features(lens, spec, rec):
    if spec.get('object_index_edit'):
        lens.set_index(float(spec['object_index_edit']), 0)
        rec.cls('object-space-medium-edited')
    if spec.get('field_type_late'):
        rec.cls('field-type-set-after-fields')
    for p in spec.get('pickups', []):
        lens.pickups.add(p[0], p[1], p[2], p[3], p[4])
    for k, h in spec.get('solves', []):
        if solve_reachable(lens, k, h):
            lens.solves.add('marginal_ray_height', k, h)
        else:
            rec.cls('solve-unsatisfiable-skipped')
    if spec.get('pickups') or spec.get('solves'):
        lens.update()
    st = spec.get('stale')
    if st:
        if st[0] == 'radius':
            lens.set_radius(st[2], st[1])
        else:
            lens.set_conic(st[2], st[1])
    # a medium edited after the Fresnel coatings were made (the coating keeps the media it was built with: the reloaded
    # lens must behave like THIS lens, not like a freshly coated one)
    for k_, v_ in spec.get('index_after_coating', []):
        lens.set_index(v_, k_)


def apply_ops(lens, ops, spec, rec):
    """The calls c01.check_case makes, without its bookkeeping."""
    inf_obj = spec['obj_t'] == 'inf'
    done = set()
    for op in ops:
        name = op[0]
        rec.event('history_operations')
        if name == 'set_radius':
            lens.set_radius(L.fnum(op[1]), op[2])
        elif name == 'set_conic':
            lens.set_conic(op[1], op[2])
        elif name == 'set_thickness':
            if op[2] == 0 and inf_obj:
                rec.cls('hostile-object-thickness-skipped')
                continue
            lens.set_thickness(op[1], op[2])
        elif name == 'set_index':
            lens.set_index(op[1], op[2])
        elif name == 'set_asphere_coeff':
            lens.set_asphere_coeff(op[1], op[2], op[3])
        elif name == 'var':
            from optiland.optimization.variable.variable import Variable
            _, kind, scaled, v, kw = op
            kw2 = dict(kw)
            if 'coeff_index' in kw2:
                kw2['coeff_index'] = tuple(kw2['coeff_index'])
            Variable(lens, kind, apply_scaling=scaled, **kw2).update(v)
            name = f'var-{kind}'
        elif name == 'pickup':
            lens.pickups.add(op[1], op[2], op[3], op[4], op[5])
            name = f'pickup-{op[2]}'
        elif name == 'solve':
            if not solve_reachable(lens, op[1], op[2]):
                rec.cls('solve-unsatisfiable-skipped')
                continue
            lens.solves.add('marginal_ray_height', op[1], op[2])
        elif name == 'update':
            lens.update()
        elif name == 'image_solve':
            lens.image_solve()
        elif name == 'add_wavelength':
            lens.add_wavelength(op[1], is_primary=op[2])
        elif name == 'scale_system':
            lens.scale_system(op[1])
        elif name == 'insert_surface':
            from optiland.materials import IdealMaterial
            nS = len(lens.surface_group.surfaces)
            lens.add_surface(index=max(1, min(op[1], nS - 1)), radius=op[3], thickness=op[4], material=IdealMaterial(n=op[2]))
        elif name == 'remove_surface':
            nS = len(lens.surface_group.surfaces)
            if not (1 <= op[1] < nS - 1) or lens.surface_group.surfaces[op[1]].is_stop or nS <= 3:
                rec.cls('remove-surface-skipped')
                continue
            lens.surface_group.remove_surface(op[1])
        elif name == 'optimise':
            from optiland.optimization import OptimizationProblem, OptimizerGeneric
            radii = np.ravel(lens.surface_group.radii)
            cand = [k for k in range(1, len(radii) - 1) if np.isfinite(radii[k])]
            f2 = _scalar(lens.paraxial.f2())
            if not cand or not np.isfinite(f2) or f2 == 0:
                rec.cls('optimise-skipped')
                continue
            prob = OptimizationProblem()
            prob.add_operand(operand_type='f2', target=f2 * op[1], weight=1, input_data={'optic': lens})
            prob.add_variable(lens, 'radius', surface_number=cand[len(cand) // 2])
            OptimizerGeneric(prob).optimize(maxiter=int(op[2]), disp=False, tol=1e-6)
        else:
            raise ValueError(f'unknown operation {op!r}')
        done.add(name)
    return done


# ---------------------------------------------------------------------------
# observation through the public API

def _f(x):
    return float(np.ravel(np.asarray(x, dtype=float))[0])


def _try(fn):
    try:
        return fn()
    except Exception as e:          # recorded as an observable: the reloaded lens must do the same
        return ('raises', type(e).__name__)


def describe_material(m):
    return dict(cls=type(m).__name__,
                n=[_try(lambda w=w: _f(m.n(w))) for w in WLS],
                k=[_try(lambda w=w: _f(m.k(w))) for w in WLS])


def describe_coating(c):
    if c is None:
        return None
    d = dict(cls=type(c).__name__)
    for a in ('transmittance', 'reflectance'):
        if hasattr(c, a):
            d[a] = _f(getattr(c, a))
    for a in ('material_pre', 'material_post'):
        if hasattr(c, a):
            d[a] = describe_material(getattr(c, a))
    return d


def describe_polarization(p):
    if isinstance(p, str):
        return p
    return dict(cls=type(p).__name__, **{a: (None if getattr(p, a, None) is None else
                                             (bool(getattr(p, a)) if a == 'is_polarized' else _f(getattr(p, a))))
                                         for a in ('is_polarized', 'Ex', 'Ey', 'phase_x', 'phase_y')})


def full_snapshot(lens):
    base = c01.snapshot(lens)
    sg = lens.surface_group
    for d, s in zip(base, sg.surfaces):
        g = s.geometry
        d['surface_class'] = type(s).__name__
        d['is_reflective'] = bool(s.is_reflective)
        d['rz'] = _f(g.cs.rz)
        d['reference_cs'] = g.cs.reference_cs is not None
        d['tol'] = None if not hasattr(g, 'tol') else _f(g.tol)
        d['max_iter'] = None if not hasattr(g, 'max_iter') else int(g.max_iter)
        d['norm_x'] = None if not hasattr(g, 'norm_x') else _f(g.norm_x)
        d['norm_y'] = None if not hasattr(g, 'norm_y') else _f(g.norm_y)
        d['material_pre'] = describe_material(s.material_pre)
        d['material_post'] = describe_material(s.material_post)
        if s is sg.surfaces[0]:
            # the medium "in front of" the object surface is no part of the prescription: no ray, index list or coating ever
            # reads it (set_index(n, 0) leaves it at its old value, the file stores the medium behind the object only)
            d['material_pre'] = None
            d['n_pre'] = None
        d['coating'] = describe_coating(s.coating)
        ap = s.aperture
        d['aperture'] = None if ap is None else dict(cls=type(ap).__name__, r_max=_f(ap.r_max), r_min=_f(ap.r_min))
        b = s.bsdf
        d['bsdf'] = None if b is None else dict(cls=type(b).__name__, sigma=(_f(b.sigma) if hasattr(b, 'sigma') else None))
    ap = lens.aperture
    system = dict(
        aperture_type=ap.ap_type, aperture_value=_f(ap.value), aperture_telecentric=bool(ap.object_space_telecentric),
        field_type=lens.field_type,
        fields=[dict(field_type=f.field_type, x=_f(f.x), y=_f(f.y), vx=_f(f.vx), vy=_f(f.vy)) for f in lens.fields.fields],
        fieldgroup_telecentric=bool(lens.fields.telecentric),
        wavelengths=[dict(value=_f(w.value), is_primary=bool(w.is_primary)) for w in lens.wavelengths.wavelengths],
        primary_index=lens.wavelengths.primary_index,
        stop_index=sg.stop_index,
        obj_space_telecentric=bool(lens.obj_space_telecentric),
        polarization=describe_polarization(lens.polarization),
        pickups=[dict(source=int(p.source_surface_idx), attr=p.attr_type, target=int(p.target_surface_idx),
                      scale=_f(p.scale), offset=_f(p.offset)) for p in lens.pickups.pickups],
        solves=[dict(cls=type(s).__name__, surface=int(s.surface_idx), height=_f(s.height)) for s in lens.solves.solves],
        num_surfaces=len(sg.surfaces))
    return dict(surfaces=base, system=system)


def trace_all(lens, case):
    out = {}
    n = len(case['Hy'])
    sg = lens.surface_group
    for j, w in enumerate(lens.wavelengths.wavelengths):
        wl = w.value
        try:
            ret = lens.trace_generic(np.zeros(n), np.array(case['Hy']), np.array(case['Px']), np.array(case['Py']), wl)
            out[f'generic-wl{j}'] = {q: np.array(getattr(sg, q), dtype=float) for q in RAYFIELDS}
            # the RETURNED intensities too: under polarization the coating losses are only in them, not in the records
            out[f'generic-wl{j}']['returned_i'] = np.array(ret.i, dtype=float)
        except Exception as e:
            out[f'generic-wl{j}'] = ('raises', type(e).__name__, str(e)[:80])
    try:
        ret = lens.trace(0.0, float(case.get('fanHy', 1.0)), lens.primary_wavelength, num_rays=2, distribution='hexapolar')
        out['fan'] = {q: np.array(getattr(sg, q), dtype=float) for q in RAYFIELDS}
        out['fan']['returned_i'] = np.array(ret.i, dtype=float)
    except Exception as e:
        out['fan'] = ('raises', type(e).__name__, str(e)[:80])
    return out


def paraxial_all(lens):
    out = {}
    for name in PARAXIAL:
        try:
            v = getattr(lens.paraxial, name)()
            if isinstance(v, tuple):
                v = np.concatenate([np.ravel(np.asarray(x, dtype=float)) for x in v])
            out[name] = np.ravel(np.asarray(v, dtype=float))
        except Exception as e:
            out[name] = ('raises', type(e).__name__)
    return out


def observe(lens, case, with_rays):
    return dict(snap=full_snapshot(lens), rays=(trace_all(lens, case) if with_rays else None), par=paraxial_all(lens))


# ---------------------------------------------------------------------------
# comparison helpers

def norm(o, _depth=0):
    """Plain-Python normal form of a dictionary produced by to_dict()/json.load."""
    if isinstance(o, dict):
        return {str(k): norm(v, _depth + 1) for k, v in o.items()}
    if isinstance(o, (list, tuple)):
        return [norm(v, _depth + 1) for v in o]
    if isinstance(o, np.ndarray):
        return norm(o.tolist(), _depth + 1)
    if isinstance(o, (bool, np.bool_)):
        return bool(o)
    if isinstance(o, (int, np.integer)):
        return int(o)
    if isinstance(o, (float, np.floating)):
        return float(o)
    if o is None or isinstance(o, str):
        return o
    # an object put into the dictionary by to_dict()
    return ObjRef(o, _depth)


class ObjRef:
    def __init__(self, o, depth):
        self.o = o
        self.cls = type(o).__name__
        if depth > 40:
            self.body = None
        elif hasattr(o, 'to_dict'):
            try:
                self.body = norm(o.to_dict(), depth + 1)
            except Exception:
                self.body = None
        else:
            try:
                self.body = norm({k: v for k, v in vars(o).items() if not callable(v)}, depth + 1)
            except Exception:
                self.body = None


def diff(a, b, tol=0.0, path=''):
    """First differing path (indices kept), or None.  Floats: equal, both NaN, or within tol relative."""
    if isinstance(a, ObjRef) or isinstance(b, ObjRef):
        if isinstance(a, ObjRef) and isinstance(b, ObjRef):
            if a.o is b.o:
                return None
            if a.cls != b.cls:
                return path + '<class>'
            return diff(a.body, b.body, tol, path)
        return path + '<object-vs-plain>'
    if isinstance(a, np.ndarray) or isinstance(b, np.ndarray):
        a, b = np.asarray(a, dtype=float), np.asarray(b, dtype=float)
        return None if a.shape == b.shape and np.array_equal(a, b, equal_nan=True) else path
    if isinstance(a, dict) and isinstance(b, dict):
        if set(a) != set(b):
            return path + '<keys>'
        for k in a:
            r = diff(a[k], b[k], tol, f'{path}.{k}' if path else str(k))
            if r:
                return r
        return None
    if isinstance(a, (list, tuple)) and isinstance(b, (list, tuple)):
        if len(a) != len(b):
            return path + '<len>'
        for i, (x, y) in enumerate(zip(a, b)):
            r = diff(x, y, tol, f'{path}[{i}]')
            if r:
                return r
        return None
    if isinstance(a, bool) or isinstance(b, bool) or a is None or b is None or isinstance(a, str) or isinstance(b, str):
        return None if (type(a) is type(b) and a == b) else path
    if isinstance(a, (int, float)) and isinstance(b, (int, float)):
        if a == b or (isinstance(a, float) and isinstance(b, float) and math.isnan(a) and math.isnan(b)):
            return None
        if tol and math.isfinite(a) and math.isfinite(b) and abs(a - b) <= tol * max(1.0, abs(a), abs(b)):
            return None
        return path
    return None if a == b else path


def strip(path):
    """Path class: indices removed (a mechanism key never carries a number)."""
    if not path:
        return ''
    out, skip = [], 0
    for ch in path:
        if ch == '[':
            skip += 1
        elif ch == ']':
            skip -= 1
        elif not skip:
            out.append(ch)
    return ''.join(out)


def json_leaves(o, path=()):
    """Leaves of a to_dict() result that the json encoder refuses: [(path-class, type name, object)]."""
    if isinstance(o, dict):
        out = []
        for k, v in o.items():
            if not isinstance(k, (str, int, float, bool)) and k is not None:
                out.append((path + ('<key>',), type(k).__name__, k))
            out += json_leaves(v, path + (str(k),))
        return out
    if isinstance(o, (list, tuple)):
        out = []
        for v in o:
            out += json_leaves(v, path)
        return out
    if o is None or isinstance(o, (str, bool, int, float)):
        return []
    return [(path, type(o).__name__, o)]


MATERIAL_CLASSES = ('IdealMaterial', 'Material', 'MaterialFile', 'AbbeMaterial', 'Mirror')


def leaf_mechanism(path, tname, obj, flags):
    if path[-3:] == ('geometry', 'cs', 'z') and tname == 'ndarray' and np.size(obj) == 1 and 'vertex-moved' in flags:
        return 'cs-z-ndarray'
    if path == ('wavelengths', 'polarization') and tname == 'PolarizationState' and 'has-polarization-state' in flags:
        return 'polarization-state-not-serialisable'
    if path[-2:] in (('coating', 'material_pre'), ('coating', 'material_post')) and tname in MATERIAL_CLASSES \
            and 'has-fresnel-coating' in flags:
        return 'fresnel-coating-not-serialisable'
    return None


def where(e):
    fr = traceback.extract_tb(e.__traceback__)
    libs = [f for f in fr if '/optiland/' in os.path.abspath(f.filename)]
    f = libs[-1] if libs else (fr[-1] if fr else None)
    last = fr[-1] if fr else None
    return (f'{type(e).__name__}@{os.path.basename(f.filename)}:{f.name}' if f else type(e).__name__,
            os.path.basename(last.filename) if last else '', last.name if last else '')


def save_key(clause, e, lens, flags):
    """Mechanism key of an exception raised while saving."""
    w, lastfile, lastfn = where(e)
    unexplained = f'{clause}:unexplained+{w}'
    if not (isinstance(e, TypeError) and 'not JSON serializable' in str(e)):
        return unexplained, []
    try:
        leaves = json_leaves(lens.to_dict())
    except Exception:
        return unexplained, []
    mechs = set()
    for path, tname, obj in leaves:
        m = leaf_mechanism(path, tname, obj, flags)
        if m is None:
            return f"{clause}:unexplained+{'.'.join(path)}={tname}", leaves
        mechs.add(m)
    if not mechs:
        return unexplained, leaves
    return f"{clause}:{'+'.join(sorted(mechs))}", leaves


def load_key(clause, e, flags):
    w, lastfile, lastfn = where(e)
    if isinstance(e, TypeError) and 'image-surface-class' in flags and lastfn == '_from_dict' \
            and lastfile == 'standard_surface.py' and 'ImageSurface.__init__' in str(e):
        return f'{clause}:image-surface-class-not-loadable'
    return f'{clause}:unexplained+{w}'


def rays_diff(a, b):
    """-> None or the first differing 'trace/field' name."""
    if a is None or b is None:
        return None
    if set(a) != set(b):
        return 'traces'
    for t in a:
        x, y = a[t], b[t]
        if isinstance(x, tuple) or isinstance(y, tuple):
            if x != y:
                return f'{strip_wl(t)}-raises'
            continue
        for q in list(RAYFIELDS) + ['returned_i']:
            if q not in x and q not in y:
                continue
            if (q in x) != (q in y) or x[q].shape != y[q].shape or not np.array_equal(x[q], y[q], equal_nan=True):
                return f'{strip_wl(t)}-{q}'
    return None


def strip_wl(t):
    return 'generic' if t.startswith('generic') else t


def par_diff(a, b):
    for name in PARAXIAL:
        x, y = a[name], b[name]
        if isinstance(x, tuple) or isinstance(y, tuple):
            # (a tuple records that the query raised: one lens answering and the other raising is a difference)
            if not (isinstance(x, tuple) and isinstance(y, tuple)) or x != y:
                return name
            continue
        if x.shape != y.shape or not np.array_equal(x, y, equal_nan=True):
            return name
    return None


# ---------------------------------------------------------------------------
# class flags

def live_features(lens, case):
    from optiland.geometries import Plane, StandardGeometry, EvenAsphere, PolynomialGeometry, ChebyshevPolynomialGeometry
    from optiland.materials import IdealMaterial, Material, AbbeMaterial
    f = set()
    sg = lens.surface_group
    for s in sg.surfaces[1:]:
        g = s.geometry
        if isinstance(g, Plane):
            f.add('shape-plane')
        elif type(g) is StandardGeometry:
            f.add('shape-conic' if g.k != 0 else 'shape-sphere')
        elif type(g) is EvenAsphere:
            f.add('shape-even-asphere')
        elif type(g) is PolynomialGeometry:
            f.add('shape-polynomial')
        elif type(g) is ChebyshevPolynomialGeometry:
            f.add('shape-chebyshev')
        if _f(g.cs.rx) != 0 or _f(g.cs.ry) != 0:
            f.add('tilted')
        if _f(g.cs.x) != 0 or _f(g.cs.y) != 0:
            f.add('decentred')
        if _f(g.cs.rz) != 0:
            f.add('rotated-z')
        if s.is_reflective:
            f.add('medium-mirror')
        m = s.material_post
        if isinstance(m, Material):
            f.add('medium-catalogue-ref' if m.reference else 'medium-catalogue-noref')
        elif isinstance(m, AbbeMaterial):
            f.add('medium-abbe')
        elif isinstance(m, IdealMaterial):
            if m.absorp != 0:
                f.add('medium-ideal-absorbing')
            elif m.index != 1:
                f.add('medium-ideal')
        if s.coating is not None:
            f.add('coating-fresnel' if type(s.coating).__name__ == 'FresnelCoating' else 'coating-simple')
        if s.bsdf is not None:
            f.add('bsdf-lambertian' if type(s.bsdf).__name__ == 'LambertianBSDF' else 'bsdf-gaussian')
        if s.aperture is not None:
            f.add('aperture-obscured' if s.aperture.r_min > 0 else 'aperture-radial')
        if type(s).__name__ == 'ImageSurface':
            f.add('image-surface-class')
    nf, nw = len(lens.fields.fields), len(lens.wavelengths.wavelengths)
    f.add(f'fields-{min(nf, 3)}' + ('+' if nf > 3 else ''))
    f.add(f'wavelengths-{min(nw, 3)}' + ('+' if nw > 3 else ''))
    if any(fl.vx != 0 or fl.vy != 0 for fl in lens.fields.fields):
        f.add('vignetting')
    if case.get('spec', {}).get('wl_unit') == 'nm':
        f.add('wavelength-unit-nm')
    p = lens.polarization
    if isinstance(p, str):
        f.add('polarization-ignore')
    else:
        f.add('has-polarization-state')
        f.add('polarization-state-polarized' if p.is_polarized else 'polarization-state-unpolarized')
    if any(c in f for c in ('coating-fresnel',)):
        f.add('has-fresnel-coating')
    if lens.obj_space_telecentric:
        f.add('object-telecentric')
    for pk in lens.pickups.pickups:
        f.add(f'pickup-{pk.attr_type}')
    if len(lens.solves):
        f.add('solves')
    f.add('object-infinite' if math.isinf(_f(sg.surfaces[0].geometry.cs.z)) else 'object-finite')
    f.add(f'ap-{lens.aperture.ap_type}')
    f.add(f'field-{lens.field_type}')
    return f


def sample_calls(name, what):
    from vkit import samples
    try:
        return what in inspect.getsource(samples._classes()[name])
    except Exception:
        return False


# ---------------------------------------------------------------------------
def check_case(case, rec):
    from optiland.optic import Optic
    from optiland.fileio import save_optiland_file, load_optiland_file
    kind = case['kind']
    flags = {f'kind-{kind}'}
    if kind == 'sample':
        from vkit import samples
        lens = samples.make(case['name'])
        nsurf = len(lens.surface_group.surfaces) - 1
        if sample_calls(case['name'], 'scale_system') or sample_calls(case['name'], 'set_thickness') \
                or sample_calls(case['name'], 'solves.add'):
            flags.add('vertex-moved')
    else:
        spec = case['spec']
        nsurf = len(spec['surfaces'])
        lens = build(spec)
        if kind == 'features':
            apply_features(lens, spec, rec)
            if any(p[1] == 'thickness' for p in spec.get('pickups', [])) or len(lens.solves):
                flags.add('vertex-moved')
            if spec.get('stale'):
                flags.add('pickup-stale')
        else:
            done = apply_ops(lens, case['ops'], spec, rec)
            flags.add('history-clean' if case.get('clean') else 'history-with-vertex-moving-ops')
            flags |= {f'history-{d}' for d in done if d in ('scale_system', 'optimise', 'insert_surface', 'remove_surface')}
            if done & {'set_thickness', 'solve', 'scale_system', 'var-thickness', 'pickup-thickness'}:
                flags.add('vertex-moved')
            if 'optimise' in done and (len(lens.solves) or any(p.attr_type == 'thickness' for p in lens.pickups.pickups)):
                flags.add('vertex-moved')     # every merit evaluation calls update(): solves / thickness pickups re-applied
    flags |= live_features(lens, case)
    rec.cls(*sorted(flags))
    beyond = [f for f in flags if f not in PLAIN and not f.startswith('has-')]
    if nsurf >= 3 and len(beyond) >= 2:
        rec.nontrivial_case()
    with_rays = not any(f.startswith('bsdf-') for f in flags)
    if not with_rays:
        rec.cls('rays-skipped-bsdf')
    has_pickups = len(lens.pickups) > 0

    # ---- what is serialised, then the behaviour of the original -----------------------------------------
    trips = {}        # tag -> dict(loaded=lens, src=dict it was loaded from)
    d = None
    try:
        d = lens.to_dict()
        rec.check('to_dict-does-not-raise', True)
    except Exception as e:
        rec.check('to_dict-does-not-raise', False, key=f'to_dict-does-not-raise:unexplained+{where(e)[0]}',
                  msg=f'Optic.to_dict() raised {type(e).__name__}: {e}')
    if d is not None:
        try:
            la = Optic.from_dict(d)
            rec.check('from_dict-does-not-raise', True)
            trips['A'] = dict(loaded=la, src=d)
        except Exception as e:
            rec.check('from_dict-does-not-raise', False, key=load_key('from_dict-does-not-raise', e, flags),
                      msg=f'Optic.from_dict(lens.to_dict()) raised {type(e).__name__}: {e}',
                      detail=dict(tb=traceback.format_exc()[-800:]))
    tmp = tempfile.mkdtemp(prefix='c19-')
    try:
        path = os.path.join(tmp, 'lens.json')
        clause = 'serialisable-after-history' if kind == 'history' else 'save-does-not-raise'
        saved = False
        try:
            save_optiland_file(lens, path)
            saved = True
            rec.check(clause, True)
        except Exception as e:
            key, leaves = save_key(clause, e, lens, flags)
            rec.check(clause, False, key=key,
                      msg=f'save_optiland_file raised {type(e).__name__}: {e}; non-JSON leaves of to_dict(): '
                          f"{sorted(set(('.'.join(p), t) for p, t, _ in leaves))[:6]}",
                      detail=dict(flags=sorted(flags)))
        if saved:
            try:
                with open(path) as fh:
                    jd = json.load(fh)
                lb = load_optiland_file(path)
                rec.check('load-does-not-raise', True)
                trips['B'] = dict(loaded=lb, src=jd)
            except Exception as e:
                rec.check('load-does-not-raise', False, key=load_key('load-does-not-raise', e, flags),
                          msg=f'load_optiland_file raised {type(e).__name__}: {e}',
                          detail=dict(tb=traceback.format_exc()[-800:]))
    finally:
        shutil.rmtree(tmp, ignore_errors=True)
    if not trips:
        rec.sample(dict(case=_brief(case), flags=sorted(flags), round_trips=[]))
        return

    orig = observe(lens, case, with_rays)
    results = {}
    for tag, t in trips.items():
        lo = t['loaded']
        o = observe(lo, case, with_rays)
        try:
            dd = norm(lo.to_dict())
            ddiff = diff(norm(t['src']), dd)
        except Exception as e:
            dd, ddiff = None, f'<to_dict raised {type(e).__name__}>'
        results[tag] = dict(obs=o, d=dd, dict_diff=ddiff,
                            snap_diff=diff(orig['snap'], o['snap'], tol=1e-15),
                            rays_diff=rays_diff(orig['rays'], o['rays']),
                            par_diff=par_diff(orig['par'], o['par']))
    # ---- as-built model of pickup-reapplied-on-load: the same observations on the original after pickups.apply()
    alt = None
    anybad = any(r[q] for r in results.values() for q in ('dict_diff', 'snap_diff', 'rays_diff', 'par_diff'))
    if anybad and has_pickups:
        try:
            lens.pickups.apply()
            alt = observe(lens, case, with_rays)
            alt['d'] = norm(lens.to_dict())
        except Exception:
            alt = None

    def key_for(clause, bad, explained):
        if not bad:
            return None
        if explained:
            return f'{clause}:pickup-reapplied-on-load'
        return f'{clause}:unexplained+{strip(bad)}'

    for tag, r in results.items():
        o = r['obs']
        what = 'from_dict(to_dict(lens))' if tag == 'A' else 'load_optiland_file(save_optiland_file(lens))'
        ex = alt is not None and r['d'] is not None and diff(alt['d'], r['d']) is None
        rec.check('dict-idempotent', not r['dict_diff'], key=key_for('dict-idempotent', r['dict_diff'], ex),
                  msg=f'[{tag}] to_dict() of the lens from {what} differs from the dictionary it was loaded from at '
                      f"{r['dict_diff']}")
        ex = alt is not None and diff(alt['snap'], o['snap'], tol=1e-15) is None
        rec.check('prescription-preserved', not r['snap_diff'], key=key_for('prescription-preserved', r['snap_diff'], ex),
                  msg=f"[{tag}] prescription of the lens from {what} differs from the original at {r['snap_diff']}",
                  detail=dict(flags=sorted(flags)))
        if with_rays:
            ex = alt is not None and rays_diff(alt['rays'], o['rays']) is None
            rec.check('rays-identical', not r['rays_diff'], key=key_for('rays-identical', r['rays_diff'], ex),
                      msg=f"[{tag}] ray records of the lens from {what} are not bit-identical to the original's "
                          f"(first difference: {r['rays_diff']})", detail=dict(flags=sorted(flags)))
            rec.event('rays_compared', sum(v['x'].shape[1] if isinstance(v, dict) and v['x'].ndim == 2 else 0
                                           for v in o['rays'].values()))
        ex = alt is not None and par_diff(alt['par'], o['par']) is None
        rec.check('paraxial-identical', not r['par_diff'], key=key_for('paraxial-identical', r['par_diff'], ex),
                  msg=f"[{tag}] paraxial value {r['par_diff']} of the lens from {what} differs from the original's",
                  detail=dict(flags=sorted(flags)))
        rec.event(f'roundtrip-{tag}-compared')
    rec.sample(dict(case=_brief(case), flags=sorted(flags), round_trips=sorted(trips),
                    f2=orig['par']['f2'] if not isinstance(orig['par']['f2'], tuple) else 'raises',
                    image_record_y=(orig['rays']['fan']['y'][-1][:4] if with_rays and isinstance(orig['rays']['fan'], dict)
                                    else None)))


def _brief(case):
    c = {k: v for k, v in case.items() if k not in ('Hy', 'Px', 'Py')}
    if 'ops' in c:
        c['ops'] = c['ops'][:10] + ([f'... {len(c["ops"]) - 10} more'] if len(c['ops']) > 10 else [])
    return c
