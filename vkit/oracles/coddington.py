"""Coddington's equations: astigmatic focal distances of an infinitesimal pencil along a
real chief ray that stays in the meridional (y-z) plane of a rotationally symmetric system.

Written from the textbook (Kingslake, "Lens Design Fundamentals", ch. 11; Welford, "Aberrations
of Optical Systems", sec. 9); shares no code with optiland.  Nothing here traces a ray: the
caller supplies the points of incidence and the unit directions of the chief ray before/after
each surface (from the public tracer's per-surface record), the surface prescriptions (spec
dicts of vkit/lens.py) and the refractive indices.  The incidence/refraction angles are formed
here from those directions and from OUR OWN surface normal (vkit.oracles.shapes.Shape.normal).

At a surface point with tangential/sagittal curvatures c_t, c_s (curvatures of the normal
sections in / perpendicular to the meridional plane):

      n' cos^2 I' / t'  -  n cos^2 I / t  =  (n' cos I' - n cos I) c_t
      n'          / s'  -  n          / s  =  (n' cos I' - n cos I) c_s

t, s are the distances from the point of incidence, measured along the chief ray, to the
tangential / sagittal focus of the incoming pencil (t', s': outgoing pencil).  Transfer to the
next surface along the ray (path length d):   t_next = t' - d,  s_next = s' - d.

Sign conventions (one system for refracting and reflecting surfaces): the indices are SIGNED
(a mirror reverses the sign, n' = -n), cos I and cos I' are positive, curvatures are positive
when the centre of curvature lies towards +z, and a distance q in a space of index sign sigma
locates the point  P + q * sigma * D  (D = actual unit direction of propagation); hence
q_next = q' - sigma' * d.

Surface of revolution z(r): in the meridional plane, at height y,
      c_t = z'' / (1 + z'^2)^(3/2)          (curvature of the profile)
      c_s = z' / (y sqrt(1 + z'^2))         (1 / distance to the axis along the normal; -> z''(0) at y = 0)
valid for spheres, conics and even aspheres alike (sphere: c_t = c_s = 1/R everywhere).
"""
import math

import numpy as np

from .shapes import Shape, fnum


def profile_derivatives(s, y):
    """z'(y), z''(y) of the meridional profile of a standard (plane/sphere/conic) or even-asphere
    surface given by its spec dict.  y: array of signed heights."""
    y = np.asarray(y, dtype=float)
    typ = s.get('type', 'standard')
    if typ not in ('standard', 'even_asphere'):
        raise ValueError(f'Coddington oracle: surface type {typ!r} is not a surface of revolution it knows')
    R = fnum(s.get('radius', 'inf'))
    c = 0.0 if math.isinf(R) else 1.0 / R
    k = float(s.get('conic', 0.0)) if c != 0 else 0.0
    if c == 0:
        z1 = np.zeros_like(y)
        z2 = np.zeros_like(y)
    else:
        g = 1.0 - (1.0 + k) * c * c * y * y          # > 0 on the sheet
        with np.errstate(invalid='ignore', divide='ignore'):
            rt = np.sqrt(g)
            z1 = c * y / rt
            z2 = c / (g * rt)
    if typ == 'even_asphere' and s.get('coeffs'):
        for i, a in enumerate(s['coeffs']):
            p = 2 * (i + 1)                            # term a * y^p
            z1 = z1 + a * p * y ** (p - 1)
            z2 = z2 + a * p * (p - 1) * y ** (p - 2)
    return z1, z2


def local_curvatures(s, y):
    """(c_t, c_s) of the surface at meridional height y (arrays)."""
    y = np.asarray(y, dtype=float)
    z1, z2 = profile_derivatives(s, y)
    w = np.sqrt(1.0 + z1 * z1)
    ct = z2 / w ** 3
    _, z2_0 = profile_derivatives(s, np.zeros_like(y))
    with np.errstate(invalid='ignore', divide='ignore'):
        cs = np.where(np.abs(y) > 1e-12 * (1.0 + np.abs(y)), z1 / (y * w), z2_0)
    # near the axis z'/y loses nothing (both are O(y)), but exactly on the axis use the limit
    return ct, cs


def astigmatic_foci(P, D, surfaces, zv, n_abs, obj_infinite):
    """Coddington trace along recorded chief rays.

    P, D     : arrays (K+1, N, 3): point of incidence on surface k and unit direction AFTER surface k
               (row 0 = launch record: object point / launch plane and launch direction), N chief rays
               lying in the y-z plane.
    surfaces : spec dicts of surfaces 1..K (the last one is the image surface; when the medium changes there it
               refracts like any other surface and the foci are those of the pencil AFTER it).
    zv       : z of vertices 1..K (len K).
    n_abs    : unsigned refractive index after surface 0..K (len K+1); medium 'mirror' is detected
               from the spec.
    obj_infinite : True -> incoming pencil collimated (1/t = 1/s = 0); False -> the pencil diverges
               from P[0] (object point).

    Returns (dz_t, dz_s, info): z of the tangential / sagittal focus minus z of the chief ray's OWN point on
    the image surface (K-th record, whatever the shape or tilt of that surface), arrays (N,).  This is how
    the library reports field curvature: it intersects two parabasal rays and returns t * N, the z distance from
    the recorded image-surface point of the (parabasal = chief, to first order) ray to the intersection.
    """
    P = np.asarray(P, dtype=float)
    D = np.asarray(D, dtype=float)
    K = len(surfaces)
    N = P.shape[1]
    sigma = 1.0                                   # sign of the signed index in the current space
    if obj_infinite:
        inv_t = np.zeros(N)
        inv_s = np.zeros(N)
    else:
        d0 = np.linalg.norm(P[1] - P[0], axis=1)
        inv_t = -1.0 / d0                         # object point lies BEHIND the first point of incidence
        inv_s = -1.0 / d0
    max_off = 0.0
    for k in range(1, K + 1):
        s = surfaces[k - 1]
        same_medium = s.get('medium') != 'mirror' and n_abs[k] == n_abs[k - 1]
        if any(s.get(q) for q in ('rx', 'ry', 'dx', 'dy')):
            # a tilted / decentred surface is only understood when it does nothing to the pencil (a dummy or image
            # surface between equal media): the foci are then simply carried along the ray
            if not same_medium:
                raise ValueError('Coddington oracle: tilted/decentred surface with power is not supported')
        if same_medium:
            if k < K:
                with np.errstate(all='ignore'):
                    d = np.linalg.norm(P[k + 1] - P[k], axis=1)
                    inv_t = inv_t / (1.0 - sigma * d * inv_t)
                    inv_s = inv_s / (1.0 - sigma * d * inv_s)
            continue
        pl = P[k] - np.array([0.0, 0.0, zv[k - 1]])
        max_off = max(max_off, float(np.max(np.abs(pl[:, 0]))))
        y = pl[:, 1]
        nrm = Shape(s).normal(pl[:, 0], pl[:, 1])
        cosi = np.abs(np.sum(D[k - 1] * nrm, axis=1))
        cosr = np.abs(np.sum(D[k] * nrm, axis=1))
        ct, cs = local_curvatures(s, y)
        n1 = sigma * n_abs[k - 1]
        is_mirror = s.get('medium') == 'mirror'
        sigma2 = -sigma if is_mirror else sigma
        n2 = -n1 if is_mirror else sigma2 * n_abs[k]
        pw = n2 * cosr - n1 * cosi
        with np.errstate(all='ignore'):
            inv_t = (n1 * cosi ** 2 * inv_t + pw * ct) / (n2 * cosr ** 2)
            inv_s = (n1 * inv_s + pw * cs) / n2
            if k < K:
                # transfer along the ray to the next surface
                d = np.linalg.norm(P[k + 1] - P[k], axis=1)
                inv_t = inv_t / (1.0 - sigma2 * d * inv_t)
                inv_s = inv_s / (1.0 - sigma2 * d * inv_s)
        sigma = sigma2
    with np.errstate(all='ignore'):
        dz_t = sigma * D[K][:, 2] / inv_t
        dz_s = sigma * D[K][:, 2] / inv_s
    return dz_t, dz_s, dict(max_sagittal_offset=max_off)
