"""C03 -- rays start at the requested field point and aim at the requested pupil point.

Observed at record 0 of the ray log (object-surface record) and on the returned rays.
The pupil (EPL, EPD) comes from the independent ABCD oracle for axially symmetric
lenses; for tilted/decentred lenses the statement's "paraxial entrance pupil" is the
library's own (its paraxial model sees decentres) and that is what the aim is compared with.
"""
import math

import numpy as np

from vkit import lens as L

ID = 'C03'
RULE = ('random lenses x every cell of aperture kind (EPD, imageFNO, objectNA) x field type (angle, object_height) x '
        'object distance (finite, infinite) x telecentric flag, Hy in [-1,1], pupil points on the unit disk incl. rim and '
        'centre, with and without vignetting factors; inadmissible cells must raise ValueError; plus every named pupil '
        'distribution with random ray counts; non-trivial = admissible launch with >= 2 powered surfaces, or a '
        'distribution case with >= 7 points; distinct = distinct case hash')
TIERS = {'quick': dict(shards=6, cases=80), 'thorough': dict(shards=16, cases=2000)}
MIN_NONTRIVIAL = {'quick': 150, 'thorough': 2000}
MIN_EVALS = {'launch-towards-lens': 100, 'aim-at-pupil-point': 100, 'origin-height-field': 20, 'direction-angle-field': 20, 'unit-intensity': 100,
             'zero-path': 100, 'wavelength': 100, 'rejected-combination': 25, 'distribution-count': 40,
             'distribution-in-unit-disk': 40, 'vignetting-shrinks': 20, 'telecentric-chief-parallel': 5,
             'telecentric-rim-na': 5}
ASSUMPTIONS = ['entrance pupil of axially symmetric lenses from the independent ABCD oracle; of tilted/decentred lenses '
               'from the library (checked by C04 on symmetric lenses)',
               'for telecentric object space only the chief ray (parallel to the axis) and the rim rays (sin = NA) are fixed by the statement']
ANCHORS = [('optiland.rays.ray_generator', 'RayGenerator.generate_rays'),
           ('optiland.rays.ray_generator', 'RayGenerator._get_ray_origins'),
           ('optiland.rays.ray_generator', 'RayGenerator._get_starting_z_offset'),
           ('optiland.optic', 'Optic.trace'), ('optiland.optic', 'Optic.trace_generic'),
           ('optiland.fields', 'FieldGroup.get_vig_factor'),
           ('optiland.distribution', 'HexagonalDistribution.generate_points'),
           ('optiland.distribution', 'UniformDistribution.generate_points'),
           ('optiland.distribution', 'RandomDistribution.generate_points'),
           ('optiland.distribution', 'CrossDistribution.generate_points'),
           ('optiland.distribution', 'RingDistribution.generate_points'),
           ('optiland.distribution', 'LineXDistribution.generate_points'),
           ('optiland.distribution', 'LineYDistribution.generate_points'),
           ('optiland.distribution', 'GaussianQuadrature.generate_points'),
           ('optiland.paraxial', 'Paraxial.EPL'), ('optiland.paraxial', 'Paraxial.EPD')]

REJECTED = ['inf+object_height', 'inf+telecentric', 'telecentric+angle', 'telecentric+EPD', 'telecentric+imageFNO']
DISTS = ['hexapolar', 'uniform', 'random', 'cross', 'ring', 'line_x', 'line_y', 'positive_line_x', 'positive_line_y',
         'gaussian', 'gaussian_sym']


SWEEP = {'hexapolar': (1, 24), 'uniform': (3, 96), 'random': (1, 512), 'cross': (1, 512), 'ring': (1, 512),
         'line_x': (1, 512), 'line_y': (1, 512), 'positive_line_x': (1, 512), 'positive_line_y': (1, 512),
         'gaussian': (1, 6), 'gaussian_sym': (1, 6)}


def fixed_cases(tier):
    # exhaustive (within the stated bounds) enumeration of the ray counts of every named distribution
    return [dict(kind='dist-sweep', name=n, lo=lo, hi=hi) for n, (lo, hi) in SWEEP.items()]


def gen_case(rng, tier, i):
    r = rng.random()
    if r < 0.2:
        name = DISTS[int(rng.integers(len(DISTS)))]
        n = int(rng.integers(1, 7)) if name.startswith('gaussian') else int(rng.integers(1, 400))
        if name == 'hexapolar':
            n = int(rng.integers(1, 15))
        if name == 'uniform':
            n = int(rng.integers(3, 60))     # fewer grid points leave nothing inside the unit disk
        vx, vy = (float(rng.uniform(0, 0.6)), float(rng.uniform(0, 0.6))) if rng.random() < 0.4 else (0.0, 0.0)
        spec = None
        if rng.random() < 0.5:
            spec, info = L.gen_axial(rng, nsurf=(2, 6), image='any')
        return dict(kind='dist', name=name, n=n, vx=vx, vy=vy, spec=spec, Hy=float(rng.uniform(-1, 1)))
    if r < 0.33:
        rej = REJECTED[int(rng.integers(len(REJECTED)))]
        finite_p = 0.0 if rej.startswith('inf') else 1.0
        spec, info = L.gen_axial(rng, nsurf=(2, 6), finite_p=finite_p, image='any')
        if rej == 'inf+object_height':
            spec['field_type'] = 'object_height'
        elif rej == 'inf+telecentric':
            spec['telecentric'] = True
            if rng.random() < 0.5:
                spec['aperture'] = ['objectNA', 0.1]
        elif rej == 'telecentric+angle':
            spec['telecentric'] = True
            spec['field_type'] = 'angle'
            spec['fields'] = [[0.0, 0, 0], [5.0, 0, 0]]
            spec['aperture'] = ['objectNA', 0.1]
        elif rej == 'telecentric+EPD':
            spec['telecentric'] = True
            spec['field_type'] = 'object_height'
            spec['fields'] = [[0.0, 0, 0], [1.0, 0, 0]]
            spec['aperture'] = ['EPD', 2.0]
        else:
            spec['telecentric'] = True
            spec['field_type'] = 'object_height'
            spec['fields'] = [[0.0, 0, 0], [1.0, 0, 0]]
            spec['aperture'] = ['imageFNO', 5.0]
        return dict(kind='reject', cell=rej, spec=spec, Hy=float(rng.uniform(-1, 1)),
                    Px=float(rng.uniform(-0.7, 0.7)), Py=float(rng.uniform(-0.7, 0.7)))
    a = L.loguniform(rng, 1.0, 12.0)
    tele = r > 0.9
    spec, info = L.gen_axial(rng, semi=a, nsurf=(1, 9), asphere_p=0.1, glass_p=0.15, image='any',
                             mirrors_p=(0.2 if rng.random() < 0.15 else 0.0), finite_p=(1.0 if tele else 0.5),
                             neg_power_p=0.25, stop=str(rng.choice(['first', 'interior', 'last', 'any'])),
                             obj_medium_p=0.3)
    for s_ in spec['surfaces']:
        if s_.get('type') == 'even_asphere' and s_.get('coeffs'):
            s_['coeffs'][0] = 0.0       # the r^2 term belongs to C04 (finding asphere-r2-term); not re-litigated here
    classes = []
    if tele:
        spec['telecentric'] = True
        spec['field_type'] = 'object_height'
        spec['aperture'] = ['objectNA', round(float(rng.uniform(0.02, 0.6)), 6)]
        h = float(rng.uniform(0.1, 3.0))
        spec['fields'] = [[0.0, 0, 0], [h, 0, 0]]
        classes.append('telecentric')
    elif rng.random() < 0.3:
        classes = L.decorate(spec, rng, a, freeform_p=0.2)
    if spec['obj_t'] != 'inf' and spec['field_type'] == 'object_height' and rng.random() < 0.25:
        # curved object surface: the field point lies ON the object surface (height Hy x max field, z = vertex + sag)
        fm_ = max(abs(f[0]) for f in spec['fields'])
        spec['obj_radius'] = round(float(rng.choice([-1.0, 1.0]) * rng.uniform(1.5, 8.0) * max(fm_, 0.5)), 6)
        classes.append('curved-object-surface')
    vig = False
    if not tele and rng.random() < 0.3 and len(spec['fields']) > 1:
        for f in spec['fields'][1:]:
            f[1], f[2] = round(float(rng.uniform(0, 0.5)), 4), round(float(rng.uniform(0, 0.5)), 4)
        vig = True
        classes.append('vignetting-factors')
        if len(spec['fields']) >= 3 and rng.random() < 0.3:
            # no axial field in the list: requested fields below the smallest entered one take ITS factors (never
            # negative ones extrapolated from the trend)
            spec['fields'] = [f for f in spec['fields'] if f[0] != 0]
            classes.append('no-axial-field-entered')
        if len(spec['fields']) >= 2 and rng.random() < 0.5:
            # fields entered in non-ascending order (the order of entry is not part of the meaning of a field)
            f_ = spec['fields']
            perm_ = [int(j) for j in rng.permutation(len(f_))]
            if perm_ == sorted(perm_):
                perm_ = perm_[::-1]
            spec['fields'] = [f_[j] for j in perm_]
            classes.append('fields-not-ascending')
    if not tele and not vig and rng.random() < 0.12:
        # field list dominated by a negative field: the maximum field is the largest |field|
        fm = max(f[0] for f in spec['fields'])
        if fm > 0:
            spec['fields'] = [[-fm, 0.0, 0.0], [0.0, 0.0, 0.0], [round(0.5 * fm, 6), 0.0, 0.0]]
            classes.append('negative-dominant-fields')
    n = 16
    rr = np.sqrt(rng.uniform(0, 1, n)); th = rng.uniform(0, 2 * np.pi, n)
    rr[:4] = 1.0
    rr[4] = 0.0
    Px, Py = rr * np.cos(th), rr * np.sin(th)
    Hy = float(rng.choice([0.0, 1.0, -1.0, rng.uniform(-1, 1)]))
    if 'no-axial-field-entered' in classes and rng.random() < 0.6:
        Hy = float(rng.choice([0.0, rng.uniform(-0.3, 0.3)]))
    elif vig and rng.random() < 0.6:
        # exactly one of the entered fields (a field entered with zero factors must be aimed at the full pupil, whatever
        # the factors of the other fields and whatever the order of entry)
        fm_ = max(abs(f[0]) for f in spec['fields'])
        Hy = float(spec['fields'][int(rng.integers(len(spec['fields'])))][0] / fm_)
    wl = float(spec['wavelengths'][int(rng.integers(len(spec['wavelengths'])))][0])
    case = dict(kind='launch', spec=spec, info=info, classes=classes, Hy=Hy, Px=Px.tolist(), Py=Py.tolist(), wl=wl, vig=vig)
    if rng.random() < 0.25:
        # the lens is used once, then edited through the public setters, then launched: the pupil the rays aim at is
        # the pupil of the lens as it is NOW
        K = len(spec['surfaces'])
        edits = []
        for _ in range(int(rng.integers(1, 3))):
            k = int(rng.integers(1, K))
            su = spec['surfaces'][k - 1]
            kind = str(rng.choice(['index', 'radius', 'thickness']))
            if kind == 'index' and k < K - 1 and su.get('medium') != 'mirror' and spec['surfaces'][k].get('medium') != 'mirror':
                edits.append(['index', k, round(float(rng.uniform(1.3, 1.95)), 6)])
            elif kind == 'radius' and su.get('type', 'standard') == 'standard' and su.get('radius', 'inf') != 'inf':
                edits.append(['radius', k, round(float(su['radius']) * float(rng.uniform(0.7, 1.5)), 6)])
            elif kind == 'thickness':
                edits.append(['thickness', k, round(float(su['t']) * float(rng.uniform(0.5, 1.5)), 6)])
        if edits:
            case['edits'] = edits
    return case


def expected_count(name, n):
    if name == 'hexapolar':
        return 1 + 3 * n * (n + 1)
    if name == 'cross':
        return 2 * n
    if name in ('ring', 'line_x', 'line_y', 'positive_line_x', 'positive_line_y', 'random'):
        return n
    if name == 'uniform':
        g = np.linspace(-1, 1, n)
        X, Y = np.meshgrid(g, g)
        return int(np.sum(X ** 2 + Y ** 2 <= 1))
    if name == 'gaussian':
        return 3 * n
    if name == 'gaussian_sym':
        return n
    raise ValueError(name)


def check_dist(case, rec):
    from optiland import distribution as D
    name, n, vx, vy = case['name'], case['n'], case['vx'], case['vy']
    if name == 'gaussian':
        d = D.GaussianQuadrature(is_symmetric=False)
    elif name == 'gaussian_sym':
        d = D.GaussianQuadrature(is_symmetric=True)
    else:
        d = D.create_distribution(name)
    d.generate_points(n, vx, vy) if (vx or vy) else d.generate_points(n)
    x, y = np.asarray(d.x, float), np.asarray(d.y, float)
    want = expected_count(name, n)
    rec.cls(f'dist-{name}')
    rec.check('distribution-count', len(x) == want and len(y) == want,
              msg=f'{name}({n}) delivered {len(x)} points, documented {want}')
    rec.check('distribution-in-unit-disk', bool(np.all(x * x + y * y <= 1 + 1e-12)),
              msg=f'{name}({n}) has points outside the unit pupil (max r^2 {np.max(x * x + y * y) if len(x) else 0})')
    if vx or vy:
        d0 = D.GaussianQuadrature(is_symmetric=(name == 'gaussian_sym')) if name.startswith('gaussian') \
            else D.create_distribution(name)
        if name != 'random':
            d0.generate_points(n)
            ok = bool(np.all(np.abs(x) <= np.abs(d0.x) + 1e-15) and np.all(np.abs(y) <= np.abs(d0.y) + 1e-15))
            rec.check('vignetting-shrinks', ok, msg=f'{name}: vignetting factors enlarged the sampled pupil')
    # a second sampling of the same name with another count: the first one keeps ITS points (two samplings alive at once)
    if not name.startswith('gaussian'):
        x_keep, y_keep = x.copy(), y.copy()
        d2 = D.create_distribution(name)
        d2.generate_points(n + 3)
        x_late, y_late = np.asarray(d.x, float), np.asarray(d.y, float)
        rec.check('distribution-count', x_late.shape == x_keep.shape and bool(np.array_equal(x_late, x_keep))
                  and bool(np.array_equal(y_late, y_keep)), key='distribution-count:objects-independent',
                  msg=f'{name}({n}): the points of a sampling changed when a second {name} sampling ({n + 3}) was generated')
    if want >= 7:
        rec.nontrivial_case()
    # through Optic.trace: the number of launched rays is the documented count
    if case.get('spec') and name not in ('gaussian', 'gaussian_sym'):
        lens = L.build(case['spec'])
        wl = L.primary_wavelength(case['spec'])
        rays = lens.trace(0.0, case['Hy'], wl, n, name)
        rec.check('distribution-count', len(rays.x) == want, msg=f'Optic.trace with {name}({n}) launched {len(rays.x)} rays, documented {want}')
        rec.event('rays_launched', len(rays.x))
    rec.sample(dict(case=case, first_points=[x[:3], y[:3]]))


def check_reject(case, rec):
    spec = case['spec']
    rec.cls(f"rejected-{case['cell']}")
    try:
        lens = L.build(spec)
    except ValueError:
        rec.check('rejected-combination', True)     # rejected already at configuration time
        return
    try:
        rays = lens.trace_generic(0.0, case['Hy'], case['Px'], case['Py'], L.primary_wavelength(spec))
    except ValueError:
        rec.check('rejected-combination', True)
        return
    rec.check('rejected-combination', False, key=f"rejected-combination:{case['cell']}",
              msg=f"combination {case['cell']} was traced instead of being rejected")


def check_sweep(case, rec):
    from optiland import distribution as D
    name = case['name']
    rec.cls(f'dist-sweep-{name}')
    bad_n, bad_r = [], []
    for n in range(case['lo'], case['hi'] + 1):
        d = D.GaussianQuadrature(is_symmetric=(name == 'gaussian_sym')) if name.startswith('gaussian') \
            else D.create_distribution(name)
        d.generate_points(n)
        x, y = np.asarray(d.x, float), np.asarray(d.y, float)
        if len(x) != expected_count(name, n) or len(y) != len(x):
            bad_n.append((n, len(x), expected_count(name, n)))
        if len(x) and np.max(x * x + y * y) > 1 + 1e-12:
            bad_r.append(n)
    m = case['hi'] - case['lo'] + 1
    rec.check('distribution-count', not bad_n, n=m, key=f'distribution-count:{name}',
              msg=f'{name}: (count requested, delivered, documented) {bad_n[:5]}')
    rec.check('distribution-in-unit-disk', not bad_r, n=m, key=f'distribution-in-unit-disk:{name}',
              msg=f'{name}: points outside the unit pupil for counts {bad_r[:5]}')
    rec.event('distribution_counts_enumerated', m)
    rec.nontrivial_case()


def obj_sag(spec, h):
    """Sag of the (spherical or flat) object surface at height h."""
    R = spec.get('obj_radius', 'inf')
    if R == 'inf':
        return 0.0
    R = float(R)
    return h * h / (R * (1 + math.sqrt(1 - h * h / (R * R))))


def check_case(case, rec):
    if case['kind'] == 'dist-sweep':
        return check_sweep(case, rec)
    if case['kind'] == 'dist':
        return check_dist(case, rec)
    if case['kind'] == 'reject':
        return check_reject(case, rec)
    spec = case['spec']
    if spec['aperture'][0] == 'imageFNO' and float(L.psys(spec).power()) < 0:
        rec.cls('negative-power-imageFNO-skipped')     # EPD sign is C04's finding `negative-power`; not re-litigated here
        return
    lens = L.build(spec)
    classes = list(case.get('classes', []))
    if case.get('edits'):
        import copy
        classes.append('edited-after-first-use')
        try:
            lens.trace_generic(0.0, 0.5, 0.0, 0.5, case['wl'])
            lens.trace(0.0, 1.0, case['wl'], 6, 'line_y')
        except ValueError as e:
            if 'Chebyshev input coordinates' in str(e):
                rec.cls('chebyshev-domain-error-skipped')
                return
            raise
        lens.paraxial.EPL(); lens.paraxial.EPD()
        spec = copy.deepcopy(spec)
        for kind_, k_, v_ in case['edits']:
            if kind_ == 'index':
                lens.set_index(v_, k_); spec['surfaces'][k_ - 1]['medium'] = {'n': v_}
            elif kind_ == 'radius':
                lens.set_radius(v_, k_); spec['surfaces'][k_ - 1]['radius'] = v_
            else:
                lens.set_thickness(v_, k_); spec['surfaces'][k_ - 1]['t'] = v_
            rec.event('edits_applied')
        if spec['aperture'][0] == 'imageFNO' and float(L.psys(spec).power()) < 0:
            rec.cls('negative-power-imageFNO-skipped')
            return
    finite = spec['obj_t'] != 'inf'
    tele = bool(spec.get('telecentric'))
    cell = f"{'finite' if finite else 'inf'}+{spec['field_type']}+{spec['aperture'][0]}" + ('+telecentric' if tele else '')
    rec.cls(f'cell-{cell}', *classes)
    Hy, wl = case['Hy'], case['wl']
    Px, Py = np.array(case['Px']), np.array(case['Py'])
    n = len(Px)
    try:
        # the caller's pupil arrays are used for two requests in a row (a loop over wavelengths or fields): the judged one
        # is the second - it must aim at the points the arrays were made with
        pxa, pya = Px.copy(), Py.copy()
        lens.trace_generic(np.zeros(n), np.full(n, Hy), pxa, pya, wl)
        first_ = [np.array(getattr(lens.surface_group, a_)[0], float).copy() for a_ in ('x', 'y', 'z', 'L', 'M', 'N')]
        rays = lens.trace_generic(np.zeros(n), np.full(n, Hy), pxa, pya, wl)
        second_ = [np.array(getattr(lens.surface_group, a_)[0], float) for a_ in ('x', 'y', 'z', 'L', 'M', 'N')]
        rec.check('aim-at-pupil-point', all(np.array_equal(a_, b_, equal_nan=True) for a_, b_ in zip(first_, second_)),
                  key='aim-at-pupil-point:same-arrays-requested-twice',
                  msg='the same (Hy, Px, Py) arrays requested twice in a row launch different rays (vignetting factors '
                      f'{"set" if any(f_[1] or f_[2] for f_ in spec["fields"]) else "not set"})')
    except ValueError as e:
        if 'Chebyshev input coordinates' in str(e):
            rec.cls('chebyshev-domain-error-skipped')
            return
        raise
    sg = lens.surface_group
    x0, y0, z0 = sg.x[0], sg.y[0], sg.z[0]
    L0, M0, N0 = sg.L[0], sg.M[0], sg.N[0]
    I0, O0 = sg.intensity[0], sg.opd[0]
    rec.event('rays_launched', n)
    P = L.psys(spec)
    if float(abs(P.power())) > 0 and sum(1 for s in spec['surfaces'][:-1] if s.get('radius', 'inf') != 'inf') >= 2:
        rec.nontrivial_case()
    fmax = max(abs(f[0]) for f in spec['fields'])      # the maximum field is the largest |field|
    zs = L.vertex_positions(spec)
    rec.check('unit-intensity', bool(np.all(I0 == 1.0)), msg='launched rays do not carry unit intensity')
    rec.check('zero-path', bool(np.all(O0 == 0.0)), msg='launched rays have non-zero accumulated path')
    rec.check('wavelength', bool(np.all(rays.w == wl)), msg='launched rays do not carry the requested wavelength')
    nrm = np.abs(L0 ** 2 + M0 ** 2 + N0 ** 2 - 1)
    rec.check('unit-launch-direction', bool(np.all(nrm < 1e-12)), msg='launch direction not unit')
    scale = max(1.0, float(np.max(np.abs(P.z))))
    # every launched ray travels towards the lens (vertex 1 is at z = 0, launch points are in front of it)
    fwd = bool(np.all(N0 > 0))
    epl_lib = float(np.ravel(lens.paraxial.EPL())[0]) if not tele else math.inf
    behind = (not tele) and bool(np.all(epl_lib < z0))
    rec.check('launch-towards-lens', fwd, key='launch-towards-lens' + (':entrance-pupil-behind-launch-point' if behind else ''),
              msg=f'launched rays travel away from the lens (N={N0[:3]}, launch z={z0[0]}, EPL={epl_lib})')
    if behind:
        rec.cls('entrance-pupil-behind-launch-point')
    if tele:
        na = spec['aperture'][1]
        centre = (Px == 0) & (Py == 0)
        rim = np.abs(np.hypot(Px, Py) - 1) < 1e-12
        rec.check('telecentric-chief-parallel', bool(np.all(np.abs(L0[centre]) < 1e-12) and np.all(np.abs(M0[centre]) < 1e-12)),
                  msg='telecentric object space: chief ray not parallel to the axis')
        s = np.hypot(L0[rim], M0[rim])
        rec.check('telecentric-rim-na', bool(np.all(np.abs(s - na) < 1e-12)), resid=float(np.max(np.abs(s - na))), tol=1e-12,
                  msg=f'telecentric object space: rim ray sine {s[:2]} differs from the stated NA {na}')
        rec.close('origin-height-field', np.stack([x0, y0, z0]),
                  np.stack([np.zeros(n), np.full(n, Hy * fmax), np.full(n, zs[0] + obj_sag(spec, Hy * fmax))]),
                  1e-12, scale=scale, msg='telecentric: ray origin is not the field point on the object')
        rec.sample(dict(case=case, record0=dict(y=y0[:3], M=M0[:3])))
        return
    # pupil: independent for axial lenses
    if L.is_axial(spec):
        EPL, EPD = float(P.EPL()), float(L.epd_of(spec, P))
        mech = set()
        if any(s.get('type') == 'even_asphere' and s.get('coeffs') and s['coeffs'][0] != 0 for s in spec['surfaces']):
            mech.add('asphere-r2-term')     # C04 finding: the library pupil ignores the r^2 coefficient
        if spec['aperture'][0] == 'imageFNO' and float(P.power()) < 0:
            mech.add('negative-power')
    else:
        EPL, EPD = float(np.ravel(lens.paraxial.EPL())[0]), float(np.ravel(lens.paraxial.EPD())[0])
        mech = set()
    # origin / direction by field type
    if finite and spec['field_type'] == 'object_height':
        rec.close('origin-height-field', np.stack([x0, y0, z0]),
                  np.stack([np.zeros(n), np.full(n, Hy * fmax), np.full(n, zs[0] + obj_sag(spec, Hy * fmax))]), 1e-12, scale=scale,
                  msg='ray origin is not the field point on the object surface')
    if not finite:
        th = math.radians(Hy * fmax)
        same = bool(np.all(np.abs(L0 - L0[0]) < 1e-14) and np.all(np.abs(M0 - M0[0]) < 1e-14))
        ok = same and bool(np.all(np.abs(M0 / N0 - math.tan(th)) < 1e-12) and np.all(np.abs(L0) < 1e-14))
        rec.check('direction-angle-field', ok, msg=f'infinite object: directions are not all tan(Hy*field)={math.tan(th)}: M/N={M0[:2] / N0[:2]}')
    if finite and spec['field_type'] == 'angle':
        # the chief-type ray (P = 0) makes the field angle with the axis
        c = (Px == 0) & (Py == 0)
        th = math.radians(Hy * fmax)
        rec.check('direction-angle-field', bool(np.all(np.abs(M0[c] / N0[c] - math.tan(th)) < 1e-10) and np.all(np.abs(L0[c]) < 1e-14)),
                  msg='finite object, angular field: zero-pupil ray does not travel at Hy x field angle')
    # aim point in the entrance pupil plane
    vx = vy = 0.0
    if case.get('vig'):
        ys = np.array([f[0] for f in spec['fields']]); vxs = np.array([f[1] for f in spec['fields']])
        vys = np.array([f[2] for f in spec['fields']])
        o = np.argsort(ys)
        vx = float(np.interp(abs(Hy), ys[o] / fmax, vxs[o])); vy = float(np.interp(abs(Hy), ys[o] / fmax, vys[o]))
    with np.errstate(all='ignore'):
        t = (EPL - z0) / N0
        hx, hy = x0 + t * L0, y0 + t * M0
    wx, wy = Px * EPD / 2, Py * EPD / 2
    tol = 1e-9 * max(1.0, abs(EPD), abs(EPL))
    flags = tuple(sorted(mech))
    if vx == 0 and vy == 0:
        alt = None
        if flags:
            EPLa, EPDa = float(np.ravel(lens.paraxial.EPL())[0]), float(np.ravel(lens.paraxial.EPD())[0])
            Pab = L.psys(spec, ignore_r2=True)
            # as-built prediction only when the library pupil is what the known mechanism predicts
            if abs(EPLa - float(Pab.EPL())) <= 1e-9 * max(1, abs(EPLa)):
                ta = (EPLa - z0) / N0
                # library aims at its own pupil: hits there must be exact
                ha = np.stack([x0 + ta * L0 - Px * EPDa / 2, y0 + ta * M0 - Py * EPDa / 2])
                if np.all(np.abs(ha) <= 1e-9 * max(1.0, abs(EPDa), abs(EPLa))):
                    alt = np.stack([hx, hy])       # explained: rays are aimed exactly at the as-built pupil
        rec.close('aim-at-pupil-point', np.stack([hx, hy]), np.stack([wx, wy]), 1e-9, scale=max(1.0, abs(EPD), abs(EPL)),
                  alt=alt, flags=flags,
                  msg=f'rays do not pass through (Px,Py)*EPD/2 in the paraxial entrance pupil plane (EPL={EPL}, EPD={EPD})')
    else:
        ok = bool(np.all(np.abs(hx) <= np.abs(wx) + tol) and np.all(np.abs(hy) <= np.abs(wy) + tol)
                  and np.all(hx * wx >= -tol) and np.all(hy * wy >= -tol))
        rec.check('vignetting-shrinks', ok, key='vignetting-shrinks' + (':' + '+'.join(flags) if flags else ''),
                  msg='with vignetting factors the sampled pupil footprint is not contained in the unvignetted one')
    rec.sample(dict(case={k: case[k] for k in case if k != 'info'}, record0=dict(x=x0[:3], y=y0[:3], z=z0[:3], M=M0[:3])))
