"""Zemax .zmx writer: prescription dict -> well-formed sequential lens file text.

Independent of optiland: nothing here imports the library.  The layout mirrors what
Zemax/OpticStudio writes (and the two fixtures under /repo/tests/zemax_files): a header
(VERS, MODE, NAME, NOTE, PFIL, LANG, UNIT, system aperture, ENVD, GFAC, GCAT, ... FTYP,
field lists padded to 12 entries with weights and vignetting lists, WAVM lines, PWAV,
POLS, GLRS, GSTD, NSCD, COFN), one `SURF n` block per surface from the object (0) to
the image (last), and a trailer (BLNK, TOL, MNUM, MOFF).  Lines a reader has no use for
are written on purpose: a reader must skip them.

prescription = {
  'mode': 'SEQ'|'NSC', 'name': str, 'notes': [str], 'vers': str,
  'numfmt': 'plain'|'g17'|'E18',          how numbers are spelled (all round-trip exactly)
  'eol': '\n'|'\r\n', 'encoding': 'utf-8'|'utf-16'   (utf-16 = little endian with BOM, as Zemax)
  'aperture': ['ENPD'|'FNUM'|'OBNA', value],
  'gcat': [catalogue names],
  'ftype': 0 (angle, degrees) | 1 (object height),
  'fields': [[x, y], ...]   1..12, in file order (unsorted, duplicates allowed),
  'pad_fields': bool        pad the lists to 12 entries with zeros (modern files) or not (fixture lens1),
  'ftyp_len': 7|8|9         how many numbers follow FTYP
  'wavelengths': [[value_um, weight], ...]  1..12, 'primary': 1-based index,
  'pad_waves': bool         write all 24 WAVM rows (unused ones 0.55 1) as recent versions do,
  'pwav_first': bool        PWAV before the WAVM rows (fixture lens1) or after (fixture lens2),
  'surfaces': [ { 'type': 'STANDARD'|'EVENASPH', 'curv': float, 'disz': float|'INFINITY',
                  'coni': float|None (None: no CONI line), 'parm': [8 floats] (EVENASPH only),
                  'glass': None | {'name': str, 'nd': float, 'vd': float, 'model': 0|1},
                  'stop': bool, 'diam': float, 'comm': str|None, 'extras': bool } ... ]
}
"""
import math

INF = 'INFINITY'


def fnum(x, style='plain'):
    """Spell a float so that float(token) == x exactly."""
    if isinstance(x, str):
        return x
    x = float(x)
    if math.isinf(x):
        return INF
    if style == 'E18':
        # Zemax: 1.919385796545105600E-002 (three-digit exponent)
        s = '%.18E' % x
        mant, exp = s.split('E')
        return '%sE%s%03d' % (mant, exp[0], int(exp[1:]))
    if style == 'g17':
        return '%.17g' % x
    # 'plain': shortest round-trip repr; integral values without the fraction, as in "DISZ 4", "ENPD 15"
    if x == int(x) and abs(x) < 1e15:
        return str(int(x)) if x != 0 else ('0' if math.copysign(1, x) > 0 else '-0.0')
    return repr(x)


def _pad(vals, n, fill):
    vals = list(vals)
    return vals + [fill] * (n - len(vals))


def header_lines(p):
    st = p.get('numfmt', 'plain')
    f = lambda x: fnum(x, st)
    L = []
    lead = p.get('lead', 'vers')       # what the FIRST line of the file is: VERS (usual), MODE (no VERS line), or the aperture
    typ, val = p['aperture']
    apline = {'ENPD': 'ENPD ' + f(val), 'FNUM': 'FNUM ' + f(val) + ' 0', 'OBNA': 'OBNA ' + f(val) + ' 0'}.get(typ)
    if apline is None:
        raise ValueError(typ)
    if lead == 'aperture':
        L.append(apline)
    if lead == 'vers':
        L.append('VERS ' + p.get('vers', '171115 258 36214'))
    L.append('MODE ' + p.get('mode', 'SEQ'))
    L.append('NAME ' + p.get('name', ''))
    for i, note in enumerate(p.get('notes', [])):
        L.append('NOTE 0 ' + note)
    L.append('PFIL 0 0 0')
    L.append('LANG 0')
    L.append('UNIT MM X W X CM MR CPMM')
    if lead != 'aperture':
        L.append(apline)
    L.append('ENVD 20 1 0')
    L.append('GFAC 0 0')
    L.append('GCAT ' + ' '.join(p.get('gcat', ['SCHOTT'])) + (' ' if len(p.get('gcat', [])) > 1 else ''))
    L.append('RAIM 0 0 1 1 0 0 0 0 0')
    L.append('PUSH 0 0 0 0 0 0')
    L.append('SDMA 0 1 0')
    L.append('OMMA 1 1')
    nf, nw = len(p['fields']), len(p['wavelengths'])
    ftyp = [p['ftype'], 0, nf, nw, 0, 0, 0, 0, 0][:int(p.get('ftyp_len', 8))]
    L.append('FTYP ' + ' '.join(str(v) for v in ftyp))
    L.append('ROPD 2')
    L.append('HYPR 0')
    L.append('PICB 1')
    xs = [fl[0] for fl in p['fields']]
    ys = [fl[1] for fl in p['fields']]
    npad = 12 if p.get('pad_fields', True) else nf
    L.append('XFLN ' + ' '.join(f(v) for v in _pad(xs, npad, 0.0)))
    L.append('YFLN ' + ' '.join(f(v) for v in _pad(ys, npad, 0.0)))
    L.append('FWGN ' + ' '.join(['1'] * npad))
    for key in ('VDXN', 'VDYN', 'VCXN', 'VCYN', 'VANN'):
        L.append(key + ' ' + ' '.join(['0'] * npad))
    wl = []
    for i, (w, wt) in enumerate(p['wavelengths'], start=1):
        wl.append('WAVM %d %s %s' % (i, f(w), f(wt)))
    if p.get('pad_waves'):
        for i in range(nw + 1, 25):
            wl.append('WAVM %d 0.55 1' % i)
    pw = 'PWAV %d' % int(p['primary'])
    L += ([pw] + wl) if p.get('pwav_first') else (wl + [pw])
    L.append('POLS 1 0 1 0 0 1 0')
    L.append('GLRS 1 0')
    L.append('GSTD 0 100.000 100.000 100.000 100.000 100.000 100.000 0 1 1 0 0 1 1 1 1 1 1')
    L.append('NSCD 100 500 0 1.0E-3 5 1.0E-6 0 0 0 0 0 0 1000000 0 2')
    L.append('COFN QF "COATING.DAT" "SCATTER_PROFILE.DAT" "ABG_DATA.DAT" "PROFILE.GRD"')
    return L


def surface_lines(k, s, st='plain'):
    f = lambda x: fnum(x, st)
    L = ['SURF %d' % k]
    if s.get('comm'):
        L.append('  COMM ' + s['comm'])
    if s.get('stop'):
        L.append('  STOP')
    L.append('  TYPE ' + s.get('type', 'STANDARD'))
    if s.get('extras', True):
        L.append('  FIMP ')
        L.append('')
    L.append('  CURV ' + f(s.get('curv', 0.0)) + ' 0 0 0 0 ""')
    if s.get('extras', True):
        L.append('  HIDE 0 0 0 0 0 0 0 0 0 0')
        L.append('  MIRR 2 0')
        L.append('  SLAB %d' % (k + 1))
    if s.get('type') == 'EVENASPH':
        for i, v in enumerate(s['parm'], start=1):
            L.append('  PARM %d %s' % (i, f(v)))
    L.append('  DISZ ' + f(s.get('disz', 0.0)))
    g = s.get('glass')
    if g:
        L.append('  GLAS %s %d 0 %s %s 0 0 0 0 0 0' % (g['name'], int(g.get('model', 0)), f(g['nd']), f(g['vd'])))
    if s.get('coni') is not None:
        L.append('  CONI ' + f(s['coni']))
    d = s.get('diam', 0.0)
    L.append('  DIAM ' + f(d) + ' 0 0 0 1 ""')
    if s.get('extras', True):
        L.append('  POPS 0 0 0 0 0 0 0 0 1 1 1 1 0 0 0 0')
        if s.get('flap'):
            L.append('  FLAP 0 ' + f(d) + ' 0')
    return L


def nsc_body_lines():
    """What follows the header in a non-sequential-mode file (one NONSEQCO surface holding objects)."""
    return ['SURF 0', '  TYPE STANDARD', '  CURV 0.0 0 0 0 0 ""', '  DISZ INFINITY', '  DIAM 0 0 0 0 1 ""',
            'SURF 1', '  STOP', '  TYPE NONSEQCO', '  CURV 0.0 0 0 0 0 ""', '  DISZ 0', '  DIAM 0 0 0 0 1 ""',
            '  NSCS 0 0 0 0 0 0 0', '  NSCO 1 NSC_SSUR 0', '  NSOD 0 0 0 0 0 0 0', '  NSOP 0 0 0 0 0 0 MIRROR 0',
            '  NSCO 2 NSC_DETE 0', '  NSOP 0 0 10 0 0 0 ABSORB 0',
            'SURF 2', '  TYPE STANDARD', '  CURV 0.0 0 0 0 0 ""', '  DISZ 0', '  DIAM 0 0 0 0 1 ""']


def zmx_text(p):
    st = p.get('numfmt', 'plain')
    L = header_lines(p)
    if p.get('mode', 'SEQ') == 'NSC' and p.get('nsc_body', True):
        L += nsc_body_lines()
    else:
        for k, s in enumerate(p['surfaces']):
            L += surface_lines(k, s, st)
    L.append('BLNK ')
    L.append('TOL  TOFF   0   0            0            0   0 0 0')
    L.append('MNUM 1 1')
    L.append('MOFF   0   1 "" 0 0 0 1 1 0 0.0 ""')
    eol = p.get('eol', '\r\n')
    return eol.join(L) + eol


def zmx_bytes(p):
    text = zmx_text(p)
    enc = p.get('encoding', 'utf-8')
    if enc == 'utf-16':
        return b'\xff\xfe' + text.encode('utf-16-le')       # BOM + little endian, as Zemax writes it
    return text.encode('utf-8')


def write_zmx(p, path):
    data = zmx_bytes(p)
    with open(path, 'wb') as fh:
        fh.write(data)
    return len(data)
