"""C16 -- ray intensity is never created and is removed exactly as specified.

Law monitor over the per-surface intensity log (surface_group.intensity) with an
independent model of every loss: aperture test in my own surface frame, Beer-Lambert
over my own segment length, simple-coating transmittance / reflectance.  An icontract
postcondition on RealRays.propagate / clip additionally watches every call for created
intensity.
"""
import math

import numpy as np

from vkit import lens as L
from vkit import monitors, suite_monitor
from vkit.oracles import shapes as S

ID = 'C16'
RULE = ('random lenses (1-8 interfaces, all shapes, mirrors, tilts/decentres) with radial apertures (with and without '
        'central obscuration) on random surfaces, absorbing media (k in 1e-8..1e-5, ideal and catalogue), simple coatings '
        'with random T, R in [0,1]; traced with Optic.trace (named distributions) and trace_generic, polarization '
        '"ignore", unpolarized and polarized states; every finite (ray, surface) record is one event; non-trivial = lens '
        'with >= 1 loss mechanism acting on >= 1 ray and >= 1 ray reaching the image; distinct = distinct case hash')
TIERS = {'quick': dict(shards=6, cases=60), 'thorough': dict(shards=16, cases=2000)}
MIN_NONTRIVIAL = {'quick': 150, 'thorough': 2000}
MIN_EVALS = {'intensity-in-0-1': 300, 'intensity-never-increases': 300, 'intensity-model': 300, 'clipped-stays-dark': 30,
             'returned-equals-record': 100, 'returned-intensity-model': 100, 'C16.intensity-not-created': 300, 'analysis-reports-traced-intensity': 10}
ASSUMPTIONS = ['k of catalogue media is taken from the library material objects (C18 checks the interpolation)',
               'frames and segment lengths are recomputed independently (vkit/oracles/shapes.py)',
               'relative tolerance 1e-9 on each per-surface factor']
ANCHORS = [('optiland.physical_apertures', 'RadialAperture.clip'), ('optiland.rays.real_rays', 'RealRays.clip'),
           ('optiland.rays.real_rays', 'RealRays.propagate'), ('optiland.coatings', 'SimpleCoating.transmit'),
           ('optiland.coatings', 'SimpleCoating.reflect'), ('optiland.coatings', 'BaseCoating.interact'),
           ('optiland.optic', 'Optic.trace'), ('optiland.optic', 'Optic.trace_generic'),
           ('optiland.rays.polarized_rays', 'PolarizedRays.update_intensity')]


def shard_setup(rec):
    log = monitors.MonitorLog()
    rec._mlog = log
    return monitors.install_contracts(log, which=('intensity',))


def shard_finish(rec):
    log = rec._mlog
    for name, n in log.evals.items():
        bad = [b for b in log.bad if b[0] == name]
        rec.check(name, not bad, n=n, msg=f'{name} broken (intensity grew inside RealRays.propagate/clip): {bad[:2]}')


def fixed_cases(tier):
    return [dict(kind='repo-suite', tests=(['tests'] if tier == 'thorough' else ['tests/test_rays.py', 'tests/test_optic.py', 'tests/test_standard_surface.py', 'tests/test_wavelength.py', 'tests/test_coatings.py']))]


def gen_case(rng, tier, i):
    a = L.loguniform(rng, 1.0, 10.0)
    multiwl = rng.random() < 0.3
    spec, info = L.gen_axial(rng, semi=a, nsurf=(1, 8), asphere_p=0.15, glass_p=(0.6 if multiwl else 0.2), image='any',
                             nwl=((3, 3) if multiwl else (1, 3)),
                             mirrors_p=(0.3 if rng.random() < 0.25 else 0.0), neg_power_p=0.2)
    classes = []
    if rng.random() < 0.35:
        classes += L.decorate(spec, rng, a, freeform_p=0.15, big_tilt_p=0.0)
    P = L.psys(spec)
    ya, _ = P.marginal(L.epd_of(spec, P))
    yb, _, _, _ = P.chief(spec['field_type'], max(f[0] for f in spec['fields']))
    h = np.abs(np.asarray(ya, float)[1:]) + np.abs(np.asarray(yb, float))
    K = len(spec['surfaces'])
    for k, s in enumerate(spec['surfaces']):
        r = rng.random()
        if r < 0.35:
            rmax = float(max(1e-3, h[k]) * rng.uniform(0.4, 1.3))
            ap = {'r_max': round(rmax, 6)}
            if rng.random() < 0.4:
                ap['r_min'] = round(float(rmax * rng.uniform(0.05, 0.5)), 6)
                classes.append('obscuration')
            s['aperture'] = ap
            classes.append('aperture')
        m = s.get('medium')
        if isinstance(m, dict) and 'n' in m and rng.random() < 0.5:
            m['k'] = float(L.loguniform(rng, 1e-8, 1e-5))
            classes.append('absorbing-medium')
        elif m == 'air' and k < K - 1 and rng.random() < 0.12:
            # an absorbing gap whose index is exactly 1 (a gas cell): absorption does not depend on the index being != 1
            s['medium'] = {'n': 1.0, 'k': float(L.loguniform(rng, 1e-8, 1e-5))}
            classes.append('absorbing-medium-index-1')
        if k < K - 1 and rng.random() < 0.35:
            T = float(rng.choice([0.0, 1.0, rng.uniform(0, 1)]))
            R = float(rng.uniform(0, 1 - T)) if rng.random() < 0.7 else float(rng.uniform(0, 1))
            s['coating'] = {'T': round(T, 6), 'R': round(R, 6)}
            classes.append('coating-on-mirror' if m == 'mirror' else 'coating')
    # image-space medium absorbing too (same medium on both sides of the image surface)
    last = spec['surfaces'][-2]['medium'] if K >= 2 else 'air'
    if last != 'mirror':
        spec['surfaces'][-1]['medium'] = last
    pol = rng.random()
    if pol < 0.15:
        spec['polarization'] = dict(is_polarized=False)
        classes.append('unpolarized-state')
    elif pol < 0.3:
        spec['polarization'] = dict(is_polarized=True, Ex=1.0, Ey=float(rng.uniform(0, 1)), phase_x=0.0,
                                    phase_y=float(rng.uniform(0, 6.28)))
        classes.append('polarized-state')
    mode = 'trace' if (rng.random() < 0.5 and not multiwl) else 'generic'
    dist = str(rng.choice(['hexapolar', 'uniform', 'random', 'cross', 'ring', 'line_y']))
    nr = int(rng.integers(3, 8)) if dist == 'hexapolar' else int(rng.integers(5, 25))
    n = 20
    rr = np.sqrt(rng.uniform(0, 1, n)); th = rng.uniform(0, 2 * np.pi, n)
    rr[:4] = 1.0
    rr[4] = 0.0        # the exact pupil centre: on axis it lands exactly on every vertex (radius 0 is inside any aperture without obscuration)
    case = dict(spec=spec, info=info, classes=sorted(set(classes)), mode=mode, dist=dist, nr=nr,
                Hy=float(rng.choice([0.0, 1.0, rng.uniform(-1, 1)])), Px=(rr * np.cos(th)).tolist(),
                Py=(rr * np.sin(th)).tolist(),
                wl=float(spec['wavelengths'][int(rng.integers(len(spec['wavelengths'])))][0]),
                wls=([float(spec['wavelengths'][int(j)][0]) for j in rng.integers(len(spec['wavelengths']), size=n)]
                     if multiwl else None))
    if rng.random() < 0.15:
        # traced once, then edited through the public setters: the losses are those of the lens as it is now
        ed = L.gen_edits(rng, spec, kinds=('radius', 'conic', 'thickness'))
        if ed:
            case['edits'] = ed
    return case


def medium_k(m, wl, lens_surface_post):
    """Extinction coefficient at wl (scalar or per-ray array)."""
    shape = np.shape(wl)
    if isinstance(m, dict) and 'n' in m:
        return np.full(shape, float(m.get('k', 0.0))) if shape else float(m.get('k', 0.0))
    if m in ('air',):
        return np.zeros(shape) if shape else 0.0
    try:
        out = [float(np.ravel(lens_surface_post.k(float(w)))[0]) for w in np.ravel(wl)]   # one scalar lookup per ray
        return np.array(out) if shape else out[0]
    except ValueError:
        return np.zeros(shape) if shape else 0.0      # no extinction data: transparent


def check_case(case, rec):
    if case.get('kind') == 'repo-suite':
        suite_monitor.record(rec, suite_monitor.run(('intensity',), case['tests']), ['C16.intensity-not-created'])
        return
    spec = case['spec']
    lens = L.build(spec)
    classes = case['classes']
    rec.cls(*(classes or ['no-loss-mechanism']), f"mode-{case['mode']}")
    if case.get('edits'):
        rec.cls('edited-after-first-use')
        try:
            lens.trace(0.0, case['Hy'], case['wl'], 3, 'hexapolar')
        except ValueError:
            pass       # judged below, on the edited lens
        spec = L.apply_edits(lens, spec, case['edits'])
    wl = case['wl']
    if case.get('wls'):
        wl = np.array(case['wls'])      # one bundle carrying several wavelengths
        rec.cls('multi-wavelength-bundle')
    polarized = spec.get('polarization', 'ignore') != 'ignore'
    try:
        if case['mode'] == 'trace':
            rays = lens.trace(0.0, case['Hy'], wl, case['nr'], case['dist'])
        else:
            Px, Py = np.array(case['Px']), np.array(case['Py'])
            rays = lens.trace_generic(np.zeros(len(Px)), np.full(len(Px), case['Hy']), Px, Py, wl)
    except ValueError as e:
        if 'Chebyshev input coordinates' in str(e):
            rec.cls('chebyshev-domain-error-skipped')
            return
        raise
    sg = lens.surface_group
    X, Y, Z, I = sg.x, sg.y, sg.z, sg.intensity
    K = len(spec['surfaces'])
    n = X.shape[1]
    zs = L.vertex_positions(spec)
    Pall = np.stack([X, Y, Z], -1)
    fin = np.all(np.isfinite(Pall), axis=-1)
    rec.event('rays_traced', n)
    # medium before surface k (k of the medium after surface k-1)
    kext = [medium_k(spec.get('obj_n', 'air'), wl, lens.surface_group.surfaces[0].material_post)]
    prev = kext[0]
    for j, s in enumerate(spec['surfaces'], start=1):
        if s.get('medium') == 'mirror':
            kext.append(prev)
        else:
            prev = medium_k(s.get('medium', 'air'), wl, lens.surface_group.surfaces[j].material_post)
            kext.append(prev)
    expected = np.ones(n)
    dark = np.zeros(n, dtype=bool)
    acted = False
    final_rec = I[-1].copy()
    for k in range(1, K + 1):
        s = spec['surfaces'][k - 1]
        v = fin[k] & fin[k - 1]
        seg = np.linalg.norm(Pall[k] - Pall[k - 1], axis=1)
        with np.errstate(all='ignore'):
            att = np.exp(-4 * math.pi * kext[k - 1] * seg * 1e3 / wl)
        fac = np.where(v, att, np.nan)
        if np.any(np.asarray(kext[k - 1]) > 0):
            acted = True
        if s.get('aperture'):
            fr = S.Frame(s.get('dx', 0.0), s.get('dy', 0.0), zs[k], s.get('rx', 0.0), s.get('ry', 0.0))
            pl = fr.to_local_p(np.where(fin[k][:, None], Pall[k], 0.0))
            r2 = pl[:, 0] ** 2 + pl[:, 1] ** 2
            ap = s['aperture']
            out = (r2 > ap['r_max'] ** 2) | (r2 < ap.get('r_min', 0.0) ** 2)
            # rays within 1e-9 of an aperture edge are not judged (edge membership is rounding)
            # (an aperture without obscuration has no inner rim: radius 0 is inside it)
            edge = np.abs(np.sqrt(r2) - ap['r_max']) < 1e-9 * (1 + ap['r_max'])
            if ap.get('r_min', 0.0) > 0:
                edge |= np.abs(np.sqrt(r2) - ap['r_min']) < 1e-9 * (1 + ap['r_max'])
            fac = np.where(out & v, 0.0, fac)
            fac = np.where(edge, np.nan, fac)
            dark |= out & v
            if (out & v).any():
                acted = True
        c = s.get('coating')
        if isinstance(c, dict) and k < K:
            fac = fac * (c['R'] if s.get('medium') == 'mirror' else c['T'])
            acted = True
        expected = expected * fac
        got = I[k]
        m = v & np.isfinite(expected)
        if m.any():
            rec.event('ray_surface_events', int(m.sum()))
            g = got[m]
            rec.check('intensity-in-0-1', bool(np.all((g >= 0) & (g <= 1 + 1e-12))), n=int(m.sum()),
                      msg=f'surface {k}: intensity outside [0,1]: {g[(g < 0) | (g > 1 + 1e-12)][:3]}')
            prevI = I[k - 1][m]
            rec.check('intensity-never-increases', bool(np.all(g <= prevI * (1 + 1e-12) + 1e-300)), n=int(m.sum()),
                      msg=f'surface {k}: intensity increased along a ray ({(g - prevI).max():.3e})')
            r = np.abs(g - expected[m])
            rec.check('intensity-model', bool(np.all(r <= 1e-9)), resid=float(np.max(r)), tol=1e-9, n=int(m.sum()),
                      msg=f'surface {k}: intensity {g[np.argmax(r)]!r} differs from aperture x absorption x coating model '
                          f'{expected[m][np.argmax(r)]!r}', detail=dict(surface=k, spec_surface=s))
            dk = dark & m
            if dk.any():
                rec.check('clipped-stays-dark', bool(np.all(got[dk] == 0)), n=int(dk.sum()),
                          msg=f'surface {k}: a ray clipped by an aperture upstream carries intensity again')
    # returned rays carry the recorded final intensity, which is the product of the specified losses
    ri = np.asarray(rays.i, float)
    mK = fin[K] & np.isfinite(expected)
    overwrite = polarized and case['mode'] == 'trace'
    # (bit-identical without a polarization state; with one the intensity passes through |E|^2 = 1 +- rounding)
    a_, b_ = np.where(np.isfinite(ri), ri, -1), np.where(np.isfinite(final_rec), final_rec, -1)
    same = np.array_equal(a_, b_) if not polarized else bool(a_.shape == b_.shape and np.all(np.abs(a_ - b_) <= 1e-12))
    key = None
    if not same:
        # known mechanism: under a polarization state Optic.trace replaces rays.i by the intensity recomputed from the
        # polarization matrices only (uncoated / simple-coated lens: exactly the launch intensity 1), discarding
        # clipping, absorption and simple coatings; the per-surface records keep the traced values
        key = 'returned-equals-record:polarized-final-intensity-overwrite' \
            if overwrite and np.all(np.abs(ri[np.isfinite(ri)] - 1.0) <= 1e-9) else 'returned-equals-record:unexplained'
    rec.check('returned-equals-record', same, key=key,
              msg=f'rays.i returned by the trace ({ri[:3]}) differs from the image-surface intensity record ({final_rec[:3]})')
    if mK.any():
        r = np.abs(ri[mK] - expected[mK])
        ok = bool(np.all(r <= 1e-9))
        key = None
        if not ok:
            key = 'returned-intensity-model:polarized-final-intensity-overwrite' \
                if overwrite and np.all(np.abs(ri[mK] - 1.0) <= 1e-9) else 'returned-intensity-model:unexplained'
        rec.check('returned-intensity-model', ok, key=key, resid=float(np.max(r)), tol=1e-9, n=int(mK.sum()),
                  msg=f'returned intensity {ri[mK][np.argmax(r)]!r} differs from the specified losses {expected[mK][np.argmax(r)]!r}')
    if acted and fin[K].any():
        rec.nontrivial_case()
    # analyses report the intensities of the traced rays
    if case['mode'] == 'trace' and not polarized and case['dist'] != 'random':
        from optiland.wavefront import Wavefront
        Hy = case['Hy']
        fmax = max(f[0] for f in spec['fields'])
        if fmax > 0 and all(np.isfinite(final_rec)) and np.ndim(wl) == 0:
            wf = Wavefront(lens, fields=[(0.0, Hy)], wavelengths=[wl], num_rays=case['nr'], distribution=case['dist'])
            wi = np.asarray(wf.data[0][0][1], float)
            rec.check('analysis-reports-traced-intensity', np.array_equal(wi, final_rec),
                      msg='Wavefront intensity differs from the intensities of the traced rays')
    rec.sample(dict(case={k2: case[k2] for k2 in case if k2 != 'info'}, final_intensity=final_rec[:5], model=expected[:5]))
